"""C17 — mesh masking keeps whole triangles and attributes; mesh geometry is sound (DESIGN.md section 6, C17).

Three parties per case: the real menpo mesh classes (TriMesh / ColouredTriMesh / TexturedTriMesh, 2-D and
3-D), a property oracle written directly from the property text with exact `fractions.Fraction`
arithmetic (independent of the Lean model), and the Lean model `Core/C17Mesh.lean` through its driver.

Families of cases
  mask     from_mask / from_tri_mask on grids, Delaunay meshes, arbitrary triangle lists (isolated triangles,
           non-manifold edges, duplicated triangles), all-true / partial / orphan-leaving masks
  geom     tri_areas, edge_lengths, tri_normals, vertex_normals before and after rational rotations,
           translations, uniform scales applied with menpo's own transforms
  bound    boundary_tri_index and unique_edge_indices on open, closed and non-manifold meshes; edge sums by multiplicity
  scale    well-shaped unit meshes x 2^-30 .. 2^-10 and x 2^10 .. 2^20 (exactly representable) in float64 AND float32:
           unit normals at every scale, normals independent of the scale, areas x s^2, edge lengths x s
  writes   (regenerated table, GenProps/C17.lean) the instance attributes written by every public query of the three
           classes on live meshes: obligation = nothing but the lazily created landmark manager
"""
import json
import math
from collections import Counter
from fractions import Fraction

from . import common

PROP = "C17"
INFO = dict(
    technique="Lean 4 proof (index lemmas for masking/renumbering by induction over lists; polynomial identities over Q for "
              "areas, edge lengths and normals of whole meshes under rigid motion and uniform scaling, lifted to R with "
              "Real.sqrt; the np.add.at scatter-add of vertex normals modelled pass by pass over any commutative monoid of rows "
              "and proved equal to the sum of incident normals; sums over edge slots by multiplicity; histories of queries, "
              "masks and copies by induction over the call sequence; characterisation of the boundary toggle dictionary; a "
              "heap of array and object cells for what masking allocates, aliases and leaves alone) "
              "+ the SOURCE TEXT of the anchored code translated into Lean on every run (harness/py2lean2.py, py2lean2s.py + "
              "harness/trans_c17.py: 23 function bodies of adjacency.py, mesh/base.py, coloured.py, textured.py, normals.py over "
              "a vocabulary of one Lean definition per numpy primitive, the three from_mask bodies and from_tri_mask a second "
              "time on the heap) and proved equal, for all arguments, to the model definitions the theorems are about "
              "(GenProps/C17Src, C17SrcGeom, C17SrcHeap: 36 obligations), the property theorems restated for the translated methods "
              "+ regenerated tables (attribute writes of every public query, method suppliers, names referred to by every "
              "transcribed body) with decide obligations "
              "+ model/implementation correspondence and an exact-rational property oracle on the real mesh classes",
    level_text="Theorems over an executable model of mask_adjacency_array, reindex_adjacency_array, _isolated_mask, "
               "from_mask (plain/coloured/textured), from_tri_mask, subsampled_grid_triangulation, tri_areas, mean_tri_area, "
               "edge_vectors/lengths, unique_edge_indices/lengths, mean_edge_length, _normalize (with its nan_to_num branch), "
               "compute_face_normals, compute_vertex_normals (zeros + three np.add.at + _normalize), as_pointgraph edges, "
               "boundary_tri_index (the counting code now in /repo, and the original toggle loop): for every well-formed mesh "
               "and every mask keeping a triangle the result holds exactly the whole triangles, renumbered by a monotone "
               "injective map so that each joins the same rows of points/colours/tcoords, with no orphan vertex, and its edge "
               "slots, unique edges, point-graph edges and boundary flags are those of the kept triangles; whole-mesh areas / "
               "edge lengths are >= 0, invariant under A^T A = 1 plus translation and scale by s^2 / |s| for every s - for the "
               "squares in Q (whole meshes) and, per triangle / per 3-D edge of the HAND-WRITTEN real model of Props/C17Real.lean, "
               "for the returned values in R (Real.sqrt, no contract parameter); in that real model face normals are unit, "
               "perpendicular, follow rotations and do not depend on the uniform scale of the mesh, at EVERY scale; in Q the same "
               "holds for every root satisfying the exact sqrt contract (the two forms coincide where the contract holds: "
               "normalize1_cast) - a contract that only meshes with rational norms satisfy (see partial); vertex "
               "normals are, entry by entry, _normalize of the sum of the unit normals of the incident faces (unit when that sum "
               "is not zero, the zero row at a vertex without a face), independent of the triangle order, rotated with the mesh, "
               "scale invariant (real model and Q-with-contract), equal to the plane normal on flat meshes (Q-with-contract "
               "only) - for the coded three-pass scatter-add on a floating point accumulator; boundary_tri_index equals 'owns an edge of multiplicity 1' on every mesh (all-false exactly when no "
               "such edge exists, e.g. closed meshes); the 3*n_tris edge_lengths slots are the unique_edge_lengths counted with "
               "multiplicity (sums; equal means under uniform multiplicity); unique edges are duplicate-free; grid "
               "triangulations are well formed; any history of geometry queries, masks, triangle masks and copies over mesh "
               "objects answers each query from the arrays of the object asked and never changes an existing object "
               "(history_pure; refuted as soon as one query memoises on the instance: history_memo_refuted); no public query "
               "writes instance state (regenerated table).  TRANSLATED rather than transcribed (source text -> Lean on every "
               "run, equality with the model proved for all arguments): mask_adjacency_array, reindex_adjacency_array, "
               "TriMesh._isolated_mask / from_mask / from_tri_mask / edge_indices / unique_edge_indices / boundary_tri_index / "
               "edge_vectors / edge_lengths / unique_edge_vectors / unique_edge_lengths / mean_edge_length / tri_areas (2-D, 3-D "
               "and raising branch) / mean_tri_area / tri_normals / vertex_normals, ColouredTriMesh.from_mask, "
               "TexturedTriMesh.from_mask, trilist_to_adjacency_array, _normalize (IEEE 0/0 -> nan -> 0 included), "
               "compute_face_normals, compute_vertex_normals; mask_keeps_whole_triangles / renumber_consistent / "
               "mask_drops_orphans (payloads sliced with the orphan-corrected mask, per class: src_from_mask_slices) / boundary / "
               "unique-edge clauses, 2-D areas and the rigid invariance of 3-D areas / edge lengths are restated for the "
               "translated methods unconditionally (src_* theorems, on well-formed meshes: an index out of range raises in numpy "
               "and drops the row in the model); the 3-D value / scaling / unit-normal clauses are restated for them only under "
               "the exact-rational sqrt contract SqrtOn (see partial).  On the "
               "heap (objects and arrays as cells, the same four bodies translated a second time) the object returned by "
               "from_mask / from_tri_mask is new, holds the arrays the value-level method computes, carries the texture pixels "
               "and every landmark group with equal content, shares no array with anything that existed before (so in-place "
               "writes through the receiver never show through the result and vice versa), and no existing object changes - "
               "along any sequence of maskings (src_from_mask_objects, heap_history).  The model is tied to /repo by the "
               "translation obligations, by running"
               " the real classes on generated "
               "meshes/masks/motions/scales/histories (2^-30 .. 2^20, float64 and float32, six index dtypes, C and Fortran "
               "order; thin triangles down to 1e-9 relative thickness judged at the conditioning of the exact area) and diffing "
               "triangle lists, per-vertex arrays, point-graph edges, areas, edge lengths, means, normals, "
               "vertex-normal sums, boundary index, edge sets and whole observation traces against the Lean driver, and by the "
               "regenerated tables; the oracle decides the property on the real objects.",
    level_note="Trusted: Lean kernel; axioms propext/Classical.choice/Quot.sound; the Python harness and the driver's "
               "parser; the translator (harness/py2lean2.py, py2lean2s.py) and the C17 vocabulary harness/trans_c17.py + "
               "Core/C17Np.lean, Core/C17Heap.lean: one total Lean definition per numpy primitive (fancy / boolean indexing, "
               "isin, unique, add.at, sort, reshape ... - a rule that mistranslated a primitive would make the proved model "
               "disagree with the real classes in the correspondence); float rounding (the model is exact: Q for what the driver executes, R for the returned values; "
               "inputs are small dyadic rationals so masking is bit exact and geometry agrees to 1e-9 relative in float64, "
               "1e-4 in float32); DTYPES AND VIEWS are outside the vocabulary except where named: index arrays are naturals "
               "(`.astype(np.int64)`, int(np.max), the void view of unique_edge_indices translate to the identity, so dropping "
               "them translates identically and only the oracle's narrow-dtype / large-index families see it), "
               "np.unique(view, return_index=True)[1] is read as ROW uniqueness (numpy gets that from the view) listed by first "
               "occurrence (numpy: byte order of the rows; only the set is used), the points dtype is visible only as the dtype of "
               "the vertex-normal accumulator (Np.zerosDT / addAtDT: an integer accumulator truncates); hand-written glue: the "
               "dispatch genFromMask / genFromMaskH on the class (resting on suppliers_ok and on IsOf = which payload lists are "
               "empty); the heap rules ASSERT freshness of function results and of boolean-index results (IVal.fresh / RVal.fresh) "
               "rather than deriving it (a fast path returning its argument would be seen by the np.shares_memory observation "
               "only); non-mutation of the receiver, class identity and texture identity are not clauses of the property text: "
               "they are correspondence observations (broken tie), decided by the heap obligations and the measured write "
               "table, not oracle failures; the write table is measured on live objects (common.attr_writes) and the mechanism table "
               "reads code objects (co_names): neither is derived from the source text.",
    rule="one case = one (mesh, mask) / (mesh, motion) / (triangle list) / (mesh, scale 2^k, storage dtype) / (mesh, history of "
         "queries, copies and masks); distinct = distinct (class, points, trilist, mask or motion or scale and dtype or history "
         "seed); non-trivial = mask removes at least one triangle or vertex / motion is not the identity / mesh has >= 2 "
         "triangles / scale is not 1 / history has >= 2 maskings",
    partial=["float rounding is outside the model: theorems are exact (Q, R); the code's float64 / float32 answers are compared "
             "with the exact ones to 1e-9 / 1e-4 relative on dyadic inputs, they are not proved to be close",
             "the frame condition of queries_pure / history_pure for the real classes (no public query writes instance state) is "
             "the regenerated table queryWrites_ok, measured on live objects rather than proved from the source; in the heap "
             "model of masking `obj.copy()` is a vocabulary rule (the deep copy that property C06 proves of Copyable.copy) and "
             "the PointCloud / Image / LandmarkManager objects hanging off a mesh are collapsed onto the arrays they hold; "
             "the IEEE specials of a division by zero are modelled, every other rounding is not",
             "np.sqrt is a parameter sqrt : Rat -> Rat of the TRANSLATED geometry and of the Q model; its contract (SqrtOn / "
             "RootsOf / IsRoot: sqrt q is the exact non-negative rational root) is satisfiable only on meshes whose squared norms "
             "are rational squares (flat grids, hand-picked examples; NOT generic meshes: e.g. a cross product (0,-1,1)). Hence "
             "src_tri_areas3 (value, s^2), src_edge_lengths3 (>= 0, |s|), src_tri_normals, src_vertex_normals, src_*_real and "
             "the Q theorems face_normals_unit, face_normals_scale_invariant, vertex_normal_is_normalised_incident_sum, "
             "vertex_normals_follow_rotation, flat_mesh_normals, normal_unit, area3_*_root, edge_length_scales_root are "
             "vacuous on generic meshes; the hypothesis-free statements over R (Props/C17Real.lean) are about a HAND-WRITTEN "
             "real model (faceNormalsR, vertexNormalsR, area3R, lenR: 3-D only, per triangle / edge), which the translated "
             "code reaches only through that contract. Unconditional for the translated code on every mesh: all masking / "
             "edge / boundary results, 2-D areas, rigid invariance of 3-D areas and edge lengths, the structure of "
             "_normalize / compute_face_normals / compute_vertex_normals (= the Q model for every sqrt with RootZero). Making "
             "the vocabulary scalar-generic with a Real.sqrt instance was not done",
             "queries_pure, history_pure, history_objects_never_change hold by construction of the value-passing model (their "
             "content for the real classes is the measured write table and the heap obligations); boundary_spec_manifold / "
             "boundary_coded_* are about the ORIGINAL toggle loop that fix e6f02e4 removed from /repo (kept as the record of "
             "that finding)",
             "subsampled_grid_triangulation / init_2d_grid / init_from_depth_image and as_pointgraph's graph construction are "
             "still transcribed (tied by the correspondence and the mechanism table), not translated"],
    assumptions=["triangle lists index valid vertices and each triangle has three distinct vertex indices (src_tri_areas*, "
                 "src_edge_lengths3, src_unique_edges_once carry no WF hypothesis because the model drops a row with an index out "
                 "of range where numpy raises IndexError: read them on well-formed meshes)",
                 "points arrays are floating point or int64 (generated: float64, float32, int64); narrower integer points "
                 "overflow in np.cross / v ** 2 and are not generated; on the unchanged tree an integer points array makes "
                 "vertex_normals() wrong (finding notes/fixes/C17-vertex-normals-integer-points.diff)",
                 "an all-true mask returns the mesh unchanged (vertices that had no triangle before masking are not "
                 "'left' without one by it); a mask keeping no whole triangle is outside the property's quantifier "
                 "(the code raises ValueError; checked as error-kind correspondence only)",
                 "normals: triangles of non-zero area; vertex normals: vertices whose incident unit normals do not cancel",
                 "rigid motions are menpo Rotation (rational matrices, det +1) and Translation; scales are positive; the scale "
                 "family uses well-shaped meshes (|cross| >= 1/2 and > |e1||e2|/4 at unit scale) whose scaled coordinates are "
                 "exactly representable in the storage dtype",
                 "queries may lazily create the (empty) landmark manager `_landmarks`; nothing else is written"],
    design_ref="DESIGN.md section 6, C17; section 7 items 17-19; section 14.2 (seeded C17-1..3)")
IMPORTS = ["MenpoModel.Props.C17", "MenpoModel.Props.C17Real"]
GEN_IMPORTS = ["MenpoModel.GenProps.C17"]
TARGETS = ["MenpoModel.Props.C17", "MenpoModel.Props.C17Real", "MenpoModel.Drive.C17"]
GEN_THEOREMS = ["MenpoModel.GenProps.C17.queryWrites_ok", "MenpoModel.GenProps.C17.geometry_never_written",
                "MenpoModel.GenProps.C17.suppliers_ok", "MenpoModel.GenProps.C17.mechanism_ok"]
THEOREMS = [
    "MenpoModel.C17.mask_keeps_whole_triangles",
    "MenpoModel.C17.renumber_consistent",
    "MenpoModel.C17.mask_drops_orphans",
    "MenpoModel.C17.mask_result_wellformed",
    "MenpoModel.C17.mask_all_true_identity",
    "MenpoModel.C17.mask_no_triangle_raises",
    "MenpoModel.C17.tri_mask_eq_vertex_mask",
    "MenpoModel.C17.tri_mask_keeps_selected",
    "MenpoModel.C17.area2_nonneg",
    "MenpoModel.C17.area2_rigid_invariant",
    "MenpoModel.C17.area2_scales",
    "MenpoModel.C17.areaSq3_nonneg",
    "MenpoModel.C17.areaSq3_rigid_invariant",
    "MenpoModel.C17.areaSq3_scales",
    "MenpoModel.C17.area3_rigid_invariant_root",
    "MenpoModel.C17.area3_scales_root",
    "MenpoModel.C17.edgeSq2_nonneg",
    "MenpoModel.C17.edgeSq3_nonneg",
    "MenpoModel.C17.edgeSq2_rigid_invariant",
    "MenpoModel.C17.edgeSq3_rigid_invariant",
    "MenpoModel.C17.edgeSq2_scales",
    "MenpoModel.C17.edgeSq3_scales",
    "MenpoModel.C17.edge_length_scales_root",
    "MenpoModel.C17.normal_perpendicular",
    "MenpoModel.C17.normal_follows_rotation",
    "MenpoModel.C17.unit_normal_follows_rotation",
    "MenpoModel.C17.normal_unit",
    "MenpoModel.C17.boundary_flags_exactly",
    "MenpoModel.C17.boundary_fixed_eq_spec",
    "MenpoModel.C17.boundary_spec_manifold",
    "MenpoModel.C17.boundary_coded_raises_iff",
    "MenpoModel.C17.boundary_coded_refuted_closed",
    "MenpoModel.C17.boundary_coded_refuted_nonmanifold",
    "MenpoModel.C17.unique_edges_once",
    # whole-mesh queries under uniform scaling and rigid motion
    "MenpoModel.C17.mesh_areas2_scale",
    "MenpoModel.C17.mesh_areasSq3_scale",
    "MenpoModel.C17.mesh_edgeSq2_scale",
    "MenpoModel.C17.mesh_edgeSq3_scale",
    "MenpoModel.C17.mesh_areasSq3_rigid",
    "MenpoModel.C17.mesh_areas2_rigid",
    "MenpoModel.C17.face_normals_unit",
    "MenpoModel.C17.face_normals_scale_invariant",
    "MenpoModel.C17.vertex_normals_scale_invariant",
    "MenpoModel.C17.nondegenerate_scale",
    # vertex normals: the scatter-add
    "MenpoModel.C17.vertex_sums_coded_eq_spec",
    "MenpoModel.C17.incident_sum_distinct",
    "MenpoModel.C17.vertex_normal_is_normalised_incident_sum",
    "MenpoModel.C17.vertex_sums_order_independent",
    "MenpoModel.C17.vertex_normals_follow_rotation",
    "MenpoModel.C17.flat_mesh_normals",
    # edges with multiplicity, means, closed meshes
    "MenpoModel.C17.edge_length_symmetric",
    "MenpoModel.C17.edge_sum_by_multiplicity",
    "MenpoModel.C17.mean_edge_uniform_multiplicity",
    "MenpoModel.C17.mesh_edge_lengths_by_multiplicity",
    "MenpoModel.C17.mean_scales",
    "MenpoModel.C17.boundary_none_iff",
    "MenpoModel.C17.boundary_closed_all_false",
    # masking and edge structure; purity of the queries
    "MenpoModel.C17.mask_edges_renumbered",
    "MenpoModel.C17.queries_pure",
    "MenpoModel.C17.mask_after_queries",
    "MenpoModel.C17.grid_triangulation_wellformed",
    "MenpoModel.C17.boundFromEdges_eq",
    "MenpoModel.C17.history_pure",
    "MenpoModel.C17.history_objects_never_change",
    "MenpoModel.C17.history_memo_refuted",
    # over the real numbers (Real.sqrt, no contract parameter): Props/C17Real.lean
    "MenpoModel.C17.R3.normalize_unit",
    "MenpoModel.C17.R3.normalize_smul_pos",
    "MenpoModel.C17.R3.normalize_mulVecR",
    "MenpoModel.C17.normalize1_cast",
    "MenpoModel.C17.area3R_props",
    "MenpoModel.C17.lenR_props",
    "MenpoModel.C17.faceNormalR_props",
    "MenpoModel.C17.faceNormalsR_scale",
    "MenpoModel.C17.faceNormalsR_rotation",
    "MenpoModel.C17.faceNormals_cast",
    "MenpoModel.C17.vertexNormalsR_entry",
    "MenpoModel.C17.vertexNormalsR_scale",
    "MenpoModel.C17.vertexNormalsR_rotation",
    "MenpoModel.C17.incidentSumR_order_independent",
    "MenpoModel.C17.vertexNormals_cast",
    "MenpoModel.C17.Generic.vertexSumsCoded_get",
    "MenpoModel.C17.vertexNormalsR_coded",
]

TOL = 1e-9


# ================================================================================ generators

GEOM_QUERIES = ("boundary_tri_index", "unique_edge_indices", "edge_indices", "tri_areas", "edge_lengths",
                "unique_edge_lengths", "mean_edge_length", "mean_tri_area", "tri_normals", "vertex_normals",
                "edge_vectors", "unique_edge_vectors", "graph_edges")


def query(mesh, q):
    """one public geometry query by name (`graph_edges` = the edge list of as_pointgraph())"""
    if q == "graph_edges":
        return mesh.as_pointgraph().edges
    return getattr(mesh, q)()


def dy(rng, kmax=64, den=8):
    return rng.randint(-kmax, kmax) / float(den)


def distinct_points(rng, n, d, kmax=64, den=8):
    seen, pts = set(), []
    while len(pts) < n:
        p = tuple(dy(rng, kmax, den) for _ in range(d))
        if p not in seen:
            seen.add(p)
            pts.append(list(p))
    return pts


def grid_tris(r, c):
    """the triangulation of TriMesh.init_2d_grid (used only to build 3-D height fields)"""
    idx = [[i * c + j for j in range(c)] for i in range(r)]
    down = [[idx[i][j], idx[i + 1][j], idx[i + 1][j + 1]] for i in range(r - 1) for j in range(c - 1)]
    up = [[idx[i][j], idx[i + 1][j + 1], idx[i][j + 1]] for i in range(r - 1) for j in range(c - 1)]
    return down + up


CLOSED = {
    "tetra": (4, [[0, 2, 1], [0, 1, 3], [0, 3, 2], [1, 2, 3]]),
    "octa": (6, [[0, 2, 4], [2, 1, 4], [1, 3, 4], [3, 0, 4], [2, 0, 5], [1, 2, 5], [3, 1, 5], [0, 3, 5]]),
    "two-apex": (5, [[0, 2, 1], [0, 1, 3], [0, 3, 2], [1, 2, 3], [0, 1, 4], [1, 2, 4], [2, 0, 4]]),
    "book3": (5, [[0, 1, 2], [0, 1, 3], [1, 0, 4]]),
    "double": (3, [[0, 1, 2], [2, 1, 0]]),
}


TRILIST_DTYPES = ("int64", "int64", "int64", "uint8", "int16", "int32", "uint32", "uint64")


def storage(rng, case):
    """how the arrays are handed to the constructor: index dtype of the triangle list, memory order of the points"""
    if "trilist_dtype" not in case:
        case["trilist_dtype"] = rng.choice(TRILIST_DTYPES)
    case["order"] = "F" if rng.random() < 0.25 else "C"
    return case


def gen_sliver(rng, d):
    """a strip of thin but degenerate-free triangles (height 1/8 .. 1/2 over bases of length 4 .. 12)"""
    k = rng.randint(2, 5)
    base = rng.choice([4, 8, 12])
    h = rng.choice([1, 2, 4]) / 8.0
    pts, tris = [], []
    for i in range(k + 1):
        lo = [float(i * base), 0.0] + ([dy(rng, 8, 8)] if d == 3 else [])
        hi = [float(i * base) + base / 2.0, h] + ([dy(rng, 8, 8)] if d == 3 else [])
        pts += [lo, hi]
    for i in range(k):
        a, b, c, e = 2 * i, 2 * i + 1, 2 * i + 2, 2 * i + 3
        tris += [[a, c, b], [b, c, e]]
    if rng.random() < 0.5:
        tris.append(list(tris[0]))             # a duplicated sliver
    return dict(shape="sliver", d=d, points=pts, tris=tris)


def gen_mesh(rng, d, allow_orphans=True):
    """-> dict(shape, d, points (list of float rows, pairwise distinct), tris)"""
    if rng.random() < 0.08:
        return gen_sliver(rng, d)
    if d == 3 and rng.random() < 0.07:
        # a flat, consistently oriented patch in the plane z = const (the motions of the geometry family tilt it)
        r, c = rng.randint(2, 4), rng.randint(2, 4)
        z = dy(rng, 16, 4)
        pts = [[i + rng.randint(-2, 2) / 8.0, j + rng.randint(-2, 2) / 8.0, z] for i in range(r) for j in range(c)]
        return dict(shape="flat-grid", d=3, points=pts, tris=grid_tris(r, c))
    k = rng.random()
    if k < 0.2:
        r, c = rng.randint(2, 4), rng.randint(2, 4)
        if d == 2:
            return dict(shape="grid", d=2, grid=[r, c], points=None, tris=None)
        pts = [[float(i), float(j), dy(rng, 16, 4)] for i in range(r) for j in range(c)]
        return dict(shape="grid-height", d=3, points=pts, tris=grid_tris(r, c))
    if k < 0.4:
        n = rng.randint(4, 9)
        p2 = distinct_points(rng, n, 2, 40, 4)
        if d == 2:
            return dict(shape="delaunay", d=2, points=p2, tris=None)
        return dict(shape="delaunay-height", d=3, points=[p + [dy(rng, 16, 4)] for p in p2], tris=None, base2d=p2)
    if k < 0.52:
        name = rng.choice(sorted(CLOSED))
        n, tris = CLOSED[name]
        perm = list(range(n))
        rng.shuffle(perm)
        tris = [[perm[v] for v in t] for t in tris]
        return dict(shape="closed:" + name, d=d, points=distinct_points(rng, n, d), tris=tris)
    n = rng.randint(3, 12)
    nt = rng.randint(1, 12)
    tris = []
    for _ in range(nt):
        if tris and rng.random() < 0.3:           # share an edge with an earlier triangle (non-manifold fans)
            t = rng.choice(tris)
            a, b = rng.sample(t, 2)
            c = rng.choice([v for v in range(n) if v not in (a, b)])
            tris.append([a, b, c] if rng.random() < 0.5 else [b, a, c])
        elif tris and rng.random() < 0.12:
            t = list(rng.choice(tris))            # duplicated triangle, as is / rotated / reversed
            r = rng.random()
            tris.append(t if r < 0.4 else t[1:] + t[:1] if r < 0.7 else t[::-1])
        else:
            tris.append(rng.sample(range(n), 3))
    used = sorted({v for t in tris for v in t})
    if not (allow_orphans and rng.random() < 0.15) and len(used) < n:   # usually: every vertex has a triangle
        remap = {v: i for i, v in enumerate(used)}
        tris = [[remap[v] for v in t] for t in tris]
        n = len(used)
    return dict(shape="arbitrary", d=d, points=distinct_points(rng, n, d), tris=tris)


def gen_attrs(rng, cls, n):
    a = {}
    if cls == "coloured":
        c = rng.choice([1, 3, 4])
        a["colours"] = [[rng.randint(0, 16) / 16.0 for _ in range(c)] for _ in range(n)]
    if cls == "textured":
        a["tcoords"] = [[rng.randint(0, 32) / 32.0 for _ in range(2)] for _ in range(n)]
        a["texture_seed"] = rng.randint(0, 10 ** 6)
    return a


def build(case):
    """the real menpo object for a case dict (fills in points/tris for grid and Delaunay shapes)"""
    import numpy as np
    from menpo.shape import TriMesh, ColouredTriMesh, TexturedTriMesh
    cls = case.get("cls", "plain")
    if case["shape"] == "grid" and case.get("points") is None:
        base = TriMesh.init_2d_grid(tuple(case["grid"]))
        case["points"] = base.points.tolist()
        case["tris"] = [[int(v) for v in t] for t in base.trilist]
        case["trilist_dtype"] = str(base.trilist.dtype)
    pts = np.array(case["points"], dtype=np.dtype(case.get("pdtype", "float64")), order=case.get("order", "C"))
    if case.get("tris") is None:
        from scipy.spatial import Delaunay
        tl = Delaunay(np.array(case.get("base2d", case["points"]), dtype=float)).simplices
        case["trilist_dtype"] = str(tl.dtype)
        case["tris"] = [[int(v) for v in t] for t in tl]
    tl = np.array(case["tris"], dtype=np.dtype(case.get("trilist_dtype", "int64")))
    if "attrs" not in case:
        raise common.Infra("case without attrs")
    a = case["attrs"]
    if cls == "plain":
        return TriMesh(pts, trilist=tl)
    if cls == "coloured":
        return ColouredTriMesh(pts, trilist=tl, colours=np.array(a["colours"], dtype=float, order=case.get("order", "C")))
    from menpo.image import Image
    r = np.random.RandomState(a["texture_seed"])
    tex = Image(r.randint(0, 17, size=(3, 4, 5)) / 16.0)
    return TexturedTriMesh(pts, np.array(a["tcoords"], dtype=float), tex, trilist=tl)


def gen_mask_case(rng):
    d = rng.choice([2, 3])
    case = gen_mesh(rng, d)
    case["cls"] = rng.choice(["plain", "plain", "coloured", "textured"])
    case["attrs"] = {}
    build_probe = dict(case, attrs={}, cls="plain")
    build(build_probe)                      # resolves points / tris for grid and Delaunay
    case["points"], case["tris"] = build_probe["points"], build_probe["tris"]
    if "trilist_dtype" in build_probe:
        case["trilist_dtype"] = build_probe["trilist_dtype"]
    storage(rng, case)
    n, nt = len(case["points"]), len(case["tris"])
    case["attrs"] = gen_attrs(rng, case["cls"], n)
    case["landmarks"] = rng.random() < 0.5
    by_tri = rng.random() < 0.3
    case["by"] = "tri" if by_tri else "vertex"
    k = rng.random()
    if by_tri:
        if k < 0.1:
            m = [True] * nt
        elif k < 0.9:
            p = rng.choice([0.15, 0.3, 0.5, 0.7])
            m = [rng.random() < p for _ in range(nt)]
        else:
            m = [False] * nt
            m[rng.randrange(nt)] = True
        if not any(m) and rng.random() < 0.9:
            m[rng.randrange(nt)] = True
    else:
        if k < 0.06:
            m = [True] * n
        elif k < 0.7:
            p = rng.choice([0.4, 0.6, 0.8, 0.9])
            m = [rng.random() < p for _ in range(n)]
            if all(m) and rng.random() < 0.7:
                m[rng.randrange(n)] = False
        else:                                  # orphan-leaving: drop one corner of one triangle, keep the rest
            m = [True] * n
            m[rng.choice(rng.choice(case["tris"]))] = False
            if rng.random() < 0.5:
                m[rng.randrange(n)] = False
        if not any(all(m[v] for v in t) for t in case["tris"]) and rng.random() < 0.9:
            for v in rng.choice(case["tris"]):
                m[v] = True
    case["mask"] = m
    return case


def quat_rot(w, x, y, z):
    n = Fraction(w * w + x * x + y * y + z * z)
    return [[Fraction(w * w + x * x - y * y - z * z) / n, Fraction(2 * (x * y - w * z)) / n, Fraction(2 * (x * z + w * y)) / n],
            [Fraction(2 * (x * y + w * z)) / n, Fraction(w * w - x * x + y * y - z * z) / n, Fraction(2 * (y * z - w * x)) / n],
            [Fraction(2 * (x * z - w * y)) / n, Fraction(2 * (y * z + w * x)) / n, Fraction(w * w - x * x - y * y + z * z) / n]]


def gen_motion(rng, d):
    """exact description of p -> A p + t; kind in identity/rotation/rigid/scale/scale+translate"""
    kind = rng.choice(["identity", "rotation", "rigid", "rigid", "scale", "scale+translate"])
    ident = [[Fraction(int(i == j)) for j in range(d)] for i in range(d)]
    A, t, s = ident, [Fraction(0)] * d, Fraction(1)
    if kind in ("rotation", "rigid"):
        if d == 2:
            c, sn = common.rat_circle(rng, 9)
            A = [[c, -sn], [sn, c]]
        else:
            while True:
                q = [rng.randint(-4, 4) for _ in range(4)]
                if any(q):
                    break
            A = quat_rot(*q)
    if kind in ("rigid", "scale+translate"):
        t = [Fraction(rng.randint(-80, 80), 8) for _ in range(d)]
    if kind in ("scale", "scale+translate"):
        s = Fraction(rng.randint(1, 32), 8)
        A = [[s * ident[i][j] for j in range(d)] for i in range(d)]
    return dict(kind=kind, A=[[str(x) for x in r] for r in A], t=[str(x) for x in t], s=str(s))


def gen_geom_case(rng):
    d = rng.choice([2, 3, 3])
    case = gen_mesh(rng, d, allow_orphans=True)
    case["cls"] = rng.choice(["plain", "plain", "plain", "coloured"])
    probe = dict(case, attrs={}, cls="plain")
    build(probe)
    case["points"], case["tris"] = probe["points"], probe["tris"]
    if "trilist_dtype" in probe:
        case["trilist_dtype"] = probe["trilist_dtype"]
    storage(rng, case)
    case["attrs"] = gen_attrs(rng, case["cls"], len(case["points"]))
    case["motion"] = gen_motion(rng, d)
    return case


def gen_bound_case(rng):
    case = gen_mesh(rng, rng.choice([2, 3]), allow_orphans=True)
    case["cls"] = "plain"
    case["attrs"] = {}
    probe = dict(case)
    build(probe)
    case["points"], case["tris"] = probe["points"], probe["tris"]
    if "trilist_dtype" in probe:
        case["trilist_dtype"] = probe["trilist_dtype"]
    storage(rng, case)
    return case


# ================================================================================ helpers

def F(x):
    return Fraction(x)


def rows_equal(a, b):
    return len(a) == len(b) and all(tuple(x) == tuple(y) for x, y in zip(a, b))


def slim(case):
    """JSON-able replay payload"""
    keep = {k: case[k] for k in ("shape", "d", "cls", "points", "tris", "attrs", "mask", "by", "motion",
                                 "trilist_dtype", "order", "pdtype", "landmarks", "exps", "hseed", "steps", "grid", "family", "thick") if k in case}
    return keep


def replay_code(case):
    cls = {"plain": "TriMesh", "coloured": "ColouredTriMesh", "textured": "TexturedTriMesh"}[case.get("cls", "plain")]
    lines = ["import numpy as np", "from menpo.shape import TriMesh, ColouredTriMesh, TexturedTriMesh",
             "points = np.array(%r, dtype=%r, order=%r)" % (case["points"], case.get("pdtype", "float64"), case.get("order", "C")),
             "trilist = np.array(%r, dtype=%r)" % (case["tris"], case.get("trilist_dtype", "int64"))]
    if cls == "TriMesh":
        lines.append("mesh = TriMesh(points, trilist=trilist)")
    elif cls == "ColouredTriMesh":
        lines.append("mesh = ColouredTriMesh(points, trilist=trilist, colours=np.array(%r))" % (case["attrs"]["colours"],))
    else:
        lines += ["from menpo.image import Image",
                  "mesh = TexturedTriMesh(points, np.array(%r), Image(np.random.RandomState(%d).randint(0, 17, size=(3, 4, 5)) / 16.0), trilist=trilist)"
                  % (case["attrs"]["tcoords"], case["attrs"]["texture_seed"])]
    fam = case.get("family")
    if fam == "mask":
        lines.append("result = mesh.%s(np.array(%r, dtype=bool))" % ("from_tri_mask" if case["by"] == "tri" else "from_mask", case["mask"]))
        lines.append("print(result.points, result.trilist)")
    elif fam == "bound":
        lines.append("print(mesh.unique_edge_indices()); print(mesh.boundary_tri_index())")
    elif fam == "scale":
        lines.append("for k in %r:" % (case.get("exps") or [case.get("scale_exp", 0)],))
        lines.append("    for dt in ('float64', 'float32'):")
        lines.append("        m = TriMesh((points * 2.0 ** k).astype(dt), trilist=trilist)")
        lines.append("        print(k, dt, m.tri_areas() / 4.0 ** k, m.edge_lengths() / 2.0 ** k)")
        if case.get("d") == 3:
            lines.append("        print(np.linalg.norm(m.tri_normals(), axis=1), np.linalg.norm(m.vertex_normals(), axis=1))")
    elif fam == "geom":
        lines.append("# motion p -> A p + t with A=%r t=%r (exact rationals)" % (case["motion"]["A"], case["motion"]["t"]))
        lines.append("print(mesh.tri_areas(), mesh.edge_lengths())")
    return lines


# ================================================================================ family: mask

def mask_case(ctx, case, lines=None, pending=None, cid=None):
    """run one masking case on the real code, judge it with the oracle; optionally queue the model request"""
    import numpy as np
    site = "C17/from_tri_mask" if case["by"] == "tri" else "C17/from_mask"
    case["family"] = "mask"
    rp = dict(slim(case), call=replay_code(case))
    mesh = build(case)
    P = [tuple(r) for r in case["points"]]
    T = [tuple(t) for t in case["tris"]]
    n = len(P)
    cols = [tuple(r) for r in case["attrs"].get("colours", [])]
    tcs = [tuple(r) for r in case["attrs"].get("tcoords", [])]
    m = list(case["mask"])
    # --- the specification, from the property text ------------------------------------------------
    if case["by"] == "tri":
        sel = {v for t, b in zip(T, m) if b for v in t}
        vmask = [v in sel for v in range(n)]
    else:
        vmask = m
    kept = [t for t in T if all(vmask[v] for v in t)]
    all_true = all(vmask)
    in_quantifier = len(kept) >= 1
    # history: half of the cases query the geometry of the mesh *before* masking it, so that anything a
    # query leaves behind on the instance (memoised edges, areas, normals) is carried into the masking
    warmed = (hash((len(P), len(T), tuple(m))) % 2) == 0
    if warmed:
        for q in GEOM_QUERIES:
            try:
                query(mesh, q)
            except Exception:   # noqa: BLE001 - judged by the geometry family, not here
                pass
    ctx.count("mask-history:" + ("queried-before" if warmed else "fresh"))
    lm = None
    if case.get("landmarks"):
        from menpo.shape import PointCloud
        lm = np.array(case["points"][:2], dtype=float) + 0.5
        mesh.landmarks["probe"] = PointCloud(lm.copy())
    ctx.count("mask-landmarks:" + ("attached" if lm is not None else "none"))
    ctx.count("mask-storage:trilist-%s:points-%s" % (case.get("trilist_dtype", "int64"), case.get("order", "C")))
    before = (mesh.points.copy(), mesh.trilist.copy())
    try:
        arr = np.array(m, dtype=bool)
        res = mesh.from_tri_mask(arr) if case["by"] == "tri" else mesh.from_mask(arr)
        err = None
    except Exception as e:   # noqa: BLE001 - the exception *is* the observation
        res, err = None, type(e).__name__
    obs = None
    if not in_quantifier:
        ctx.count("mask:no-triangle-kept(correspondence only)")
        obs = "err empty" if err == "ValueError" else ("err other:%s" % err if err else "ok-unexpected")
    elif err is not None:
        ctx.fail(site, "raises:" + err, "masking a mesh with a mask that keeps %d whole triangle(s) raised %s"
                 % (len(kept), err), rp)
    else:
        rt = [tuple(int(v) for v in t) for t in res.trilist]
        rpnts = [tuple(r) for r in res.points.tolist()]
        ok = True
        if type(res) is not type(mesh):     # not stated by the property text: an observation, not an oracle failure
            ctx.mismatch("mask/class", "result is a %s, the receiver a %s" % (type(res).__name__, type(mesh).__name__), rp)
        ok &= ctx.check(len(rt) == len(kept), site, "triangle-count",
                        "%d triangles kept, %d triangles have all their vertices kept by the mask" % (len(rt), len(kept)), rp)
        valid = all(0 <= v < len(rpnts) for t in rt for v in t)
        ok &= ctx.check(valid, site, "index-out-of-range", "the renumbered triangle list indexes past the vertex array", rp)
        if valid:
            want = Counter(tuple(P[v] for v in t) for t in kept)
            got = Counter(tuple(rpnts[v] for v in t) for t in rt)
            ok &= ctx.check(want == got, site, "triangle-coordinates",
                            "kept triangles do not join the same three coordinates as before", rp)
            used_vertices = sorted({v for t in kept for v in t})
            exp_vertices = used_vertices
            if all_true and len(rpnts) == n:
                # the text says "drops vertices left without a triangle": with an all-true mask both readings are accepted
                # (nothing is 'left' without a triangle by this mask: the code's fast path; or pre-existing orphans go too)
                exp_vertices = list(range(n))
            ok &= ctx.check(len(rpnts) == len(exp_vertices), site, "vertex-count",
                            "%d vertices in the result, %d vertices belong to a kept triangle" % (len(rpnts), len(exp_vertices)), rp)
            if exp_vertices is used_vertices:
                usedv = {v for t in rt for v in t}
                ok &= ctx.check(usedv == set(range(len(rpnts))), site, "orphan-kept",
                                "the result contains a vertex that belongs to no triangle", rp)
            ok &= ctx.check(sorted(rpnts) == sorted(P[v] for v in exp_vertices), site, "vertex-set",
                            "the vertices of the result are not the vertices of the kept triangles", rp)
            # attributes travel with their vertices (points are pairwise distinct: the coordinate identifies the vertex)
            where = {p: i for i, p in enumerate(P)}
            if cols:
                rc = [tuple(r) for r in res.colours.tolist()]
                good = len(rc) == len(rpnts) and all(p in where and rc[j] == cols[where[p]] for j, p in enumerate(rpnts))
                ok &= ctx.check(good, site, "colours-detached", "a vertex does not carry its own colour after masking", rp)
            if tcs:
                rx = [tuple(r) for r in res.tcoords.points.tolist()]
                good = len(rx) == len(rpnts) and all(p in where and rx[j] == tcs[where[p]] for j, p in enumerate(rpnts))
                ok &= ctx.check(good, site, "tcoords-detached", "a vertex does not carry its own texture coordinate after masking", rp)
                if not np.array_equal(res.texture.pixels, mesh.texture.pixels):      # not in the text: observation
                    ctx.mismatch("mask/texture", "the texture image changed", rp)
        if not (np.array_equal(mesh.points, before[0]) and np.array_equal(mesh.trilist, before[1])):
            # non-mutation of the receiver is not a clause of C17's text: a broken tie (heap obligations), not an oracle failure
            ctx.mismatch("mask/receiver-mutated", "masking changed the mesh it was called on", rp)
        if valid and rt:
            # the masked mesh answers geometry queries as a mesh freshly built from its own points and triangles
            from menpo.shape import TriMesh
            fresh = TriMesh(res.points.copy(), trilist=res.trilist.copy())
            for q in GEOM_QUERIES:
                try:
                    a = np.asarray(query(res, q))
                    ea = None
                except Exception as e:   # noqa: BLE001
                    a, ea = None, type(e).__name__
                try:
                    b = np.asarray(query(fresh, q))
                    eb = None
                except Exception as e:   # noqa: BLE001
                    b, eb = None, type(e).__name__
                same = (ea == eb) if (a is None or b is None) else (
                    a.shape == b.shape and bool(np.allclose(a, b, rtol=1e-9, atol=1e-12, equal_nan=True)))
                ok &= ctx.check(same, site, "stale-geometry:" + q,
                                "%s() of the masked mesh differs from the same query on a mesh freshly built from its "
                                "points and triangles%s" % (q, " (the mesh had been queried before masking)" if warmed else ""),
                                dict(rp, queried_before_masking=warmed))
        if ok:
            extra = {}
            try:
                extra["graph"] = sorted(tuple(sorted(int(x) for x in e)) for e in res.as_pointgraph().edges)
                extra["bound"] = [bool(x) for x in res.boundary_tri_index()]
            except Exception as e:   # noqa: BLE001
                extra["error"] = type(e).__name__
            # what the heap-level translation proves (GenProps/C17SrcHeap: src_from_mask_objects) observed on the real
            # objects: landmarks travel unchanged as an owned copy; nothing of the result is a view of the receiver
            # (a write into the result cannot reach the mesh it came from)
            if lm is not None:
                try:
                    got = res.landmarks["probe"].points
                    extra["landmarks_ok"] = bool(np.array_equal(got, lm) and not np.shares_memory(got, mesh.landmarks["probe"].points))
                except Exception as e:   # noqa: BLE001
                    extra["landmarks_ok"] = False
            pairs = [(res.points, mesh.points), (res.trilist, mesh.trilist)]
            if cols:
                pairs.append((res.colours, mesh.colours))
            if tcs:
                pairs += [(res.tcoords.points, mesh.tcoords.points), (res.texture.pixels, mesh.texture.pixels)]
            extra["aliased"] = any(np.shares_memory(x, y) for x, y in pairs)
            obs = ("ok", rt, [list(r) for r in rpnts],
                   [list(r) for r in res.colours.tolist()] if cols else [],
                   [list(r) for r in res.tcoords.points.tolist()] if tcs else [], extra)
    removed_t = len(T) - len(kept)
    ctx.count("mask:%s:%s" % (case["by"], case["cls"]))
    ctx.count("mask-shape:" + case["shape"].split(":")[0])
    ctx.count("mask-kind:" + ("all-true" if all_true else "no-triangle" if not kept else
                              "orphan-leaving" if any(vmask[v] and not any(v in t for t in kept) for v in range(n))
                              else "partial"))
    if lines is not None:
        def mat(rows):
            return common.fmat(rows) if rows else "0 0"
        lines.append("%s %s %s %s %s %d %s %d %s" % (
            cid, "trimask" if case["by"] == "tri" else "mask", mat(case["points"]), mat(case["attrs"].get("colours", [])),
            mat(case["attrs"].get("tcoords", [])), len(T), " ".join(str(v) for t in T for v in t), len(m),
            " ".join("1" if b else "0" for b in m)))
        pending[cid] = (case, obs)
    return removed_t > 0 or (not all_true)


def parse_mesh_reply(rep):
    tk = rep.split()
    if tk[0] == "err":
        return rep
    assert tk[0] == "ok" and tk[1] == "T"
    i = 2
    k = int(tk[i]); i += 1
    tris = [tuple(int(x) for x in tk[i + 3 * j:i + 3 * j + 3]) for j in range(k)]
    i += 3 * k
    arrs = []
    for tag in ("P", "C", "X"):
        assert tk[i] == tag
        r, c = int(tk[i + 1]), int(tk[i + 2])
        i += 3
        arrs.append([[Fraction(x) for x in tk[i + c * j:i + c * j + c]] for j in range(r)])
        i += r * c
    assert tk[i] == "G"
    g = int(tk[i + 1]); i += 2
    graph = sorted((int(tk[i + 2 * j]), int(tk[i + 2 * j + 1])) for j in range(g))
    i += 2 * g
    assert tk[i] == "B"
    bound = [x == "1" for x in tk[i + 1:i + 1 + k]]
    return ("ok", tris, arrs[0], arrs[1], arrs[2], dict(graph=graph, bound=bound))


def compare_mask(ctx, case, obs, rep):
    if obs is None:
        return     # the oracle already failed on this case
    mod = parse_mesh_reply(rep)
    rp = dict(slim(case), call=replay_code(case))
    if isinstance(obs, str) or isinstance(mod, str):
        if obs != mod:
            ctx.mismatch("mask", "model %r vs implementation %r" % (str(mod)[:120], str(obs)[:120]), rp)
        return
    same = (mod[1] == obs[1] and all(rows_equal(a, [[F(x) for x in r] for r in b]) for a, b in zip(mod[2:5], obs[2:5])))
    if not same:
        ctx.mismatch("mask", "model triangles/arrays %r vs implementation %r" % (str(mod[1:3])[:160], str(obs[1:3])[:160]), rp)
        return
    ex, mx = obs[5], mod[5]
    if "error" in ex:
        ctx.mismatch("mask/as_pointgraph", "as_pointgraph / boundary_tri_index of the masked mesh raised %s" % ex["error"], rp)
    else:
        if ex["graph"] != mx["graph"]:
            ctx.mismatch("mask/as_pointgraph", "edges of the masked mesh's point graph %r vs model (renumbered edges of the kept "
                         "triangles) %r" % (ex["graph"][:8], mx["graph"][:8]), rp)
        if ex["bound"] != mx["bound"]:
            ctx.mismatch("mask/boundary_tri_index", "boundary index of the masked mesh %r vs model %r" % (ex["bound"], mx["bound"]), rp)
    if ex.get("landmarks_ok") is False:
        ctx.mismatch("mask/landmarks", "the landmarks of the mesh are not carried unchanged (as an owned copy) by masking", rp)
    if ex.get("aliased"):
        ctx.mismatch("mask/aliasing", "an array of the masked mesh is a view of the receiver's array", rp)


# ================================================================================ family: geom

def ex_cross_sq(a, b, c):
    """exact squared area by the Gram determinant (not the cross product the code and the model use)"""
    u = [F(y) - F(x) for x, y in zip(a, b)]
    v = [F(y) - F(x) for x, y in zip(a, c)]
    uu, vv, uv = sum(x * x for x in u), sum(x * x for x in v), sum(x * y for x, y in zip(u, v))
    return (uu * vv - uv * uv) / 4


def fsqrt(q):
    return math.sqrt(float(q)) if q > 0 else 0.0


def geom_case(ctx, case, lines=None, pending=None, cid=None):
    import numpy as np
    from menpo.transform import Rotation, Translation, UniformScale
    site = "C17/geometry"
    case["family"] = "geom"
    rp = dict(slim(case), call=replay_code(case))
    mesh = build(case)
    d = case["d"]
    mo = case["motion"]
    A = [[Fraction(x) for x in r] for r in mo["A"]]
    t = [Fraction(x) for x in mo["t"]]
    s = Fraction(mo["s"])
    kind = mo["kind"]
    P = case["points"]
    T = case["tris"]
    scale_in = max([1.0] + [abs(x) for r in P for x in r])
    # ---- move the mesh with menpo's own transforms
    try:
        moved = mesh
        if kind in ("rotation", "rigid"):
            moved = Rotation(np.array([[float(x) for x in r] for r in A])).apply(moved)
        if kind in ("scale", "scale+translate"):
            moved = UniformScale(float(s), d).apply(moved)
        if any(t):
            moved = Translation(np.array([float(x) for x in t])).apply(moved)
        a0, a1 = mesh.tri_areas(), moved.tri_areas()
        e0, e1 = mesh.edge_lengths(), moved.edge_lengths()
        ue0, ue1 = mesh.unique_edge_lengths(), moved.unique_edge_lengths()
        means = [float(mesh.mean_edge_length()), float(mesh.mean_edge_length(unique=False)), float(mesh.mean_tri_area()),
                 float(moved.mean_edge_length()), float(moved.mean_edge_length(unique=False)), float(moved.mean_tri_area())]
        n0 = n1 = v0 = v1 = vperm = None
        if d == 3:
            n0, n1, v0, v1 = mesh.tri_normals(), moved.tri_normals(), mesh.vertex_normals(), moved.vertex_normals()
            # the same triangles listed in another order (theorem vertex_sums_order_independent)
            from menpo.shape import TriMesh
            perm = list(range(len(T)))
            common.random.Random(len(T) * 7919 + len(P)).shuffle(perm)
            vperm = TriMesh(mesh.points, trilist=mesh.trilist[perm]).vertex_normals()
    except Exception as e:   # noqa: BLE001
        ctx.fail(site, "raises:" + type(e).__name__, "a geometry query raised %s: %s" % (type(e).__name__, str(e)[:100]), rp)
        ctx.count("geom:raised")
        return True
    moved_pts = moved.points.tolist()
    exact_moved = [[sum(A[i][j] * F(p[j]) for j in range(d)) + t[i] for i in range(d)] for p in P]
    sc_mv = max([1.0] + [abs(float(x)) for r in exact_moved for x in r])
    ok = ctx.check(all(common.close(x, y, sc_mv, TOL) for r, q in zip(moved_pts, exact_moved) for x, y in zip(r, q)),
                   site, "harness-motion", "menpo's transform did not move the points as p -> A p + t (harness premise)", rp)
    if not ok:
        return True
    fac = float(s)
    k = len(T)
    ok = True
    ok &= ctx.check(len(a0) == k and len(a1) == k and len(e0) == 3 * k and len(e1) == 3 * k, site, "shape",
                    "tri_areas / edge_lengths have the wrong length", rp)
    if not ok:
        return True
    asc = max([1.0] + [float(x) for x in a0]) * max(1.0, fac * fac)
    lsc = max([1.0] + [float(x) for x in e0]) * max(1.0, fac)
    ok &= ctx.check(all(x >= 0 for x in a0) and all(x >= 0 for x in a1), site, "negative-area", "a triangle area is negative", rp)
    ok &= ctx.check(all(x >= 0 for x in e0) and all(x >= 0 for x in e1), site, "negative-length", "an edge length is negative", rp)
    ex_a = [fsqrt(ex_cross_sq(P[t_[0]], P[t_[1]], P[t_[2]])) for t_ in T]
    if not all(common.close(x, y, asc, TOL) for x, y in zip(a0, ex_a)):      # the VALUE is not demanded by the text
        ctx.mismatch("geom/area-value", "tri_areas differs from the exact area of the triangle", rp)
    ok &= ctx.check(all(common.close(y, fac * fac * x, asc, TOL) for x, y in zip(a0, a1)), site,
                    "area-not-invariant" if s == 1 else "area-scaling",
                    "areas after the motion are not %s the areas before" % ("equal to" if s == 1 else "s^2 times"), rp)
    ex_e = []
    for t_ in T:
        for (i, j) in ((0, 1), (1, 2), (2, 0)):
            ex_e.append(fsqrt(sum((F(x) - F(y)) ** 2 for x, y in zip(P[t_[i]], P[t_[j]]))))
    if not all(common.close(x, y, lsc, TOL) for x, y in zip(e0, ex_e)):      # neither value nor slot order is demanded
        ctx.mismatch("geom/edge-length-value", "edge_lengths differs from the exact length of the edges AB, BC, CA", rp)
    ok &= ctx.check(all(common.close(y, fac * x, lsc, TOL) for x, y in zip(e0, e1)), site,
                    "length-not-invariant" if s == 1 else "length-scaling",
                    "edge lengths after the motion are not %s the lengths before" % ("equal to" if s == 1 else "s times"), rp)
    und = {frozenset((t_[i], t_[j])) for t_ in T for (i, j) in ((0, 1), (1, 2), (2, 0))}
    ok &= ctx.check(len(ue0) == len(und), site, "unique-edge-count",
                    "%d unique edge lengths for %d undirected edges" % (len(ue0), len(und)), rp)
    nondeg = [ex_cross_sq(P[t_[0]], P[t_[1]], P[t_[2]]) > 0 for t_ in T]
    if d == 3:
        for arr, pts, tag in ((n0, P, "before"), (n1, moved_pts, "after")):
            for j, t_ in enumerate(T):
                if not nondeg[j]:
                    ctx.count("geom:degenerate-triangle-skipped")
                    continue
                nv = [float(x) for x in arr[j]]
                ok &= ctx.check(abs(math.sqrt(sum(x * x for x in nv)) - 1.0) <= 1e-9, site, "normal-not-unit",
                                "a triangle normal (%s the motion) is not a unit vector" % tag, rp)
                for (i, jj) in ((0, 1), (0, 2), (1, 2)):
                    e = [pts[t_[jj]][c] - pts[t_[i]][c] for c in range(3)]
                    el = math.sqrt(sum(x * x for x in e))
                    ok &= ctx.check(abs(sum(x * y for x, y in zip(nv, e))) <= 1e-9 * (1 + el) * max(1.0, sc_mv), site,
                                    "normal-not-perpendicular", "a triangle normal (%s the motion) is not perpendicular to its triangle" % tag, rp)
        Af = [[float(x) for x in r] for r in A]
        for j in range(k):
            if not nondeg[j]:
                continue
            if kind in ("rotation", "rigid"):
                want = [sum(Af[i][c] * float(n0[j][c]) for c in range(3)) for i in range(3)]
            else:
                want = [float(x) for x in n0[j]]
            ok &= ctx.check(all(abs(x - float(y)) <= 1e-9 for x, y in zip(want, n1[j])), site, "normal-does-not-follow",
                            "the normal of the moved triangle is not the moved normal", rp)
        # vertex normals: unit wherever the incident unit normals do not cancel
        for v in range(len(P)):
            acc = [0.0, 0.0, 0.0]
            for j, t_ in enumerate(T):
                for c in t_:
                    if c == v:
                        for q in range(3):
                            acc[q] += float(n0[j][q])
            nrm = math.sqrt(sum(x * x for x in acc))
            if nrm < 1e-6:
                ctx.count("geom:vertex-normal-cancels-or-orphan-skipped")
                continue
            ok &= ctx.check(abs(math.sqrt(sum(float(x) ** 2 for x in v0[v])) - 1.0) <= 1e-9, site, "vertex-normal-not-unit",
                            "a vertex normal is not a unit vector", rp)
    ctx.count("geom:%dd:%s" % (d, kind))
    ctx.count("geom-shape:" + case["shape"].split(":")[0])
    if lines is not None and ok:
        tl = "%d %s" % (k, " ".join(str(v) for t_ in T for v in t_))
        ident = [[Fraction(int(i == j)) for j in range(d)] for i in range(d)]
        flatA = " ".join(common.fq(x) for r in A for x in r)
        flatI = " ".join(common.fq(x) for r in ident for x in r)
        op = "geom%d" % d
        lines.append("%s.0 %s %s %s %s %s" % (cid, op, common.fmat(P), tl, flatI, " ".join(["0"] * d)))
        lines.append("%s.1 %s %s %s %s %s" % (cid, op, common.fmat(P), tl, flatA, " ".join(common.fq(x) for x in t)))
        if d == 3:
            lines.append("%s.2 vnorm %d %s %s" % (cid, len(P), tl, common.fmat(n0.tolist())))
        pending[cid] = (case, dict(a0=[float(x) for x in a0], a1=[float(x) for x in a1], e0=[float(x) for x in e0],
                                   e1=[float(x) for x in e1], u0=sorted(float(x) for x in ue0), u1=sorted(float(x) for x in ue1),
                                   means=means,
                                   n0=None if n0 is None else n0.tolist(), n1=None if n1 is None else n1.tolist(),
                                   v0=None if v0 is None else v0.tolist(), v1=None if v1 is None else v1.tolist(),
                                   vperm=None if vperm is None else vperm.tolist(), nondeg=nondeg, asc=asc, lsc=lsc))
    return kind != "identity"


def parse_geom(rep, d):
    tk = rep.split()
    if tk[0] != "ok":
        return None
    out = {"O": tk[2] == "1", "D": Fraction(tk[4])}
    i = 5
    assert tk[i] == "A"
    k = int(tk[i + 1]); i += 2
    out["A"] = [Fraction(x) for x in tk[i:i + k]]; i += k
    assert tk[i] == "E"
    m = int(tk[i + 1]); i += 2
    out["E"] = [Fraction(x) for x in tk[i:i + m]]; i += m
    if d == 3:
        assert tk[i] == "N"
        k = int(tk[i + 1]); i += 2
        out["N"] = [[Fraction(x) for x in tk[i + 3 * j:i + 3 * j + 3]] for j in range(k)]
        i += 3 * k
    assert tk[i] == "U"
    k = int(tk[i + 1]); i += 2
    out["U"] = [Fraction(x) for x in tk[i:i + k]]
    return out


def fmean(xs):
    xs = list(xs)
    return sum(xs) / len(xs) if xs else float("nan")


def compare_geom(ctx, case, obs, model, cid):
    d = case["d"]
    rp = dict(slim(case), call=replay_code(case))
    kind = case["motion"]["kind"]
    for tag, akey, ekey, nkey, ukey, mo in ((".0", "a0", "e0", "n0", "u0", 0), (".1", "a1", "e1", "n1", "u1", 3)):
        g = parse_geom(model[cid + tag], d)
        if g is None:
            ctx.mismatch("geom", "model answered %r" % model[cid + tag][:80], rp)
            return
        if tag == ".1" and kind in ("identity", "rotation", "rigid") and not (g["O"] and g["D"] == 1):
            raise common.Infra("harness generated a non-orthogonal 'rotation' %r" % (case["motion"],))
        ma = g["A"] if d == 2 else [fsqrt(x) for x in g["A"]]
        if not all(common.close(x, float(y), obs["asc"], TOL) for x, y in zip(obs[akey], ma)):
            ctx.mismatch("tri_areas", "model %r vs implementation %r" % ([float(x) for x in ma][:6], obs[akey][:6]), rp)
        me = [fsqrt(x) for x in g["E"]]
        if not all(common.close(x, y, obs["lsc"], TOL) for x, y in zip(obs[ekey], me)):
            ctx.mismatch("edge_lengths", "model %r vs implementation %r" % (me[:6], obs[ekey][:6]), rp)
        mu = sorted(fsqrt(x) for x in g["U"])
        if len(mu) != len(obs[ukey]) or not all(common.close(x, y, obs["lsc"], TOL) for x, y in zip(obs[ukey], mu)):
            ctx.mismatch("unique_edge_lengths", "model %r vs implementation %r" % (mu[:6], obs[ukey][:6]), rp)
        mm = [fmean(mu), fmean(me), fmean(float(x) for x in ma)]
        for j, (nm, sc) in enumerate((("mean_edge_length(unique=True)", obs["lsc"]), ("mean_edge_length(unique=False)", obs["lsc"]),
                                      ("mean_tri_area", obs["asc"]))):
            if not common.close(obs["means"][mo + j], mm[j], sc, TOL):
                ctx.mismatch(nm, "model %r vs implementation %r" % (mm[j], obs["means"][mo + j]), rp)
        if d == 3:
            for j, raw in enumerate(g["N"]):
                if not obs["nondeg"][j]:
                    continue
                r = fsqrt(sum(x * x for x in raw))
                if not all(abs(float(x) / r - y) <= 1e-9 for x, y in zip(raw, obs[nkey][j])):
                    ctx.mismatch("tri_normals", "model %r/%.6g vs implementation %r" % ([float(x) for x in raw], r, obs[nkey][j]), rp)
                    break
    if d == 3:
        tk = model[cid + ".2"].split()
        nv = int(tk[1])
        sums = [[Fraction(x) for x in tk[2 + 3 * j:5 + 3 * j]] for j in range(nv)]
        for v, sm in enumerate(sums):
            r = fsqrt(sum(x * x for x in sm))
            if r < 1e-6:
                continue
            if not all(abs(float(x) / r - y) <= 1e-9 for x, y in zip(sm, obs["v0"][v])):
                ctx.mismatch("vertex_normals", "vertex %d: model %r normalised vs implementation %r"
                             % (v, [float(x) / r for x in sm], obs["v0"][v]), rp)
                break
            if case["shape"] == "flat-grid" and any(v in t_ for t_ in case["tris"]):
                # theorem flat_mesh_normals: every triangle normal and every vertex normal is the plane normal
                if not all(abs(x - y) <= 1e-9 for x, y in zip(obs["v0"][v], obs["n0"][0])) or \
                        not all(abs(x - y) <= 1e-9 for nr in obs["n0"] for x, y in zip(nr, obs["n0"][0])):
                    ctx.mismatch("vertex_normals/flat", "flat mesh: vertex %d has normal %r, the triangles have normal %r"
                                 % (v, obs["v0"][v], obs["n0"][0]), rp)
                    break
            # theorems about the accumulated normals, observed on the real code: independent of the triangle order,
            # rotated with the mesh (vertex_sums_order_independent, vertex_normals_follow_rotation)
            if r < 1e-3:
                continue        # nearly cancelling incident normals: the direction is ill-conditioned
            if not all(abs(x - y) <= 1e-9 for x, y in zip(obs["vperm"][v], obs["v0"][v])):
                ctx.mismatch("vertex_normals/order", "vertex %d: %r with the triangles listed in another order, %r before"
                             % (v, obs["vperm"][v], obs["v0"][v]), rp)
                break
            if kind in ("rotation", "rigid"):
                Af = [[float(Fraction(x)) for x in r_] for r_ in case["motion"]["A"]]
                want = [sum(Af[i][c] * obs["v0"][v][c] for c in range(3)) for i in range(3)]
            else:
                want = obs["v0"][v]
            if not all(abs(x - y) <= max(1e-9, 1e-10 / r) for x, y in zip(want, obs["v1"][v])):   # direction error ~ delta / r
                ctx.mismatch("vertex_normals/motion", "vertex %d: normal of the moved mesh %r, moved normal %r"
                             % (v, obs["v1"][v], want), rp)
                break


# ================================================================================ family: scale

SCALE_EXPS = (-30, -24, -20, -16, -12, -10, 10, 14, 20)
SCALE_DTYPES = ("float64", "float32")
REL = {"float64": 1e-9, "float32": 1e-4}      # relative tolerance appropriate to the storage dtype


def well_shaped(points, tris):
    """exact: every triangle has |cross| >= 1/2 and |cross| > |e1||e2|/4 (no sliver, no tiny triangle) at unit scale"""
    for t in tris:
        a, b, c = (points[v] for v in t)
        u = [F(y) - F(x) for x, y in zip(a, b)]
        v = [F(y) - F(x) for x, y in zip(a, c)]
        uu, vv, uv = sum(x * x for x in u), sum(x * x for x in v), sum(x * y for x, y in zip(u, v))
        cr = uu * vv - uv * uv
        if cr < Fraction(1, 4) or 16 * cr <= uu * vv:
            return False
    return True


def gen_scale_case(rng):
    """a well-shaped unit mesh with dyadic coordinates (multiples of 1/8, |x| <= 8): x 2^k is exact in float64 and float32"""
    d = rng.choice([3, 3, 3, 2])
    while True:
        if d == 2 or rng.random() < 0.7:
            r, c = rng.randint(2, 4), rng.randint(2, 4)
            pts = [[i + rng.randint(-2, 2) / 8.0, j + rng.randint(-2, 2) / 8.0] + ([rng.randint(-8, 8) / 8.0] if d == 3 else [])
                   for i in range(r) for j in range(c)]
            tris, shape = grid_tris(r, c), "scale-grid"
        else:
            ring = [[2, 0], [1, 2], [-1, 2], [-2, 0], [-1, -2], [1, -2]]
            pts = [[float(x), float(y), rng.randint(-2, 2) / 8.0] for x, y in ring] + [[0.0, 0.0, rng.choice([1.0, 1.5, 2.0, -1.25])]]
            tris = [[i, (i + 1) % 6, 6] for i in range(6)]
            if rng.random() < 0.5:
                tris = tris[:rng.randint(3, 5)]       # an open fan
            shape = "scale-cone"
        if well_shaped(pts, tris):
            break
    case = dict(shape=shape, d=d, cls=rng.choice(["plain", "plain", "coloured"]), points=pts, tris=tris,
                exps=list(SCALE_EXPS))
    case["attrs"] = gen_attrs(rng, case["cls"], len(pts))
    return storage(rng, case)


def _np_rows(a):
    import numpy as np
    return np.asarray(a, dtype=np.float64).tolist()


def scale_case(ctx, case, lines=None, pending=None, cid=None):
    """the same well-shaped mesh at the uniform scales 2^k, k in case['exps'], stored as float64 and as float32"""
    import numpy as np
    site = "C17/scale"
    case["family"] = "scale"
    d, P, T = case["d"], case["points"], case["tris"]
    rp0 = dict(slim(case), call=replay_code(case))
    unit = build(dict(case, pdtype="float64"))
    try:
        n0 = v0 = None
        if d == 3:
            n0, v0 = _np_rows(unit.tri_normals()), _np_rows(unit.vertex_normals())
    except Exception as e:   # noqa: BLE001
        ctx.fail(site, "raises:" + type(e).__name__, "a normal query raised %s at unit scale" % type(e).__name__, rp0)
        return True
    ex_a = [fsqrt(ex_cross_sq(P[t_[0]], P[t_[1]], P[t_[2]])) for t_ in T]
    ex_e = [fsqrt(sum((F(x) - F(y)) ** 2 for x, y in zip(P[t_[i]], P[t_[j]]))) for t_ in T for (i, j) in ((0, 1), (1, 2), (2, 0))]
    # vertices whose incident unit normals do not (nearly) cancel
    vlive = []
    if d == 3:
        for v in range(len(P)):
            acc = [sum(n0[j][q] * t_.count(v) for j, t_ in enumerate(T)) for q in range(3)]
            vlive.append(math.sqrt(sum(x * x for x in acc)) >= 1e-3)
    obs = {}
    for k in case["exps"]:
        s = 2.0 ** k
        exact = (np.array(P, dtype=np.float64) * s)
        for dt in SCALE_DTYPES:
            tol = REL[dt]
            rp = dict(rp0, scale_exp=k, pdtype=dt)
            pts = exact.astype(dt)
            if not np.array_equal(pts.astype(np.float64), exact):
                raise common.Infra("scale family: 2^%d x the unit mesh is not representable in %s" % (k, dt))
            try:
                mesh = build(dict(case, points=pts.tolist(), pdtype=dt))
                if str(mesh.points.dtype) != dt:
                    raise common.Infra("scale family: the mesh stores %s points as %s" % (dt, mesh.points.dtype))
                a, e = _np_rows(mesh.tri_areas()), _np_rows(mesh.edge_lengths())
                n = v = None
                if d == 3:
                    n, v = _np_rows(mesh.tri_normals()), _np_rows(mesh.vertex_normals())
            except common.Infra:
                raise
            except Exception as ex:   # noqa: BLE001
                ctx.fail(site, "raises:" + type(ex).__name__, "a geometry query raised %s at scale 2^%d (%s)"
                         % (type(ex).__name__, k, dt), rp)
                continue
            ok = True
            what = "at scale 2^%d with %s vertices" % (k, dt)
            ok &= ctx.check(len(a) == len(T) and len(e) == 3 * len(T), site, "shape", "tri_areas / edge_lengths have the wrong length", rp)
            if not ok:
                continue
            ok &= ctx.check(all(x >= 0 for x in a), site, "negative-area", "a triangle area is negative " + what, rp)
            ok &= ctx.check(all(x >= 0 for x in e), site, "negative-length", "an edge length is negative " + what, rp)
            ok &= ctx.check(all(abs(x - s * s * y) <= tol * s * s * y for x, y in zip(a, ex_a)), site, "area-scaling",
                            "tri_areas %s is not s^2 times the area of the unit mesh" % what, rp)
            ok &= ctx.check(all(abs(x - s * y) <= tol * s * y for x, y in zip(e, ex_e)), site, "length-scaling",
                            "edge_lengths %s is not s times the edge lengths of the unit mesh" % what, rp)
            if d == 3:
                lens = [math.sqrt(sum(x * x for x in r)) for r in n]
                ok &= ctx.check(all(abs(x - 1.0) <= tol for x in lens), site, "normal-not-unit",
                                "a triangle normal %s is not a unit vector (lengths %.6g .. %.6g); the triangles are well shaped"
                                % (what, min(lens), max(lens)), rp)
                ok &= ctx.check(all(abs(x - y) <= tol for r, q in zip(n, n0) for x, y in zip(r, q)), site, "normal-depends-on-scale",
                                "the triangle normals %s differ from the normals of the same mesh at unit scale" % what, rp)
                perp = True
                for j, t_ in enumerate(T):
                    for (i, jj) in ((0, 1), (0, 2), (1, 2)):
                        ev = [float(exact[t_[jj]][c] - exact[t_[i]][c]) for c in range(3)]
                        el = math.sqrt(sum(x * x for x in ev))
                        perp &= abs(sum(x * y for x, y in zip(n[j], ev))) <= tol * el
                ok &= ctx.check(perp, site, "normal-not-perpendicular", "a triangle normal %s is not perpendicular to its triangle" % what, rp)
                vl = [math.sqrt(sum(x * x for x in r)) for r in v]
                ok &= ctx.check(all(abs(x - 1.0) <= tol for x, live in zip(vl, vlive) if live), site, "vertex-normal-not-unit",
                                "a vertex normal %s is not a unit vector" % what, rp)
                ok &= ctx.check(all(abs(x - y) <= 10 * tol for r, q, live in zip(v, v0, vlive) if live for x, y in zip(r, q)), site,
                                "vertex-normal-depends-on-scale",
                                "the vertex normals %s differ from the vertex normals of the same mesh at unit scale" % what, rp)
            ctx.count("scale:%dd:%s:2^%d" % (d, dt, k))
            if ok:
                obs[(k, dt)] = dict(a=a, e=e, n=n, v=v)
    ctx.count("scale-shape:" + case["shape"])
    ctx.count("scale-storage:trilist-%s:points-%s" % (case.get("trilist_dtype", "int64"), case.get("order", "C")))
    if lines is not None:
        tl = "%d %s" % (len(T), " ".join(str(v) for t_ in T for v in t_))
        ident = " ".join("1" if i == j else "0" for i in range(d) for j in range(d))
        for k in case["exps"]:
            sc = Fraction(2) ** k
            rows = [[F(x) * sc for x in r] for r in P]
            lines.append("%s.g%d geom%d %s %s %s %s" % (cid, k, d, common.fmat(rows), tl, ident, " ".join(["0"] * d)))
            if d == 3 and (k, "float64") in obs:
                lines.append("%s.v%d vnorm %d %s %s" % (cid, k, len(P), tl, common.fmat(obs[(k, "float64")]["n"])))
        pending[cid] = (case, dict(obs=obs, vlive=vlive))
    return True


def compare_scale(ctx, case, ob, model, cid):
    d = case["d"]
    rp0 = dict(slim(case), call=replay_code(case))
    for (k, dt), o in ob["obs"].items():
        tol = REL[dt]
        rp = dict(rp0, scale_exp=k, pdtype=dt)
        g = parse_geom(model["%s.g%d" % (cid, k)], d)
        if g is None:
            ctx.mismatch("scale", "model answered %r" % model["%s.g%d" % (cid, k)][:80], rp)
            return
        ma = [float(x) for x in g["A"]] if d == 2 else [fsqrt(x) for x in g["A"]]
        if not all(abs(x - y) <= tol * y for x, y in zip(o["a"], ma)):
            ctx.mismatch("scale/tri_areas", "2^%d %s: model %r vs implementation %r" % (k, dt, ma[:4], o["a"][:4]), rp)
        me = [fsqrt(x) for x in g["E"]]
        if not all(abs(x - y) <= tol * y for x, y in zip(o["e"], me)):
            ctx.mismatch("scale/edge_lengths", "2^%d %s: model %r vs implementation %r" % (k, dt, me[:4], o["e"][:4]), rp)
        if d == 3:
            for j, raw in enumerate(g["N"]):
                nr = sum(x * x for x in raw)
                r = fsqrt(nr)
                unit = [float(x) / r for x in raw]
                if not all(abs(x - y) <= tol for x, y in zip(unit, o["n"][j])):
                    ctx.mismatch("scale/tri_normals", "2^%d %s: model %r vs implementation %r" % (k, dt, unit, o["n"][j]), rp)
                    break
            if dt == "float64":
                tk = model["%s.v%d" % (cid, k)].split()
                nv = int(tk[1])
                sums = [[Fraction(x) for x in tk[2 + 3 * j:5 + 3 * j]] for j in range(nv)]
                for v, sm in enumerate(sums):
                    if not ob["vlive"][v]:
                        continue
                    r = fsqrt(sum(x * x for x in sm))
                    if not all(abs(float(x) / r - y) <= 1e-9 for x, y in zip(sm, o["v"][v])):
                        ctx.mismatch("scale/vertex_normals", "2^%d vertex %d: model %r normalised vs implementation %r"
                                     % (k, v, [float(x) / r for x in sm], o["v"][v]), rp)
                        break


# ================================================================================ family: sliver
#
# Thin and nearly degenerate (but valid) triangles: the third vertex lies 1e-6 .. 1e-9 (relative) off the line through
# the other two, near the origin and ~1e3 away from it, in 2-D and 3-D.  The exact area (rational arithmetic on the
# float coordinates) is the reference; the tolerance is RELATIVE and follows the conditioning of the exact area:
#   formula   the coded 0.5 * |ij x ik| (3-D) / 0.5 * |ij0 ik1 - ij1 ik0| (2-D) on float differences carries an absolute
#             error below ~6u |ij| |ik|, i.e. a relative error below ~6u / sin(angle at the first corner) - allowed: 32u / sin;
#   input     a rigid motion / uniform scale applied in floating point moves every coordinate by a few u x (coordinate
#             magnitude M), which changes a triangle of altitude h by a relative ~ u M / h - allowed: 64u M / h.
# A formula that cancels harder than that (seeded C17-5: Lagrange's identity, relative error ~ u / sin^2, NaN from a
# negative radicand) is far outside both.

U_DBL = 2.0 ** -53
SLIVER_THICK = (1e-6, 3e-7, 1e-7, 3e-8, 1e-8, 3e-9, 1e-9)


def _tri_exact(P, t_):
    """exact (Fraction) squared area, squared lengths of ij, ik and of the longest edge of triangle t_ of the float rows P"""
    a, b, c = (P[v] for v in t_)
    u = [F(y) - F(x) for x, y in zip(a, b)]
    v = [F(y) - F(x) for x, y in zip(a, c)]
    w = [F(y) - F(x) for x, y in zip(b, c)]
    uu, vv, ww, uv = sum(x * x for x in u), sum(x * x for x in v), sum(x * x for x in w), sum(x * y for x, y in zip(u, v))
    return (uu * vv - uv * uv) / 4, uu, vv, max(uu, vv, ww)


def gen_sliver_case(rng):
    d = rng.choice([2, 3, 3])
    far = rng.random() < 0.35
    pts, tris, thick_used = [], [], []

    def vec(kmax=12, den=8.0):
        while True:
            v = [rng.randint(-kmax, kmax) / den for _ in range(d)]
            if sum(abs(x) for x in v) >= 0.5:
                return v
    for _ in range(rng.randint(1, 4)):
        base = [rng.randint(-16, 16) / 8.0 + (rng.choice([-1, 1]) * rng.randint(700, 1300) if far else 0.0) for _ in range(d)]
        dv = vec()
        while True:
            nv = vec(8, 8.0)
            # not parallel to dv
            if any(abs(dv[i] * nv[j] - dv[j] * nv[i]) > 1e-9 for i in range(d) for j in range(i + 1, d)):
                break
        th = rng.choice(SLIVER_THICK)
        lam = rng.choice([0.5, 1.5, 2.0, 3.0, -1.0])
        k = len(pts)
        pa = list(base)
        pb = [x + y for x, y in zip(base, dv)]
        pc = [x + lam * y + th * z for x, y, z in zip(base, dv, nv)]
        order = rng.choice([(0, 1, 2), (1, 2, 0), (2, 0, 1), (0, 2, 1)])
        pts += [pa, pb, pc]
        tris.append([k + order[0], k + order[1], k + order[2]])
        thick_used.append(th)
    for _ in range(rng.randint(0, 2)):                       # an ordinary triangle or two next to them
        k = len(pts)
        base = [rng.randint(-16, 16) / 8.0 for _ in range(d)]
        pts += [base, [x + y for x, y in zip(base, vec())], [x + y for x, y in zip(base, vec())]]
        tris.append([k, k + 1, k + 2])
    # exact screening: every triangle has positive area and is resolved by the float grid (sin >= 1e-11)
    for t_ in tris:
        a2, uu, vv, _m = _tri_exact(pts, t_)
        if a2 <= 0 or 4 * a2 < Fraction(1, 10 ** 22) * uu * vv:
            raise ValueError("degenerate sliver: draw again")
    case = dict(shape="sliver-far" if far else "sliver-thin", d=d, cls="plain", attrs={}, points=pts, tris=tris,
                thick=thick_used)
    mo = gen_motion(rng, d)
    while mo["kind"] == "identity":
        mo = gen_motion(rng, d)
    case["motion"] = mo
    return storage(rng, case)


def sliver_case(ctx, case, lines=None, pending=None, cid=None):
    import numpy as np
    from menpo.transform import Rotation, Translation, UniformScale
    site = "C17/sliver"
    case["family"] = "sliver"
    rp = dict(slim(case), call=replay_code(dict(case, family="geom")))
    d, P, T = case["d"], case["points"], case["tris"]
    mo = case["motion"]
    A = [[Fraction(x) for x in r] for r in mo["A"]]
    t = [Fraction(x) for x in mo["t"]]
    s = Fraction(mo["s"])
    kind = mo["kind"]
    try:
        mesh = build(case)
        moved = mesh
        if kind in ("rotation", "rigid"):
            moved = Rotation(np.array([[float(x) for x in r] for r in A])).apply(moved)
        if kind in ("scale", "scale+translate"):
            moved = UniformScale(float(s), d).apply(moved)
        if any(t):
            moved = Translation(np.array([float(x) for x in t])).apply(moved)
        a0 = [float(x) for x in mesh.tri_areas()]
        a1 = [float(x) for x in moved.tri_areas()]
        m0, m1 = float(mesh.mean_tri_area()), float(moved.mean_tri_area())
    except Exception as e:   # noqa: BLE001
        ctx.fail(site, "raises:" + type(e).__name__, "tri_areas raised %s: %s" % (type(e).__name__, str(e)[:100]), rp)
        return True
    Q = moved.points.tolist()
    ok = ctx.check(len(a0) == len(T) and len(a1) == len(T), site, "shape", "tri_areas has the wrong length", rp)
    if not ok:
        return True
    fin = all(math.isfinite(x) for x in a0 + a1)
    ok &= ctx.check(fin, site, "area-not-finite",
                    "tri_areas of a mesh with thin (non-degenerate) triangles is not finite: %r" % ([x for x in a0 + a1 if not math.isfinite(x)][:3],), rp)
    ok &= ctx.check(all(x >= 0 for x in a0 + a1 if math.isfinite(x)), site, "negative-area", "a triangle area is negative", rp)
    if not ok:
        ctx.count("sliver:%dd:%s" % (d, kind))
        return True
    fac2 = float(s) * float(s)
    M = 2.0 * max([1.0] + [abs(x) for r in P for x in r] + [abs(x) / max(1.0, float(s)) for r in Q for x in r] + [abs(float(x)) for x in t])
    worst = 0.0
    for j, t_ in enumerate(T):
        e0 = _tri_exact(P, t_)
        e1 = _tri_exact(Q, t_)
        if e1[0] <= 0:
            ctx.count("sliver:moved-triangle-collapsed-skipped")     # the float motion flattened it: no claim
            continue
        A0, A1 = math.sqrt(float(e0[0])), math.sqrt(float(e1[0]))
        cond0 = math.sqrt(float(e0[1] * e0[2])) / (2.0 * A0)          # 1 / sin(angle at the first corner)
        cond1 = math.sqrt(float(e1[1] * e1[2])) / (2.0 * A1)
        tf0, tf1 = 32 * U_DBL * cond0 + 1e-13, 32 * U_DBL * cond1 + 1e-13
        h0 = 2.0 * A0 / math.sqrt(float(e0[3]))                       # the smallest altitude (unit scale)
        tin = 64 * U_DBL * M / h0
        # the VALUE of an area is not demanded by the property text (>= 0, invariance, s^2 are): observations
        if not abs(a0[j] - A0) <= tf0 * A0:
            ctx.mismatch("sliver/area-value", "tri_areas()[%d] = %r, the exact area of that triangle is %r (relative error %.3g, "
                         "conditioning allows %.3g)" % (j, a0[j], A0, abs(a0[j] - A0) / A0, tf0), rp)
        if not abs(a1[j] - A1) <= tf1 * A1:
            ctx.mismatch("sliver/area-value", "after the motion tri_areas()[%d] = %r, the exact area of the moved triangle is %r "
                         "(relative error %.3g, conditioning allows %.3g)" % (j, a1[j], A1, abs(a1[j] - A1) / A1, tf1), rp)
        ok &= ctx.check(abs(a1[j] - fac2 * a0[j]) <= (tf0 + tf1 + tin) * fac2 * A0, site,
                        "area-not-invariant" if s == 1 else "area-scaling",
                        "triangle %d: area %r before, %r after the motion (expected %s; relative change %.3g, conditioning allows %.3g)"
                        % (j, a0[j], a1[j], "equal" if s == 1 else "s^2 = %r times" % fac2,
                           abs(a1[j] - fac2 * a0[j]) / (fac2 * A0), tf0 + tf1 + tin), rp)
        worst = max(worst, abs(a0[j] - A0) / (tf0 * A0), abs(a1[j] - A1) / (tf1 * A1),
                    abs(a1[j] - fac2 * a0[j]) / ((tf0 + tf1 + tin) * fac2 * A0))
    ctx.notes["sliver_worst_error_over_tolerance"] = max(ctx.notes.get("sliver_worst_error_over_tolerance", 0.0), round(worst, 4))
    if not (abs(m0 - fmean(a0)) <= 1e-12 * max(a0) and abs(m1 - fmean(a1)) <= 1e-12 * max(a1)):
        ctx.mismatch("sliver/mean-area", "mean_tri_area is not the mean of tri_areas", rp)
    ctx.count("sliver:%dd:%s" % (d, kind))
    ctx.count("sliver-shape:" + case["shape"])
    for th in case.get("thick", []):
        ctx.count("sliver-thickness:%g" % th)
    if lines is not None and ok:
        tl = "%d %s" % (len(T), " ".join(str(v) for t_ in T for v in t_))
        ident = " ".join("1" if i == j else "0" for i in range(d) for j in range(d))
        lines.append("%s.0 geom%d %s %s %s %s" % (cid, d, common.fmat(P), tl, ident, " ".join(["0"] * d)))
        pending[cid] = (case, dict(a0=a0))
    return True


def compare_sliver(ctx, case, obs, model, cid):
    """the exact areas of the Lean model (Q; squared in 3-D) against tri_areas, at the conditioning tolerance"""
    d, P, T = case["d"], case["points"], case["tris"]
    rp = dict(slim(case), call=replay_code(dict(case, family="geom")))
    g = parse_geom(model[cid + ".0"], d)
    if g is None:
        ctx.mismatch("sliver", "model answered %r" % model[cid + ".0"][:80], rp)
        return
    for j, t_ in enumerate(T):
        e0 = _tri_exact(P, t_)
        q = g["A"][j]
        if (q if d == 3 else q * q) != e0[0]:
            ctx.mismatch("sliver/tri_areas", "triangle %d: the model's exact %s %s differs from the oracle's squared area %s"
                         % (j, "squared area" if d == 3 else "area", q, e0[0]), rp)
            return
        A0 = float(q) if d == 2 else math.sqrt(float(q))
        cond0 = math.sqrt(float(e0[1] * e0[2])) / (2.0 * A0)
        if abs(obs["a0"][j] - A0) > (32 * U_DBL * cond0 + 1e-13) * A0:
            ctx.mismatch("sliver/tri_areas", "triangle %d: model %r vs implementation %r" % (j, A0, obs["a0"][j]), rp)
            return


# ================================================================================ family: intpts
#
# Meshes whose `points` array has an INTEGER dtype (a TriMesh can be built from one and keeps it): the property speaks
# of all TriMesh instances.  Judged: areas / edge lengths finite and non-negative, triangle normals of non-degenerate
# triangles unit, vertex normals unit wherever the incident unit normals do not cancel (audit finding F2).

INT_DTYPES = ("int64",)      # narrower integer dtypes overflow in np.cross / v ** 2 (disclosed in INFO assumptions)


def gen_intpts_case(rng):
    case = gen_mesh(rng, 3, allow_orphans=False)
    probe = dict(case, attrs={}, cls="plain")
    build(probe)
    pts = [[float(round(x * 8)) for x in r] for r in probe["points"]]        # multiples of 1/8 -> integers
    case = dict(shape="int:" + case["shape"].split(":")[0], d=3, cls="plain", attrs={}, points=pts, tris=probe["tris"],
                pdtype=rng.choice(INT_DTYPES))
    if "trilist_dtype" in probe:
        case["trilist_dtype"] = probe["trilist_dtype"]
    return storage(rng, case)


def intpts_case(ctx, case, lines=None, pending=None, cid=None):
    import numpy as np
    site = "C17/integer-points"
    case["family"] = "intpts"
    rp = dict(slim(case), call=replay_code(dict(case, family="geom", motion=dict(A=[], t=[]))))
    P, T = case["points"], case["tris"]
    try:
        mesh = build(case)
        a, e = _np_rows(mesh.tri_areas()), _np_rows(mesh.edge_lengths())
        n, v = _np_rows(mesh.tri_normals()), _np_rows(mesh.vertex_normals())
    except Exception as ex:   # noqa: BLE001
        ctx.fail(site, "raises:" + type(ex).__name__, "a geometry query of a mesh with %s points raised %s: %s"
                 % (case["pdtype"], type(ex).__name__, str(ex)[:80]), rp)
        return True
    ctx.count("intpts:" + str(mesh.points.dtype))
    if not str(mesh.points.dtype).startswith("int"):
        ctx.count("intpts:constructor-converted-to-float")
    ok = ctx.check(all(math.isfinite(x) and x >= 0 for x in a + e), site, "negative-or-not-finite",
                   "an area or edge length of an integer-points mesh is negative or not finite", rp)
    nondeg = [ex_cross_sq(P[t_[0]], P[t_[1]], P[t_[2]]) > 0 for t_ in T]
    for j, t_ in enumerate(T):
        if nondeg[j]:
            ln = math.sqrt(sum(x * x for x in n[j]))
            ok &= ctx.check(abs(ln - 1.0) <= 1e-9, site, "normal-not-unit",
                            "triangle normal %d of a mesh with %s points has length %r" % (j, case["pdtype"], ln), rp)
    if ok:
        for vtx in range(len(P)):
            acc = [sum(n[j][q] * t_.count(vtx) for j, t_ in enumerate(T) if nondeg[j]) for q in range(3)]
            if math.sqrt(sum(x * x for x in acc)) < 1e-3:
                ctx.count("intpts:vertex-normal-cancels-or-orphan-skipped")
                continue
            ln = math.sqrt(sum(x * x for x in v[vtx]))
            ok &= ctx.check(abs(ln - 1.0) <= 1e-9, site, "vertex-normal-not-unit",
                            "vertex normal %d of a mesh with %s points has length %r (vertex_normals()[%d] = %r); the incident "
                            "unit normals add up to %r" % (vtx, case["pdtype"], ln, vtx, v[vtx], acc), rp)
            if not ok:
                break
    return True


# ================================================================================ family: history

def gen_history_case(rng):
    case = gen_mask_case(rng)
    case["hseed"] = rng.randint(0, 10 ** 9)
    case["steps"] = rng.randint(2, 4)
    return case


def snapshot(mesh, cols, tcs):
    """the arrays of an object as the model reports them (`M` observation)"""
    extra = {"aliased": False}
    try:
        extra["graph"] = sorted(tuple(sorted(int(x) for x in e)) for e in mesh.as_pointgraph().edges)
        extra["bound"] = [bool(x) for x in mesh.boundary_tri_index()]
    except Exception as e:   # noqa: BLE001
        extra["error"] = type(e).__name__
    return ("ok", [tuple(int(v) for v in t) for t in mesh.trilist], mesh.points.tolist(),
            mesh.colours.tolist() if cols else [], mesh.tcoords.points.tolist() if tcs else [], extra)


def history_case(ctx, case, lines=None, pending=None, cid=None):
    """a population of mesh objects under queries, copies and maskings (theorems history_pure,
    history_objects_never_change, queries_pure; the regenerated write table): after every masking the new object
    answers every query as a mesh freshly built from its own arrays, it is the specified masking of the arrays its
    parent holds, no existing object changes, and the whole observation trace equals the Lean model's"""
    import numpy as np
    from menpo.shape import TriMesh
    site = "C17/history"
    case["family"] = "history"
    rp = dict(slim(case), hseed=case["hseed"], steps=case["steps"], call=replay_code(dict(case, family="mask")))
    rng = common.random.Random(case["hseed"])
    cols = "colours" in case["attrs"]
    tcs = "tcoords" in case["attrs"]
    objs = [build(case)]
    frozen = [(objs[0].points.copy(), objs[0].trilist.copy())]
    ops, obs, trace = [], [], []

    def observe(j, kind):
        try:
            if kind == "e":
                val = [tuple(int(x) for x in e) for e in objs[j].edge_indices()]
            else:
                val = [bool(x) for x in objs[j].boundary_tri_index()]
        except Exception as e:   # noqa: BLE001
            ctx.fail(site, "raises:" + type(e).__name__, "%s of object %d raised %s after the history %r"
                     % ("edge_indices" if kind == "e" else "boundary_tri_index", j, type(e).__name__, trace[-8:]),
                     dict(rp, trace=list(trace)))
            return False
        ops.append("%s %d" % (kind, j))
        obs.append((kind, val))
        trace.append(("edge_indices" if kind == "e" else "boundary_tri_index", j))
        return True

    for step in range(case["steps"]):
        j = rng.randrange(len(objs))
        cur = objs[j]
        P = [tuple(r) for r in cur.points.tolist()]
        T = [tuple(int(v) for v in t) for t in cur.trilist]
        n = len(P)
        for q in rng.sample(GEOM_QUERIES, 4):
            try:
                query(cur, q)
            except Exception:   # noqa: BLE001
                pass
            trace.append((q, j))
        if not observe(j, "e"):
            return True
        if rng.random() < 0.5 and not observe(j, "b"):
            return True
        if rng.random() < 0.35:
            objs.append(cur.copy())
            frozen.append((objs[-1].points.copy(), objs[-1].trilist.copy()))
            ops.append("c %d" % j)
            obs.append(("M", snapshot(objs[-1], cols, tcs), dict(case, points=[list(r) for r in P], tris=[list(t) for t in T], family="mask")))
            trace.append(("copy", j))
            j = len(objs) - 1
            cur = objs[j]
        by_tri = rng.random() < 0.3
        if by_tri:
            m = [rng.random() < 0.7 for _ in T]
            if not any(m):
                m[rng.randrange(len(T))] = True
            sel = {v for t, b in zip(T, m) if b for v in t}
            vmask = [v in sel for v in range(n)]
        else:
            m = [rng.random() < 0.85 for _ in range(n)]
            for v in rng.choice(T):
                m[v] = True
            vmask = m
        kept = [t for t in T if all(vmask[v] for v in t)]
        trace.append(("from_tri_mask" if by_tri else "from_mask", j, [int(b) for b in m]))
        srp = dict(rp, trace=list(trace), step=step)
        try:
            arr = np.array(m, dtype=bool)
            res = cur.from_tri_mask(arr) if by_tri else cur.from_mask(arr)
        except Exception as e:   # noqa: BLE001
            ctx.fail(site, "raises:" + type(e).__name__, "step %d: masking a mesh with a mask keeping %d whole triangle(s) "
                     "raised %s after the history %r" % (step, len(kept), type(e).__name__, trace[-8:]), srp)
            return True
        rt = [tuple(int(v) for v in t) for t in res.trilist]
        rpnts = [tuple(r) for r in res.points.tolist()]
        ok = ctx.check(len(rt) == len(kept) and all(0 <= v < len(rpnts) for t in rt for v in t) and
                       Counter(tuple(P[v] for v in t) for t in kept) == Counter(tuple(rpnts[v] for v in t) for t in rt),
                       site, "triangle-coordinates", "step %d: the triangles of the masked object are not the whole triangles of "
                       "the object it was masked from (history %r)" % (step, trace[-8:]), srp)
        if not ok:
            return True
        fresh = TriMesh(res.points.copy(), trilist=res.trilist.copy())
        for q in GEOM_QUERIES:
            try:
                a, ea = np.asarray(query(res, q)), None
            except Exception as e:   # noqa: BLE001
                a, ea = None, type(e).__name__
            try:
                b, eb = np.asarray(query(fresh, q)), None
            except Exception as e:   # noqa: BLE001
                b, eb = None, type(e).__name__
            same = (ea == eb) if (a is None or b is None) else (
                a.shape == b.shape and bool(np.allclose(a, b, rtol=1e-9, atol=1e-12, equal_nan=True)))
            ctx.check(same, site, "stale-geometry:" + q, "step %d: %s() of the object differs from the same query on a mesh freshly "
                      "built from its points and triangles (history %r)" % (step, q, trace[-8:]), srp)
        objs.append(res)
        frozen.append((res.points.copy(), res.trilist.copy()))
        ops.append("%s %d %d %s" % ("t" if by_tri else "m", j, len(m), " ".join("1" if b else "0" for b in m)))
        obs.append(("M", snapshot(res, cols, tcs), dict(case, points=[list(r) for r in P], tris=[list(t) for t in T], mask=m,
                                                       by="tri" if by_tri else "vertex", family="mask")))
        # no call changes an object that exists
        for k_, (fp, ft) in enumerate(frozen):
            if not (np.array_equal(objs[k_].points, fp) and np.array_equal(objs[k_].trilist, ft)):
                ctx.mismatch("history/receiver-mutated", "step %d: object %d changed although it was only queried, masked or "
                             "copied (history %r)" % (step, k_, trace[-8:]), srp)
        ctx.count("history:step-%d" % step)
    if objs and not observe(len(objs) - 1, "e"):
        return True
    observe(len(objs) - 1, "b")
    ctx.count("history:%s" % case["cls"])
    ctx.count("history:objects-%d" % min(len(objs), 6))
    if lines is not None and ops:
        def mat(rows):
            return common.fmat(rows) if rows else "0 0"
        T0 = case["tris"]
        lines.append("%s hist %s %s %s %d %s %d %s" % (
            cid, mat(case["points"]), mat(case["attrs"].get("colours", [])), mat(case["attrs"].get("tcoords", [])),
            len(T0), " ".join(str(v) for t in T0 for v in t), len(ops), " ".join(ops)))
        pending[cid] = (dict(case, family="history"), obs)
    return True


def compare_history(ctx, case, obs, rep):
    rp = dict(slim(case), hseed=case.get("hseed"), steps=case.get("steps"))
    parts = [x.strip() for x in rep.split(" ; ")]
    if len(parts) != len(obs):
        ctx.mismatch("history", "model answered %d observations for %d calls: %r" % (len(parts), len(obs), rep[:120]), rp)
        return
    for k, (o, part) in enumerate(zip(obs, parts)):
        tk = part.split()
        if o[0] == "e":
            me = [(int(tk[2 + 2 * j]), int(tk[3 + 2 * j])) for j in range(int(tk[1]))] if tk[0] == "E" else None
            if me != o[1]:
                ctx.mismatch("history/edge_indices", "call %d: model %r vs implementation %r" % (k, str(me)[:100], str(o[1])[:100]), rp)
                return
        elif o[0] == "b":
            mb = [x == "1" for x in tk[1:]] if tk[0] == "B" else None
            if mb != o[1]:
                ctx.mismatch("history/boundary_tri_index", "call %d: model %r vs implementation %r" % (k, mb, o[1]), rp)
                return
        else:
            if tk[0] != "M":
                ctx.mismatch("history/new-object", "call %d: model %r, the implementation made an object" % (k, part[:80]), rp)
                return
            n_before = len(ctx.mismatches)
            compare_mask(ctx, o[2] if "mask" in o[2] else dict(o[2], mask=[], by="vertex"), o[1], part[2:])
            if len(ctx.mismatches) > n_before:
                return


# ================================================================================ family: bound

def bound_spec(T):
    cnt = Counter(frozenset((t[i], t[j])) for t in T for (i, j) in ((0, 1), (1, 2), (2, 0)))
    flags = [any(cnt[frozenset((t[i], t[j]))] == 1 for (i, j) in ((0, 1), (1, 2), (2, 0))) for t in T]
    return cnt, flags


def bound_case(ctx, case, lines=None, pending=None, cid=None):
    case["family"] = "bound"
    rp = dict(slim(case), call=replay_code(case))
    mesh = build(case)
    T = case["tris"]
    cnt, flags = bound_spec(T)
    odd = [e for e, c in cnt.items() if c % 2 == 1]
    site = "C17/boundary_tri_index"
    try:
        got = [bool(x) for x in mesh.boundary_tri_index()]
        err = None
    except Exception as e:   # noqa: BLE001
        got, err = None, type(e).__name__
    if err is not None:
        pattern = "raises-when-no-edge-has-odd-multiplicity" if (err == "IndexError" and not odd) else "raises:" + err
        ctx.fail(site, pattern, "boundary_tri_index raised %s on a mesh with %d triangles (%s); every edge is shared, "
                 "so the answer is the all-false index" % (err, len(T), case["shape"]), rp)
    elif got != flags:
        wrong = [k for k in range(len(T)) if got[k] != flags[k]]
        owns3 = all(any(cnt[frozenset((T[k][i], T[k][j]))] % 2 == 1 and cnt[frozenset((T[k][i], T[k][j]))] >= 3
                        for (i, j) in ((0, 1), (1, 2), (2, 0))) for k in wrong)
        pattern = "edge-parity-instead-of-multiplicity-one" if (owns3 and all(got[k] for k in wrong)) else "wrong-index"
        ctx.fail(site, pattern, "boundary_tri_index flags %r, the triangles owning an unshared edge are %r"
                 % ([int(x) for x in got], [int(x) for x in flags]), rp)
    # unique edges
    site2 = "C17/unique_edge_indices"
    ue = None
    try:
        ue = [tuple(int(x) for x in r) for r in mesh.unique_edge_indices()]
    except Exception as e:   # noqa: BLE001
        ctx.fail(site2, "raises:" + type(e).__name__, "unique_edge_indices raised", rp)
    if ue is not None:
        ctx.check(len(set(frozenset(e) for e in ue)) == len(ue), site2, "edge-listed-twice", "an undirected edge is listed twice", rp)
        ctx.check(set(frozenset(e) for e in ue) == set(cnt), site2, "edge-set",
                  "unique_edge_indices is not the set of undirected triangle sides", rp)
    # theorem edge_sum_by_multiplicity on the real queries: the edge_lengths slots are the unique edges counted with
    # their multiplicity; uniform multiplicity => both means coincide (mean_edge_uniform_multiplicity)
    sums = None
    if ue is not None:
        try:
            el = [float(x) for x in mesh.edge_lengths()]
            ul = [float(x) for x in mesh.unique_edge_lengths()]
            weighted = sum(cnt[frozenset(e)] * l for e, l in zip(ue, ul))
            sums = dict(all=sum(el), weighted=weighted, n_slots=len(el), n_unique=len(ul),
                        mean_u=float(mesh.mean_edge_length()), mean_a=float(mesh.mean_edge_length(unique=False)),
                        uniform=len(set(cnt.values())) == 1)
        except Exception as e:   # noqa: BLE001
            sums = dict(error=type(e).__name__)
    ctx.count("bound:" + ("closed/no-odd-edge" if not odd else "max-mult-%d" % min(max(cnt.values()), 4)))
    ctx.count("bound-storage:trilist-%s" % case.get("trilist_dtype", "int64"))
    ctx.count("bound-shape:" + case["shape"].split(":")[0])
    if lines is not None:
        tl = "%d %s" % (len(T), " ".join(str(v) for t in T for v in t))
        lines.append("%s.0 bound %d %s" % (cid, len(case["points"]), tl))
        lines.append("%s.1 uedges %s" % (cid, tl))
        pending[cid] = (case, dict(got=got, err=err, ue=ue, sums=sums))
    return len(T) >= 2


def compare_bound(ctx, case, obs, model, cid):
    rp = dict(slim(case), call=replay_code(case))
    rep = model[cid + ".0"]
    coded, count, spec = [x.strip() for x in rep.split(";")]
    count_bits = [x == "1" for x in count.split()[1:]]
    if obs["got"] is None:
        impl = "err"
    else:
        impl = obs["got"]
    if impl != count_bits:
        orig = coded.split()[1:]
        same_as_original = (orig[:2] == ["err", "index"] and impl == "err" and obs["err"] == "IndexError") or \
                           (orig[0] == "ok" and impl != "err" and [x == "1" for x in orig[1:]] == impl)
        ctx.mismatch("boundary_tri_index", "implementation %r vs model of the repaired code %r (%s the model of the original "
                     "toggle loop)" % (impl, count_bits, "matches" if same_as_original else "does not match either"), rp)
    if obs["ue"] is not None:
        tk = model[cid + ".1"].split()
        k = int(tk[1])
        me = {(int(tk[2 + 2 * j]), int(tk[3 + 2 * j])) for j in range(k)}
        if me != {tuple(sorted(e)) for e in obs["ue"]} or k != len(obs["ue"]):
            ctx.mismatch("unique_edge_indices", "model %r vs implementation %r" % (sorted(me)[:8], sorted(obs["ue"])[:8]), rp)
    sm = obs.get("sums")
    if sm is not None:
        if "error" in sm:
            ctx.mismatch("edge_lengths", "edge_lengths / unique_edge_lengths / mean_edge_length raised %s" % sm["error"], rp)
        else:
            sc = 1.0 + abs(sm["all"])
            if sm["n_slots"] != 3 * len(case["tris"]) or not common.close(sm["all"], sm["weighted"], sc, TOL):
                ctx.mismatch("edge_sum_by_multiplicity", "sum of edge_lengths %r over %d slots, multiplicity-weighted sum of "
                             "unique_edge_lengths %r" % (sm["all"], sm["n_slots"], sm["weighted"]), rp)
            if sm["uniform"] and not common.close(sm["mean_u"], sm["mean_a"], sc, TOL):
                ctx.mismatch("mean_edge_length", "all edges have the same multiplicity but mean_edge_length(unique=True) = %r, "
                             "(unique=False) = %r" % (sm["mean_u"], sm["mean_a"]), rp)


# ================================================================================ regenerated write table

MUTATORS = ("from_vector_inplace",)       # declared in-place mutators: not queries


def _live_meshes():
    """live objects of the three classes, 2-D and 3-D, with and without an instantiated landmark manager,
    float64 / float32 points, several trilist dtypes"""
    import numpy as np
    from menpo.shape import TriMesh, ColouredTriMesh, TexturedTriMesh, PointCloud
    from menpo.image import Image
    p3 = np.array([[0, 0, 0], [1, 0, 0.5], [0, 1, 0.25], [1, 1, 1], [2, 2, 2.0], [3, 1, 0]])
    p2 = p3[:, :2].copy()
    tl = np.array([[0, 1, 2], [1, 3, 2], [3, 4, 5]])
    out = []
    for pts, tdt, lm in ((p3, "int64", True), (p2, "uint32", True), (p3.astype("float32"), "int32", False), (p2, "int64", False)):
        t = tl.astype(tdt)
        r = np.random.RandomState(7)
        ms = [TriMesh(pts, trilist=t), ColouredTriMesh(pts, trilist=t, colours=r.rand(6, 3)),
              TexturedTriMesh(pts, r.rand(6, 2), Image(r.rand(3, 4, 5)), trilist=t)]
        for m in ms:
            if lm:
                m.landmarks["a"] = PointCloud(pts[:2].copy())
        out.append(ms)
    return out


def _query_actions(mesh, name):
    """the calls that stand for the public query `name` (None: not a query)"""
    import inspect
    import numpy as np
    cls = type(mesh)
    attr = inspect.getattr_static(cls, name)
    if isinstance(attr, property):
        return [lambda: getattr(mesh, name)]
    if isinstance(attr, (classmethod, staticmethod)) or not callable(attr) or name in MUTATORS:
        return None
    n, nt = mesh.n_points, mesh.n_tris
    special = {
        "from_mask": [lambda: mesh.from_mask(np.arange(n) != n - 1), lambda: mesh.from_mask(np.ones(n, dtype=bool))],
        "from_tri_mask": [lambda: mesh.from_tri_mask(np.arange(nt) != 0)],
        "from_vector": [lambda: mesh.from_vector(mesh.as_vector() * 2.0)],
        "distance_to": [lambda: mesh.distance_to(mesh)],
        "with_dims": [lambda: mesh.with_dims([0, 1])],
        "constrain_to_bounds": [lambda: mesh.constrain_to_bounds(mesh.bounds())],
        "rescale_texture": [lambda: mesh.rescale_texture(0.0, 1.0)],
        "mean_edge_length": [lambda: mesh.mean_edge_length(), lambda: mesh.mean_edge_length(unique=False)],
        "as_pointgraph": [lambda: mesh.as_pointgraph(), lambda: mesh.as_pointgraph(copy=False, skip_checks=True)],
    }
    if name in special:
        return special[name]
    sig = inspect.signature(attr)
    req = [p for p in list(sig.parameters.values())[1:]
           if p.default is inspect.Parameter.empty and p.kind in (p.POSITIONAL_ONLY, p.POSITIONAL_OR_KEYWORD)]
    if req:
        return []          # a public method the harness does not know how to call: listed with no measurement
    return [lambda: getattr(mesh, name)(), lambda: getattr(mesh, name)()]


def write_table():
    """[(class, query, attributes written)] measured on live meshes: every public non-viewer attribute of the three
    classes, each on freshly built objects (so a lazily created attribute shows), called twice"""
    rows = {}
    order = ["TriMesh", "ColouredTriMesh", "TexturedTriMesh"]
    probe = _live_meshes()[0]
    names = {type(m).__name__: [q for q in sorted(dir(type(m))) if not q.startswith("_") and not q.startswith("view")]
             for m in probe}
    for cname in order:
        for q in names[cname]:
            w, is_query = set(), False
            for ms in _live_meshes():
                m = [x for x in ms if type(x).__name__ == cname][0]
                acts = _query_actions(m, q)
                if acts is None:
                    continue
                is_query = True
                for a in acts:
                    w.update(common.attr_writes(m, a))
            if is_query:
                rows[(cname, q)] = sorted(w)
    return [(c, q, rows[(c, q)]) for c in order for q in names[c] if (c, q) in rows]

SUPPLIED = ("_isolated_mask", "as_pointgraph", "boundary_tri_index", "copy", "edge_indices", "edge_lengths", "edge_vectors",
            "from_mask", "from_tri_mask", "mean_edge_length", "mean_tri_area", "tri_areas", "tri_normals",
            "unique_edge_indices", "unique_edge_lengths", "unique_edge_vectors", "vertex_normals")


def mechanism_tables():
    """(suppliers, mechanism): which class of the MRO defines each modelled method for the three mesh classes, and the
    names referenced by the body of every function the model transcribes branch for branch (code object co_names)"""
    from menpo.shape import TriMesh, ColouredTriMesh, TexturedTriMesh
    import menpo.shape.mesh.base as B

    def names(f):
        f = getattr(f, "__func__", f)
        return sorted(set(x for x in f.__code__.co_names if x))
    sup = []
    for cls in (TriMesh, ColouredTriMesh, TexturedTriMesh):
        sup.append((cls.__name__, [(m, next((k.__name__ for k in cls.__mro__ if m in vars(k)), "?")) for m in SUPPLIED]))
    # only the bodies that are still transcribed by hand: everything else is translated from the source text on every
    # run (harness/trans_c17.py) and proved equal to the model, which supersedes a fingerprint of referenced names
    mech = []
    f = vars(TriMesh).get("as_pointgraph")
    mech.append(("TriMesh.as_pointgraph", names(f) if f is not None else ["<missing>"]))
    f = getattr(B, "subsampled_grid_triangulation", None)
    mech.append(("subsampled_grid_triangulation", names(f) if f is not None else ["<missing>"]))
    return sup, mech


def lean_strs(xs):
    return "[" + ", ".join('"%s"' % x for x in xs) + "]"


def lean_tables(sup, mech):
    s1 = ",\n   ".join('("%s", [%s])' % (c, ", ".join('("%s", "%s")' % p for p in ms)) for c, ms in sup)
    s2 = ",\n   ".join('("%s", %s)' % (n, lean_strs(xs)) for n, xs in mech)
    return s1, s2


def generated(ctx):
    rows = write_table()
    sup, mech = mechanism_tables()
    s1, s2 = lean_tables(sup, mech)
    body = ",\n   ".join('("%s", "%s", %s)' % (c, q, lean_strs(w)) for c, q, w in rows)
    text = ("/- REGENERATED by harness/c17.py from the live menpo mesh classes on every run.  Do not edit.\n"
            "   queryWrites: for every public query of TriMesh / ColouredTriMesh / TexturedTriMesh, the instance attributes it\n"
            "   rebinds, adds, removes or modifies in place (measured on live objects);\n"
            "   suppliers: the class of the MRO defining each modelled method; mechanism: the names referred to by the body of\n"
            "   every function the model transcribes. -/\n"
            "import MenpoModel.Core.C17Mesh\n\nnamespace MenpoModel.Generated.C17\nopen MenpoModel.C17\n\n"
            "def queryWrites : WriteTable :=\n  [%s]\n\ndef suppliers : SupplierTable :=\n  [%s]\n\n"
            "def mechanism : NameTable :=\n  [%s]\n\nend MenpoModel.Generated.C17\n" % (body, s1, s2))
    ctx.notes["query_write_table"] = {"rows": len(rows), "writing": {"%s.%s" % (c, q): w for c, q, w in rows if w}}
    ctx.notes["mechanism_table"] = {"functions": len(mech), "classes": len(sup)}
    ok = common.build_generated(ctx, {"MenpoModel/Generated/C17Writes.lean": text},
                                ["MenpoModel.Generated.C17Writes", "MenpoModel.GenProps.C17"], len(GEN_THEOREMS))
    if not ok and ctx.broken_obligations:
        b = ctx.broken_obligations[-1]
        b["obligation"] = "MenpoModel.GenProps.C17: " + ", ".join(t.split(".")[-1] for t in GEN_THEOREMS)
        b["observed_attribute_writes_of_queries"] = {"%s.%s" % (c, q): w for c, q, w in rows if w}
        b["expected_writes"] = ("every public query of the three classes listed in Core/C17Mesh.lean, writing nothing except "
                                "as_pointgraph/landmarks/n_landmark_groups/tojson lazily creating _landmarks")
        b["observed_suppliers_not_TriMesh"] = {c: [p_ for p_ in ms if p_[1] != "TriMesh"] for c, ms in sup}
        b["observed_mechanism"] = dict(mech)
    return ok


# ================================================================================ shrinking

def shrink_tris(case, still_fails):
    """greedy: drop triangles while the failure persists (vertices are left alone)"""
    cur = dict(case)
    changed = True
    while changed and len(cur["tris"]) > 1:
        changed = False
        for i in range(len(cur["tris"])):
            cand = dict(cur, tris=cur["tris"][:i] + cur["tris"][i + 1:])
            if "mask" in cand and cand.get("by") == "tri":
                cand["mask"] = cur["mask"][:i] + cur["mask"][i + 1:]
            try:
                if still_fails(cand):
                    cur, changed = cand, True
                    break
            except Exception:   # noqa: BLE001
                pass
    return cur


def run_family(ctx, fam, case, lines=None, pending=None, cid=None):
    f = {"mask": mask_case, "geom": geom_case, "bound": bound_case, "scale": scale_case, "history": history_case,
         "sliver": sliver_case, "intpts": intpts_case}[fam]
    n_before = len(ctx.failures)
    known_before = dict(ctx.known_seen)
    nt = f(ctx, case, lines, pending, cid)
    if len(ctx.failures) > n_before and fam in ("mask", "bound") and len(case["tris"]) > 1:
        site, pattern = ctx.failures[n_before][0], ctx.failures[n_before][1]

        def still(c):
            probe = common.Ctx(PROP, ctx.tier, ctx.seed)
            probe.known = []
            f(probe, dict(c))
            return any(x[0] == site and x[1] == pattern for x in probe.failures)
        small = shrink_tris(case, still)
        if len(small["tris"]) < len(case["tris"]):
            s_, p_, text, rp = ctx.failures[n_before]
            small["family"] = fam
            rp = dict(rp, minimised=dict(slim(small), call=replay_code(small)))
            ctx.failures[n_before] = (s_, p_, text, rp)
    del known_before
    return nt


# ================================================================================ entry points

def _retry(gen):
    def g(rng):
        for _ in range(50):
            try:
                return gen(rng)
            except common.Infra:
                raise
            except Exception:   # noqa: BLE001 - e.g. Qhull refusing a degenerate point set: draw again
                continue
        raise common.Infra("generator %s failed 50 times in a row" % gen.__name__)
    return g


GEN = {"mask": _retry(gen_mask_case), "geom": _retry(gen_geom_case), "bound": _retry(gen_bound_case),
       "scale": _retry(gen_scale_case), "history": _retry(gen_history_case), "sliver": _retry(gen_sliver_case),
       "intpts": _retry(gen_intpts_case)}


def large_index_cases(ctx, n_cases):
    """many vertices under a narrow integer triangle list (oracle only): an index product computed in the triangle
    list's own dtype wraps around (seeded C17-4: edge key lo * n_points + hi in uint32 / int32).  Small editions of
    the same situation: ~200 vertices under uint8, ~300 under int16."""
    import numpy as np
    from menpo.shape import TriMesh
    rng = ctx.rng
    site = "C17/large-index"
    plans = [("uint8", 200, 255), ("int16", 250, 400), ("uint16", 300, 700), ("int32", 46500, 52000), ("uint32", 65600, 72000)]
    for c in range(n_cases):
        dt, lo, hi = plans[c % len(plans)]
        n = rng.randint(lo, hi)
        nt = rng.randint(40, 400)
        # triangles among the high indices (where products are largest) plus a few anywhere
        top = max(3, min(n, 600))
        tris = set()
        while len(tris) < nt:
            base = n - top if rng.random() < 0.8 else 0
            t = tuple(base + v for v in rng.sample(range(top if base else n), 3))
            tris.add(t)
        tl = np.array(sorted(tris), dtype=dt)
        pts = np.zeros((n, 2))
        pts[:, 0] = np.arange(n) % 257
        pts[:, 1] = np.arange(n) // 257 + (np.arange(n) % 7) / 8.0
        rp = {"family": "large-index", "n_points": n, "trilist_dtype": dt, "n_tris": int(len(tl)), "trilist_head": tl[:5].tolist()}
        ctx.case(("large-index", dt, n, tl.tobytes()), nontrivial=True, sample=rp if c == 0 else None)
        ctx.count("large-index:" + dt)
        try:
            mesh = TriMesh(pts, trilist=tl)
            t64 = tl.astype(np.int64)
            sides = np.vstack([t64[:, [0, 1]], t64[:, [1, 2]], t64[:, [2, 0]]])
            und = np.sort(sides, axis=1)
            key = und[:, 0] * (n + 1) + und[:, 1]
            uk, cnt = np.unique(key, return_counts=True)
            want = {(int(k // (n + 1)), int(k % (n + 1))) for k in uk}
            got = [tuple(sorted((int(a), int(b)))) for a, b in mesh.unique_edge_indices()]
            ctx.check(len(got) == len(set(got)) and set(got) == want, site, "unique-edges",
                      "unique_edge_indices lists %d edges (%d distinct); the mesh has %d undirected edges" % (
                          len(got), len(set(got)), len(want)), rp)
            mult = dict(zip(uk.tolist(), cnt.tolist()))
            tri_keys = key.reshape(3, -1).T
            bwant = [any(mult[int(k)] == 1 for k in row) for row in tri_keys]
            bgot = [bool(x) for x in mesh.boundary_tri_index()]
            ctx.check(bgot == bwant, site, "boundary", "boundary_tri_index differs from 'has a side used by one triangle only'", rp)
            # masking away the low vertices keeps the (renumbered) high triangles whole
            keep = np.zeros(n, dtype=bool)
            keep[n - top:] = True
            sub = mesh.from_mask(keep)
            ok_t = t64[(t64 >= n - top).all(axis=1)]
            # vertices left without a triangle are dropped too, so compare through the coordinates (unique per vertex)
            want_c = sorted(tuple(map(tuple, pts[t].tolist())) for t in ok_t)
            got_c = sorted(tuple(map(tuple, sub.points[np.asarray(t).astype(np.int64)].tolist())) for t in sub.trilist)
            ctx.check(got_c == want_c, site, "mask-renumbering",
                      "from_mask of the top %d vertices does not keep exactly the triangles among them (as coordinate triples)" % top, rp)
        except Exception as e:     # noqa: BLE001 - an exception out of menpo is an oracle failure
            ctx.fail(site, "raises:" + type(e).__name__, "%s: %s" % (type(e).__name__, e), rp)


def search(ctx):
    """directed search after a broken tie: many more cases of every family through the oracle only,
    starting with the neighbours (same mesh, other masks) of the mismatching cases"""
    rng = ctx.rng
    for op, text, rp in list(ctx.mismatches)[:5]:
        fam = rp.get("family")
        if fam == "mask":
            n = len(rp["points"]) if rp["by"] == "vertex" else len(rp["tris"])
            for _ in range(200):
                c = {k: v for k, v in rp.items() if k != "call"}
                c["mask"] = [rng.random() < 0.7 for _ in range(n)]
                run_family(ctx, "mask", c)
                ctx.searched += 1
                if ctx.failures:
                    return True
    for fam in getattr(ctx, "_c17_search_first", []):      # the families behind a broken translation obligation first
        for k in range(1500 if fam in ("mask", "bound") else 300):
            run_family(ctx, fam, GEN[fam](rng))
            ctx.searched += 1
            if ctx.failures:
                return True
    large_index_cases(ctx, 40)
    if ctx.failures:
        return True
    for k in range(300):                       # thin / nearly degenerate triangles first: cancellation shows there
        run_family(ctx, "sliver", GEN["sliver"](rng))
        ctx.searched += 1
        if ctx.failures:
            return True
    for k in range(ctx.n(4000, 12000)):
        fam = ("mask", "geom", "bound", "history", "mask", "geom", "bound", "scale", "sliver", "intpts")[k % 10]
        run_family(ctx, fam, GEN[fam](rng))
        ctx.searched += 1
        if ctx.failures:
            return True
    return False


def corpus(ctx, lines, pending):
    """fixed regression cases: menpo's own test meshes, closed meshes, the minimal non-manifold witnesses"""
    k = 0
    pts3 = lambda n: [[float(i), float((i * i) % 5), float((3 * i) % 4) / 2] for i in range(n)]   # noqa: E731
    for name, (n, tris) in sorted(CLOSED.items()):
        c = dict(shape="closed:" + name, d=3, cls="plain", attrs={}, points=pts3(n), tris=[list(t) for t in tris])
        run_family(ctx, "bound", c, lines, pending, "cb%d" % k)
        ctx.case(("corpus-bound", name), nontrivial=True)
        k += 1
    test_mesh = [[0, 2, 3], [2, 0, 1], [4, 0, 3], [0, 5, 1], [4, 5, 0], [5, 4, 6]]
    c = dict(shape="arbitrary", d=3, cls="plain", attrs={}, points=pts3(7), tris=test_mesh)
    run_family(ctx, "bound", c, lines, pending, "cb%d" % k)
    ctx.case(("corpus-bound", "menpo-test"), nontrivial=True)
    c = dict(shape="arbitrary", d=3, cls="coloured", attrs={"colours": [[i / 8.0, 0.5, 1.0] for i in range(7)]},
             points=pts3(7), tris=[[0, 1, 2], [1, 3, 2], [4, 5, 6]], by="vertex",
             mask=[True, False, True, True, True, True, True])
    run_family(ctx, "mask", c, lines, pending, "cm0")
    ctx.case(("corpus-mask", 0), nontrivial=True)
    # the triangle list of init_2d_grid against the model of subsampled_grid_triangulation
    from menpo.shape import TriMesh
    for (r, c) in ((2, 2), (2, 3), (3, 2), (3, 4), (4, 4), (5, 3), (2, 7), (6, 2)):
        got = [[int(v) for v in t] for t in TriMesh.init_2d_grid((r, c)).trilist]
        lines.append("cg%dx%d grid %d %d" % (r, c, r, c))
        pending["cg%dx%d" % (r, c)] = (dict(family="grid", grid=[r, c], shape="grid", points=[], tris=got), got)
        ctx.case(("corpus-grid", r, c), nontrivial=True)
    # minimised past failures (replays/corpus/C17-*.json) are re-run first on every check
    import glob
    import os
    for j, path in enumerate(sorted(glob.glob(os.path.join(common.ROOT, "replays", "corpus", "C17-*.json")))):
        try:
            rp = json.load(open(path)).get("replay") or {}
        except (OSError, ValueError):
            continue
        for tag, cs in (("f", rp), ("m", rp.get("minimised") or {})):
            if cs.get("family") in GEN:
                cs = {k_: v for k_, v in cs.items() if k_ not in ("call", "minimised")}
                run_family(ctx, cs["family"], cs, lines, pending, "cr%d%s" % (j, tag))
                ctx.case(("corpus-file", os.path.basename(path), tag), nontrivial=True)


def generated_src(ctx):
    """the SOURCE-TEXT tie: menpo's mesh code translated into Lean now (harness/trans_c17.py), obligations
    GenProps/C17Src*.lean (translated = Core definition, for all arguments).  An untranslatable function gets a stub, so
    its obligation breaks: BROKEN OBLIGATION -> directed search, never a crash."""
    from . import trans_c17
    files, reasons = trans_c17.generated_files()
    ctx.notes["source_translation"] = {"functions": len(trans_c17.items()), "obligations": trans_c17.N_OBLIGATIONS,
                                       "untranslatable": reasons}
    ok = common.build_generated(ctx, files, trans_c17.GEN_TARGETS, trans_c17.N_OBLIGATIONS)
    if not ok and ctx.broken_obligations:
        b = ctx.broken_obligations[-1]
        b["obligation"] = "MenpoModel.GenProps.C17Src / C17SrcGeom / C17SrcHeap: translated definition = Core definition"
        b["untranslatable"] = reasons
        failing = sorted({tok for l in b.get("errors", []) for tok in l.replace(":", " ").replace(".lean", " ").split()
                          if tok.startswith("gen") or tok.startswith("C17Src")})
        b["where"] = failing[:12]
        text = " ".join(b.get("errors", [])) + " " + " ".join(reasons) + " " + b.get("output_tail", "")
        fams = []
        for key, fam in trans_c17.FAMILY_OF:
            if key in text and fam not in fams:
                fams.append(fam)
        ctx._c17_search_first = fams
    return ok


def prepare(ctx):
    """regenerate the tables and the source translation, build, audit.  A broken regenerated obligation is what /repo
    says now: it is recorded (ctx.broken_obligations -> directed search -> VIOLATION), the hand-written part is still
    built and audited."""
    from . import trans_c17
    ok_tables = generated(ctx)
    ok_src = generated_src(ctx)
    imports = IMPORTS + (GEN_IMPORTS if ok_tables else []) + (trans_c17.OBL_MODULES if ok_src else [])
    theorems = THEOREMS + (GEN_THEOREMS if ok_tables else []) + ((trans_c17.OBLIGATIONS + trans_c17.SRC_THEOREMS) if ok_src else [])
    targets = TARGETS + (["MenpoModel.GenProps.C17"] if ok_tables else []) + (trans_c17.OBL_MODULES if ok_src else [])
    common.prepare_lean(ctx, PROP, imports, theorems, targets=targets)
    # the regenerated obligations are counted once (coverage.generated_obligations); their audit is kept in the notes
    ctx.notes["generated_obligation_axioms"] = {t: ctx.theorems.pop(t) for t in GEN_THEOREMS + trans_c17.OBLIGATIONS
                                                if t in ctx.theorems}


def run(ctx):
    prepare(ctx)
    ctx.trusted += ["np.sqrt: the implementation's roots are compared in floating point (1e-9 relative) with the roots of the "
                    "exact rational squares on every generated case; the Lean contract r >= 0, r*r = x is EXACT equality and is "
                    "satisfiable only where the square is a rational square (INFO partial)",
                    "numpy indexing / isin / unique / add.at semantics (modelled in Core/C17Mesh.lean, exercised by the correspondence)"]
    rng = ctx.rng
    lines, pending = [], {}
    corpus(ctx, lines, pending)
    plan = [("scale", ctx.n(40, 300)), ("sliver", ctx.n(120, 1500)), ("intpts", ctx.n(100, 1000)), ("history", ctx.n(250, 2500)), ("mask", ctx.n(2000, 22000)),
            ("geom", ctx.n(1000, 8000)), ("bound", ctx.n(1500, 12000))]
    for fam, cnt in plan:
        for k in range(cnt):
            case = GEN[fam](rng)
            cid = "%s%d" % ({"scale": "z", "history": "h", "sliver": "v", "intpts": "i"}.get(fam, fam[0]), k)
            nt = run_family(ctx, fam, case, lines, pending, cid)
            sample = {"family": fam, "class": case.get("cls"), "shape": case["shape"], "n_points": len(case["points"]),
                      "trilist": case["tris"][:6], "mask": case.get("mask"), "motion": (case.get("motion") or {}).get("kind")}
            if fam == "scale":     # one evaluation per (mesh, scale, dtype)
                for j, e in enumerate(case["exps"]):
                    for dt in SCALE_DTYPES:
                        ctx.case((fam, case.get("cls"), repr(case["points"]), repr(case["tris"]), e, dt), nontrivial=True,
                                 sample=dict(sample, points=case["points"], scale="2^%d" % e, dtype=dt)
                                 if (k == 0 and j == 0 and dt == "float32") else None)
                continue
            sig = (fam, case.get("cls"), repr(case["points"]), repr(case["tris"]), repr(case.get("mask")), repr(case.get("motion")),
                   case.get("hseed"))
            if fam == "history":
                sample = dict(sample, steps=case["steps"], mask=None)
            ctx.case(sig, nontrivial=bool(nt), sample=sample if k < {"mask": 2}.get(fam, 1) else None)
    large_index_cases(ctx, ctx.n(10, 120))
    model = common.run_driver(PROP, lines)
    for cid, (case, obs) in pending.items():
        fam = case["family"]
        if fam == "mask":
            compare_mask(ctx, case, obs, model[cid])
        elif fam == "geom":
            compare_geom(ctx, case, obs, model, cid)
        elif fam == "scale":
            compare_scale(ctx, case, obs, model, cid)
        elif fam == "history":
            compare_history(ctx, case, obs, model[cid])
        elif fam == "sliver":
            compare_sliver(ctx, case, obs, model, cid)
        elif fam == "grid":
            tk = model[cid].split()
            mt = [[int(x) for x in tk[2 + 3 * j:5 + 3 * j]] for j in range(int(tk[1]))] if tk[0] == "ok" else None
            if mt != obs:
                ctx.mismatch("init_2d_grid", "grid %r: model triangulation %r vs TriMesh.init_2d_grid(...).trilist %r"
                             % (case["grid"], str(mt)[:120], str(obs)[:120]), dict(family="grid", grid=case["grid"]))
        else:
            compare_bound(ctx, case, obs, model, cid)
    return ctx.finish(search)


def replay(ctx, path):
    data = json.load(open(path))
    rp = data.get("replay") or (data.get("broken_correspondence") or [{}])[0].get("case", {})
    fam = rp.get("family")
    if fam not in GEN:
        print("replay file carries no C17 case")
        return 2
    prepare(ctx)
    case = {k: v for k, v in rp.items() if k not in ("call", "minimised")}
    if fam == "scale" and "scale_exp" in case:
        case["exps"] = [case.pop("scale_exp")]
        case.pop("pdtype", None)
    lines, pending = [], {}
    run_family(ctx, fam, case, lines, pending, "r0")
    ctx.case(("replay", fam, repr(case.get("tris")), repr(case.get("mask"))))
    ctx.case(("replay2", fam, repr(case.get("points"))))
    print("replayed %s case: class=%s shape=%s n_points=%d trilist=%r mask=%r" % (
        fam, case.get("cls"), case.get("shape"), len(case["points"]), case["tris"], case.get("mask")))
    if lines:
        model = common.run_driver(PROP, lines)
        for cid, (c, obs) in pending.items():
            for k_ in sorted(model):
                if k_ == cid or k_.startswith(cid + "."):
                    print("model %s: %s" % (k_, model[k_][:300]))
            cf = c.get("family", fam)
            if cf == "mask":
                print("implementation:", str(obs)[:300])
                compare_mask(ctx, c, obs, model[cid])
            elif cf == "geom":
                compare_geom(ctx, c, obs, model, cid)
            elif cf == "scale":
                compare_scale(ctx, c, obs, model, cid)
            elif cf == "history":
                compare_history(ctx, c, obs, model[cid])
            elif cf == "sliver":
                compare_sliver(ctx, c, obs, model, cid)
            else:
                print("implementation:", obs)
                compare_bound(ctx, c, obs, model, cid)
    return ctx.finish(None)
