"""C13 — the crop / patch code of menpo TRANSLATED from the source text of the current working tree into Lean on
every run of `./check C13` (harness/py2lean2.py is the translator; this file holds (1) `T13`, a small generic
extension of `Translator2M`, and (2) the C13 vocabulary: which numpy expression of menpo/image/base.py,
menpo/image/patches.py, menpo/image/masked.py, menpo/image/boolean.py, menpo/shape/pointcloud.py stands for which
operation of `lean/MenpoModel/Core/C13Src.lean`).

The translation is written to `lean/MenpoModel/Generated/C13Src.lean`; `lean/MenpoModel/GenProps/C13Src.lean`
proves every translated definition equal, for ALL arguments, to the Core definition the C13 theorems are about
(`crop .repaired`, `extractSlice`, `extractSampling .repaired`, `setPatches .repaired`, `extractPatches`, the
wrappers of Core/C13Api.lean), and restates the property theorems about the translated definitions.

Generic additions of `T13` over `Translator2M` (nothing specific to menpo; a subclass, so py2lean2.py is untouched):

  tuple(<generator>) / list(<generator>) / bare generator argument   ->  the list comprehension
  comprehensions with several generators                             ->  nested List.flatMap
  for i, (a, b) in ...  /  (a, b), c = ...                           ->  nested tuple targets (projections)
  aliases: `x = y` between variables, the alias rules of the       ->  x and y denote the SAME object: an in-place
  vocabulary (`x = y[0]`), `x = A if c else B` with alias arms            statement on either rebinds both; the groups live
  (= `if c: x = A else: x = B`)                                           in the scope, so each arm of an `if` has its own
  `helper(args)` / `x = helper(args)` for a straight-line function   ->  inlined at the call site (parameters substituted,
  of the same menpo module without a rule                                 locals renamed): extracted guard helpers
  `[E for t in (a, b)]` over a display of variables / constants     ->  unrolled `[E[t:=a], E[t:=b]]`; `p, q = [x, y]` = `p, q = (x, y)`;
                                                                         `x = [e0, e1]` only read as `x[0]`, `x[1]` = two variables
  `a:b` in a subscript / `isinstance(x, (A, B))` / `a != b`          ->  `slice(a, b)` / `isinstance(x, A) or isinstance(x, B)`
                                                                         / `not a == b` when only `==` has a rule
  str constants                                                      ->  through `Rules13.strings` (e.g. "constant")
  true division `/`, floor division `//`, `%`                        ->  only through the rules' `binop`

Conventions of the vocabulary (details in Core/C13Src.lean):
  * an image is its pixel array `pix : NDArr α` (shape C :: spatial) and one landmark group `lms`;
  * index vectors (`min_indices`, ...) are `List Rat` before `np.floor` / `np.ceil` and `List Int` after;
  * a function that may raise returns `Except Err _`; numpy's in-place slice assignments inside loops carry the
    array as `Except Err (NDArr α)` (an error is absorbing: nothing else is observable after it);
  * `patch_shape` is a pair of naturals, patch centres / offsets are lists of rational pairs, an array-or-None
    argument is an `Option`;
  * `scipy.ndimage.map_coordinates` is the sampler parameter of the Core model.
"""
import ast
import os

from . import py2lean2 as P
from .py2lean2 import Untranslatable, match, _pat, _proj

GEN_REL = os.path.join("MenpoModel", "Generated", "C13Src.lean")
GEN_TARGETS = ["MenpoModel.Generated.C13Src", "MenpoModel.GenProps.C13Src"]


class Rules13(P.Rules2M):
    """Rules2M plus  alias: [(stmt pattern `$x = ...$y...`, "x", "y")]  and  strings: {python str constant: lean term}"""

    def __init__(self, alias=(), strings=None, iter_="{it}", inline_from=("menpo",), **kw):
        P.Rules2M.__init__(self, **kw)
        self.inline_from = tuple(inline_from)   # module prefixes whose functions may be inlined at their call sites
        self.alias = [(_pat(p, "stmt"), x, y) for p, x, y in alias]
        self.strings = dict(strings or {})
        if iter_ != "{it}":
            self.expr.insert(0, (_pat("__iter__($x)", "expr"), iter_.replace("{it}", "{x}"), ""))
        self.iter_ = iter_          # what iterating over a value means (`for x in <it>`, comprehensions)


ALIAS = "\0alias"      # scope key: tuple of frozensets of python names that denote the same object


class _SliceNorm(ast.NodeTransformer):
    """`a:b` inside a subscript  ->  `slice(a, b)`  (a python slice object is the same value either way)"""

    def visit_Slice(self, node):
        self.generic_visit(node)
        if node.lower is not None and node.upper is not None and node.step is None:
            return ast.copy_location(ast.Call(func=ast.Name(id="slice", ctx=ast.Load()),
                                              args=[node.lower, node.upper], keywords=[]), node)
        return node


def _pure_atom(n):
    return isinstance(n, (ast.Name, ast.Constant))


class _Unroll(ast.NodeTransformer):
    """`[E for t in (a, b)]` over a display of variables / constants  ->  `[E[t:=a], E[t:=b]]` (same evaluation order);
    for list comprehensions and generator arguments with one generator, a variable target and no condition"""

    def _try(self, node):
        import copy
        if len(node.generators) != 1:
            return None
        g = node.generators[0]
        if g.ifs or g.is_async or not isinstance(g.target, ast.Name) or not isinstance(g.iter, (ast.Tuple, ast.List)) \
                or not g.iter.elts or not all(_pure_atom(e) for e in g.iter.elts):
            return None
        return [_Subst({g.target.id: e}).visit(copy.deepcopy(node.elt)) for e in g.iter.elts]

    def visit_ListComp(self, node):
        self.generic_visit(node)
        elts = self._try(node)
        return node if elts is None else ast.copy_location(ast.List(elts=elts, ctx=ast.Load()), node)


class _IndexSplit(ast.NodeTransformer):
    """`x[i]` (constant i) -> the variable `x__i`"""

    def __init__(self, name, n):
        self.name, self.n = name, n

    def visit_Subscript(self, node):
        if (isinstance(node.value, ast.Name) and node.value.id == self.name and isinstance(node.slice, ast.Constant)
                and isinstance(node.slice.value, int) and 0 <= node.slice.value < self.n):
            return ast.copy_location(ast.Name(id="%s__%d" % (self.name, node.slice.value), ctx=node.ctx), node)
        self.generic_visit(node)
        return node


def _only_const_indexed(name, n, stmts):
    """every later use of `name` is `name[i]` with a constant 0 <= i < n, and it is never re-bound"""
    for st in stmts:
        parents = {}
        for par in ast.walk(st):
            for ch in ast.iter_child_nodes(par):
                parents[ch] = par
        for nd in ast.walk(st):
            if isinstance(nd, ast.Name) and nd.id == name:
                par = parents.get(nd)
                if not (isinstance(nd.ctx, ast.Load) and isinstance(par, ast.Subscript) and par.value is nd
                        and isinstance(par.slice, ast.Constant) and isinstance(par.slice.value, int)
                        and 0 <= par.slice.value < n and isinstance(par.ctx, ast.Load)):
                    return False
    return True


class _CallSubst(ast.NodeTransformer):
    """`f(args)` -> `<callee>(args)` for the variable f"""

    def __init__(self, name, callee):
        self.name, self.callee = name, callee

    def visit_Call(self, node):
        self.generic_visit(node)
        if isinstance(node.func, ast.Name) and node.func.id == self.name:
            import copy
            return ast.copy_location(ast.Call(func=copy.deepcopy(self.callee), args=node.args, keywords=node.keywords), node)
        return node


def _only_called(name, stmts):
    """every later use of `name` is as the callee of a call, and it is never re-bound"""
    for st in stmts:
        parents = {}
        for par in ast.walk(st):
            for ch in ast.iter_child_nodes(par):
                parents[ch] = par
        for nd in ast.walk(st):
            if isinstance(nd, ast.Name) and nd.id == name:
                par = parents.get(nd)
                if not (isinstance(nd.ctx, ast.Load) and isinstance(par, ast.Call) and par.func is nd):
                    return False
    return True


class _Subst(ast.NodeTransformer):
    """rename / substitute the names of an inlined helper"""

    def __init__(self, mapping):
        self.mapping = mapping

    def visit_Name(self, node):
        if node.id in self.mapping:
            new = self.mapping[node.id]
            if isinstance(new, str):
                return ast.copy_location(ast.Name(id=new, ctx=node.ctx), node)
            if isinstance(node.ctx, ast.Load):
                return new
        return node


class T13(P.Translator2M):
    """Normalisations (a behaviour-preserving rewrite of the Python gives the same, or a definitionally equal, text):
      * `a:b` in a subscript = `slice(a, b)`; `isinstance(x, (A, B))` = `isinstance(x, A) or isinstance(x, B)`;
        `a != b` = `not a == b` when only the `==` form has a rule;
      * `x = y` between variables, the alias rules of the vocabulary, and `x = A if c else B` with alias arms
        (= `if c: x = A else: x = B`) make x and y names of ONE object: an in-place statement on either rebinds both;
        the alias groups live in the scope, so the arms of an `if` keep their own;
      * a statement `helper(args)` / `x = helper(args)` calling a function of the same menpo module for which the
        vocabulary has no rule is INLINED at the call site (guard helpers extracted by a refactoring)."""

    def __init__(self, rules):
        P.Translator2M.__init__(self, rules)
        self._globals = {}
        self._inl = 0

    def function(self, fn, arg_names, ind=2, allow_unused=()):
        self._globals = getattr(fn, "__globals__", {})
        return P.Translator2M.function(self, fn, arg_names, ind=ind, allow_unused=allow_unused)

    # ------------------------------------------------------------------------------------------ expressions
    def expr(self, node, scope):
        for i, (pat, tmpl, flag) in enumerate(self.r.expr):
            env = {}
            if match(pat, node, env):
                self.used_rules.add(i)
                return tmpl.format(**{k: self.pure(v, scope) for k, v in env.items()}), flag
        if isinstance(node, ast.Constant) and isinstance(node.value, str):
            if node.value in self.r.strings:
                return self.r.strings[node.value], ""
            raise Untranslatable("string constant %r" % node.value)
        if isinstance(node, ast.GeneratorExp):
            return self.comprehension(node, scope, "list"), ""
        if (isinstance(node, ast.Call) and isinstance(node.func, ast.Name) and node.func.id in ("tuple", "list")
                and len(node.args) == 1 and not node.keywords and isinstance(node.args[0], (ast.GeneratorExp, ast.ListComp))):
            return self.comprehension(node.args[0], scope, "list"), ""
        if (isinstance(node, ast.Call) and isinstance(node.func, ast.Name) and node.func.id == "isinstance"
                and len(node.args) == 2 and not node.keywords and isinstance(node.args[1], ast.Tuple) and node.args[1].elts):
            alts = [ast.Call(func=node.func, args=[node.args[0], c], keywords=[]) for c in node.args[1].elts]
            return self.expr(alts[0] if len(alts) == 1 else ast.BoolOp(op=ast.Or(), values=alts), scope)
        if isinstance(node, ast.Compare) and len(node.ops) == 1 and isinstance(node.ops[0], ast.NotEq):
            try:
                return P.Translator2M.expr(self, node, scope)
            except Untranslatable:
                eq = ast.Compare(left=node.left, ops=[ast.Eq()], comparators=node.comparators)
                return self.expr(ast.UnaryOp(op=ast.Not(), operand=eq), scope)
        return P.Translator2M.expr(self, node, scope)

    def bind_target(self, target, value, scope):
        """Name / arbitrarily nested Tuple-of-Names targets"""
        if isinstance(target, ast.Name):
            return P.Translator2M.bind_target(self, target, value, scope)
        if isinstance(target, (ast.Tuple, ast.List)):
            sc = dict(scope)
            p = self.fresh("p", sc)
            sc["\0tmp" + p] = p
            lines = ["let %s := %s" % (p, value)]
            n = len(target.elts)
            for i, e in enumerate(target.elts):
                sub, sc = self.bind_target(e, _proj(p, i, n), sc)
                lines += sub
            return lines, sc
        raise Untranslatable("assignment target `%s`" % ast.unparse(target))

    def comprehension(self, node, scope, kind):
        node = type(node)(elt=node.elt, generators=[ast.comprehension(target=g.target, iter=self._wrap_iter(g.iter),
                                                                      ifs=g.ifs, is_async=g.is_async)
                                                    for g in node.generators])
        if len(node.generators) == 1:
            return P.Translator2M.comprehension(self, node, scope, kind)
        if kind != "list" or any(g.is_async for g in node.generators):
            raise Untranslatable("comprehension `%s`" % ast.unparse(node))

        def go(gens, sc):
            g = gens[0]
            it = self.pure(g.iter, sc)
            item = self.fresh("it", sc)
            sc = dict(sc)
            sc["\0tmp" + item] = item
            lines, sc = self.bind_target(g.target, item, sc)
            lets = "; ".join(lines) + "; "
            cond = " && ".join(self.pure(c, sc) for c in g.ifs) if g.ifs else None
            if len(gens) == 1:
                body = "[" + self.pure(node.elt, sc) + "]"
            else:
                body = go(gens[1:], sc)
            if cond is not None:
                body = "(if %s then %s else [])" % (cond, body)
            return "(List.flatMap (fun %s => %s%s) %s)" % (item, lets, body, it)
        return go(list(node.generators), scope)

    def assigned_names(self, stmts):
        """as in Translator2, plus nested tuple targets"""
        out = P.Translator2M.assigned_names(self, stmts)

        def tgt(t):
            if isinstance(t, ast.Name):
                if t.id not in out:
                    out.append(t.id)
            elif isinstance(t, (ast.Tuple, ast.List)):
                for e in t.elts:
                    tgt(e)

        def walk(sts):
            for st in sts:
                if isinstance(st, ast.Assign):
                    for t in st.targets:
                        tgt(t)
                elif isinstance(st, ast.For):
                    tgt(st.target)
                    walk(st.body)
                elif isinstance(st, ast.If):
                    walk(st.body)
                    walk(st.orelse)
        walk(stmts)
        return out

    def _wrap_iter(self, node):
        if self.r.iter_ == "{it}":
            return node
        return ast.Call(func=ast.Name(id="__iter__", ctx=ast.Load()), args=[node], keywords=[])

    def loop(self, st, rest, scope, ind, ctx):
        st2 = ast.For(target=st.target, iter=self._wrap_iter(st.iter), body=st.body, orelse=st.orelse)
        # the loop variables are rebound: they leave their alias groups
        scope = self._unalias(scope, [n.id for n in ast.walk(st.target) if isinstance(n, ast.Name)])
        return P.Translator2M.loop(self, st2, rest, scope, ind, ctx)

    # ------------------------------------------------------------------------------------------ aliases
    @staticmethod
    def _group(scope, name):
        for g in scope.get(ALIAS, ()):
            if name in g:
                return g
        return frozenset([name])

    @staticmethod
    def _unalias(scope, names):
        if not scope.get(ALIAS):
            return scope
        sc = dict(scope)
        sc[ALIAS] = tuple(g2 for g2 in (g - frozenset(names) for g in scope[ALIAS]) if len(g2) > 1)
        return sc

    def _alias_of(self, st, scope):
        """(x, y) when the statement makes the variable x another name of the object the variable y names"""
        if not (isinstance(st, ast.Assign) and len(st.targets) == 1 and isinstance(st.targets[0], ast.Name)):
            return None
        for pat, x, y in self.r.alias:
            env = {}
            if match(pat, st, env) and isinstance(env[x], ast.Name) and isinstance(env[y], ast.Name) \
                    and env[y].id in scope:
                return env[x].id, env[y].id
        if isinstance(st.value, ast.Name) and st.value.id in scope and st.value.id != st.targets[0].id:
            return st.targets[0].id, st.value.id
        return None

    # ------------------------------------------------------------------------------------------ inlined helpers
    def _helper(self, call):
        """the AST of a same-module menpo function called by name for which the vocabulary has no rule, or None"""
        import types
        if not (isinstance(call, ast.Call) and isinstance(call.func, ast.Name) and not call.keywords
                and not any(isinstance(a, ast.Starred) for a in call.args)):
            return None
        fn = self._globals.get(call.func.id)
        if not isinstance(fn, types.FunctionType) or \
                not str(getattr(fn, "__module__", "")).startswith(getattr(self.r, "inline_from", ("menpo",))):
            return None
        try:
            node, _src = P.source_ast(fn)
        except Exception:
            return None
        a = node.args
        if a.vararg or a.kwarg or a.kwonlyargs or a.posonlyargs or len(a.args) != len(call.args):
            return None
        return node

    def _inline(self, call, node, result_name):
        """statements equivalent to `result_name = helper(args)` (or to the bare call when result_name is None)"""
        body = [st for st in node.body
                if not (isinstance(st, ast.Expr) and isinstance(st.value, ast.Constant) and isinstance(st.value.value, str))]
        returns = [n for st in body for n in ast.walk(st) if isinstance(n, ast.Return)]
        tail = body[-1] if body and isinstance(body[-1], ast.Return) else None
        if any(r is not tail for r in returns) or any(isinstance(n, (ast.FunctionDef, ast.Lambda, ast.Global, ast.Nonlocal))
                                                       for st in body for n in ast.walk(st)):
            raise Untranslatable("helper `%s` is not straight-line (return inside a branch / nested def)" % node.name)
        if result_name is not None and (tail is None or tail.value is None):
            raise Untranslatable("helper `%s` returns nothing but its value is used" % node.name)
        self._inl += 1
        params = [x.arg for x in node.args.args]
        assigned = set()
        for st in body:
            for n in ast.walk(st):
                if isinstance(n, ast.Name) and isinstance(n.ctx, ast.Store):
                    assigned.add(n.id)
        mapping, pre = {}, []
        for p_, arg in zip(params, call.args):
            if p_ in assigned or not isinstance(arg, (ast.Name, ast.Constant)):
                new = "%s_h%d" % (p_, self._inl)
                mapping[p_] = new
                pre.append(ast.Assign(targets=[ast.Name(id=new, ctx=ast.Store())], value=arg))
            else:
                mapping[p_] = arg
        for n in assigned:
            if n not in mapping:
                mapping[n] = "%s_h%d" % (n, self._inl)
        import copy
        sub = _Subst(mapping)
        out = list(pre)
        for st in (body[:-1] if tail is not None else body):
            out.append(ast.fix_missing_locations(sub.visit(copy.deepcopy(st))))
        if result_name is not None:
            val = sub.visit(copy.deepcopy(tail.value))
            out.append(ast.fix_missing_locations(ast.Assign(targets=[ast.Name(id=result_name, ctx=ast.Store())], value=val)))
        return out

    def _has_stmt_rule(self, st):
        return any(match(pat, st, {}) for pat, _r, _t in self.r.stmt)

    def _has_expr_rule(self, node):
        return any(match(pat, node, {}) for pat, _t, _f in self.r.expr)

    # ------------------------------------------------------------------------------------------ statements
    def _block1(self, stmts, scope, ind, ctx):
        pad = "  " * ind
        if stmts:
            import copy
            st = ast.fix_missing_locations(_Unroll().visit(_SliceNorm().visit(copy.deepcopy(stmts[0]))))
            rest = stmts[1:]
            # `a, b = [x, y]`  =  `a, b = (x, y)`
            if (isinstance(st, ast.Assign) and len(st.targets) == 1 and isinstance(st.targets[0], (ast.Tuple, ast.List))
                    and isinstance(st.value, ast.List) and len(st.value.elts) == len(st.targets[0].elts)):
                st = ast.fix_missing_locations(ast.Assign(targets=st.targets,
                                                          value=ast.Tuple(elts=st.value.elts, ctx=ast.Load())))
            # `x = [e0, e1]` whose later uses are all `x[0]`, `x[1]`  =  `x__0 = e0; x__1 = e1`
            if (isinstance(st, ast.Assign) and len(st.targets) == 1 and isinstance(st.targets[0], ast.Name)
                    and isinstance(st.value, (ast.List, ast.Tuple)) and st.value.elts
                    and not self._has_stmt_rule(st) and not self._has_expr_rule(st.value)
                    and ctx.brk is None and _only_const_indexed(st.targets[0].id, len(st.value.elts), rest)):
                x, n = st.targets[0].id, len(st.value.elts)
                pre = [ast.fix_missing_locations(ast.Assign(targets=[ast.Name(id="%s__%d" % (x, i), ctx=ast.Store())], value=e))
                       for i, e in enumerate(st.value.elts)]
                new_rest = [ast.fix_missing_locations(_IndexSplit(x, n).visit(copy.deepcopy(r))) for r in rest]
                return self.block(pre + new_rest, scope, ind, ctx)
            stmts = [st] + list(rest)
            # ---- calls of helpers the vocabulary has no word for: inlined (depth-limited)
            if self._inl < 40 and not self._has_stmt_rule(st):
                if isinstance(st, ast.Expr) and not self._has_expr_rule(st.value):
                    h = self._helper(st.value)
                    if h is not None:
                        return self.block(self._inline(st.value, h, None) + list(rest), scope, ind, ctx)
                if (isinstance(st, ast.Assign) and len(st.targets) == 1 and isinstance(st.targets[0], ast.Name)
                        and not self._has_expr_rule(st.value)):
                    h = self._helper(st.value)
                    if h is not None:
                        return self.block(self._inline(st.value, h, st.targets[0].id) + list(rest), scope, ind, ctx)
            # ---- `f = F1 if c else F2` (a function chosen by a condition, later only called)
            #      =  if c: <rest with F1 for f> else: <rest with F2 for f>
            if (isinstance(st, ast.Assign) and len(st.targets) == 1 and isinstance(st.targets[0], ast.Name)
                    and isinstance(st.value, ast.IfExp) and not self._has_stmt_rule(st) and ctx.brk is None):
                f = st.targets[0].id
                arms = (st.value.body, st.value.orelse)

                def callee(n):
                    return (isinstance(n, ast.Attribute) and isinstance(n.value, ast.Name) and n.value.id not in scope) or \
                        (isinstance(n, ast.Name) and n.id not in scope and n.id not in self.r.names)
                if all(callee(a) for a in arms) and rest and _only_called(f, rest):
                    bodies = [[ast.fix_missing_locations(_CallSubst(f, a).visit(copy.deepcopy(r))) for r in rest] for a in arms]
                    node = ast.fix_missing_locations(ast.If(test=st.value.test, body=bodies[0], orelse=bodies[1]))
                    return self.block([node], scope, ind, ctx)
            # ---- `x = A if c else B` whose arms are aliases  =  if c: x = A else: x = B
            if (isinstance(st, ast.Assign) and len(st.targets) == 1 and isinstance(st.targets[0], ast.Name)
                    and isinstance(st.value, ast.IfExp) and not self._has_stmt_rule(st)):
                arms = [ast.Assign(targets=st.targets, value=v) for v in (st.value.body, st.value.orelse)]
                whole = self._alias_of(st, scope)
                if whole is None and all(self._alias_of(a, scope) for a in arms):
                    node = ast.fix_missing_locations(ast.If(test=st.value.test, body=[arms[0]], orelse=[arms[1]]))
                    return self.block([node] + list(rest), scope, ind, ctx)
            # ---- alias statements
            al = self._alias_of(st, scope)
            if al is not None and not self._has_stmt_rule(st):
                if ctx.brk is not None:
                    raise Untranslatable("alias statement inside a loop body: `%s`" % ast.unparse(st))
                x, y = al
                sc = self._unalias(scope, [x])
                g = self._group(sc, y) | {x}
                sc = dict(sc)
                sc[ALIAS] = tuple(h for h in sc.get(ALIAS, ()) if not (h & g)) + (frozenset(g),)
                sc[x] = scope[y]
                return self.block(list(rest), sc, ind, ctx)
            # ---- a plain (re-)assignment takes its targets out of their alias groups
            if isinstance(st, (ast.Assign, ast.AugAssign)) and not self._has_stmt_rule(st):
                tg = st.targets[0] if isinstance(st, ast.Assign) and len(st.targets) == 1 else getattr(st, "target", None)
                if tg is not None:
                    scope = self._unalias(scope, [n.id for n in ast.walk(tg)
                                                  if isinstance(n, ast.Name) and isinstance(n.ctx, ast.Store)])
                if isinstance(st, ast.Assign) and len(st.targets) == 1 and isinstance(st.targets[0], (ast.Tuple, ast.List)):
                    e, flag = self.expr(st.value, scope)
                    if flag == "bind":
                        if ctx.brk is not None:
                            raise Untranslatable("monadic value inside a loop body: `%s`" % ast.unparse(st))
                        sc = dict(scope)
                        tmp = self.fresh("t", sc)
                        sc["\0tmp" + tmp] = tmp
                        lines, sc = self.bind_target(st.targets[0], tmp, sc)
                        k = "".join("  " * (ind + 1) + l + "\n" for l in lines) + self.block(list(rest), sc, ind + 1, ctx)
                        return pad + self.r.bind.format(m=e, x=tmp, k=k)
            # ---- an in-place statement on an aliased variable rebinds every name of its group
            flags = getattr(self.r, "stmt_flag", [])
            for i, (pat, recv, tmpl) in enumerate(self.r.stmt):
                env = {}
                if match(pat, st, env) and isinstance(env[recv], ast.Name) and len(self._group(scope, env[recv].id)) > 1:
                    if ctx.brk is not None:
                        raise Untranslatable("in-place statement on an aliased variable inside a loop body: `%s`" % ast.unparse(st))
                    self.used_rules.add(("s", i))
                    target = env[recv]
                    val = tmpl.format(**{k: self.pure(v, scope) for k, v in env.items()})
                    new = self.fresh(target.id, scope)
                    sc = dict(scope)
                    for n in self._group(scope, target.id):
                        if n in sc:
                            sc[n] = new
                    if i < len(flags) and flags[i] == "bind":
                        return pad + self.r.bind.format(m=val, x=new, k=self.block(list(rest), sc, ind + 1, ctx))
                    return "%slet %s := %s\n%s" % (pad, new, val, self.block(list(rest), sc, ind, ctx))
        return P.Translator2M._block1(self, stmts, scope, ind, ctx)


# ====================================================================================================================
# the C13 vocabulary
# ====================================================================================================================

RAISE = {"ValueError": ".error .value", "ImageBoundaryError": ".error .boundary", "IndexError": ".error .index",
         "AssertionError": ".error .value"}

# true division of Python numbers is rational division; `//` and `%` are only used on naturals here
ARITH = {ast.Div: "(Np.tdiv {a} {b})", ast.FloorDiv: "(Np.fdiv {a} {b})", ast.Mod: "(Np.pmod {a} {b})"}


def R(expr=(), stmt=(), alias=(), ret=".ok ({e})", end=None, names=None, binop=None, strings=None, iter_="{it}"):
    b = dict(ARITH)
    b.update(binop or {})
    return Rules13(expr=list(expr), stmt=list(stmt), alias=list(alias), ret=ret, raise_=None, raise_by=RAISE, end=end,
                   names=names or {}, binop=b, strings=strings or {"constant": "Mode.constant", "nearest": "Mode.nearest"},
                   bind="({m}).bind fun {x} =>\n{k}", unit=".ok ({e})", iter_=iter_)


# ---- Image (self = pixel array `pix`, landmarks `lms`)
IMAGE = [
    ("self.n_dims", "(Img.nDims pix)"),
    ("self.shape", "(Img.shape pix)"),
    ("self.pixels", "pix"),
    ("self.landmarks[group]", "lms"),
    ("self.copy()", "pix"),
]

VEC = [
    ("np.floor($x)", "(V.floor {x})"),
    ("np.ceil($x)", "(V.ceil {x})"),
    ("$x.size", "(List.length {x})"),
    ("np.all($a > $b)", "(V.allGt {a} {b})"),
    ("np.all($a == $b)", "(V.allEq {a} {b})"),
    ("($a - $b).astype(int)", "(V.sub {a} {b})"),
    ("$x.astype(int)", "(V.asInt {x})"),
    ("$x.copy()", "{x}"),
    ("np.array(self.shape)", "(V.ofNat (Img.shape pix))"),
    ("($a - $b) < 0", "(V.ltZero (V.sub {a} {b}))"),
    ("$a < 0", "(V.ltZero {a})"),
    ("zip($a, $b)", "(List.zip {a} {b})"),
    ("slice($a, $b)", "(({a} : Int), ({b} : Int))"),
]

# ---- numpy words of menpo/image/patches.py
PATCH = [
    ("pixels.ndim", "(Np.ndim pixels)"),
    ("pixels.dtype", "()"),
    ("$x.shape[0]", "(Np.len0 {x})"),
    ("$x.shape[1:]", "(Np.spatial {x})"),
    ("$x.shape[-2:]", "(Np.last2 {x})"),
    ("(np.array([$p]) % 2) / 2", "(Np.halfPixel {p})"),
    ("len($p)", "(Np.len2 {p})"),
    ("np.array([[$a, $b], [$c, $d]])", "(({a}, {b}), ({c}, {d}))"),
    ("np.zeros([1, 2])", "(some [((0 : Rat), (0 : Rat))])"),
    ("np.full($s, fill_value=$v, dtype=$d)", "(Except.ok (full {s} {v}))"),
    ("np.round($c[:, None, None, :] + $o[:, None, :] + $k).astype(int)", "(Np.roundBounds (Np.cornerGrid {c} {o} {k}))"),
    ("np.clip($b, [0, 0], [$s])", "(Np.clipBounds {b} {s})"),
    ("enumerate($x)", "(Np.enumerate {x})"),
    ("zip($a, $b)", "(List.zip (Np.iter {a}) (Np.iter {b}))"),
    ("slice($a, $b)", "(({a} : Int), ({b} : Int))"),
    ("$b[0, 0]", "{b}.1.1"),
    ("$b[1, 0]", "{b}.2.1"),
    ("$b[0, 1]", "{b}.1.2"),
    ("$b[1, 1]", "{b}.2.2"),
    ("$t[0]", "{t}.1"),
    ("$t[1]", "{t}.2"),
    ("np.require($x, requirements=['C'])", "{x}"),
]


def items():
    """[(lean signature ending in `:=`, thunk -> body text, stub body)]"""
    from menpo.image import base as B
    from menpo.image import patches as PT
    from menpo.image.masked import MaskedImage
    from menpo.image.boolean import BooleanImage
    from menpo.shape.pointcloud import PointCloud
    out = []

    def add(sig, stub, thunk):
        def guarded():
            # a function that was renamed / removed / can no longer be read is a source the vocabulary has no words
            # for (broken obligation), never a crash of the harness
            try:
                return thunk()
            except Untranslatable:
                raise
            except Exception as e:  # AttributeError, OSError from inspect.getsource, SyntaxError, ...
                raise Untranslatable("%s: %s" % (type(e).__name__, e))
        out.append((sig, guarded, stub))

    CROPKW = {"self": "pix", "constrain_to_boundary": "constraintoboundary", "return_transform": "returntransform"}
    CROPSIG = "{α : Type} (pix : NDArr α) (lms : List (List Rat)) (zero : α)"
    CALLS = [
        ("self.crop($a, $b, constrain_to_boundary=$c, return_transform=$r)", "Src.crop pix lms zero {a} {b} {c} {r}", "bind"),
        ("self.crop_to_pointcloud($p, boundary=$b, constrain_to_boundary=$c, return_transform=$r)",
         "Src.cropToPointcloud pix lms zero {p} {b} {c} {r}", "bind"),
        ("self.crop_to_pointcloud_proportion($p, $q, minimum=$m, constrain_to_boundary=$c, return_transform=$r)",
         "Src.cropToPointcloudProportion pix lms zero {p} {q} {m} {c} {r}", "bind"),
        ("pointcloud.bounds(boundary=$b)", "Src.pcBounds pointcloud {b}", "bind"),
        ("pointcloud.range()", "Src.pcRange pointcloud 0", "bind"),
        ("self.bounds($b)", "Src.pcBounds pts {b}", "bind"),
        ("np.min(self.points, axis=0)", "Pc.colMin pts", "bind"),
        ("np.max(self.points, axis=0)", "Pc.colMax pts", "bind"),
        ("np.min($x)", "V.minE {x}", "bind"),
        ("np.max($x)", "V.maxE {x}", "bind"),
    ]

    # ---- Image.constrain_points_to_bounds
    add("def genConstrainPointsToBounds {α : Type} (pix : NDArr α) (points : List Int) : List Int :=", "[]",
        lambda: T13(R(expr=VEC + IMAGE, ret="{e}",
                      stmt=[("$b[$m] = 0", "b", "(V.maskFill {b} {m} 0)"),
                            ("$b[$m] = $s[$m]", "b", "(V.maskAssign {b} {m} {s})")])).function(
            B.Image.constrain_points_to_bounds, {"self": "pix", "points": "points"}, ind=1))
    # ---- Image.crop
    add("def genCrop %s (minindices maxindices : List Rat)\n"
        "    (constraintoboundary returntransform : Bool) : Except Err (Img α) :=" % CROPSIG, ".error .index",
        lambda: T13(R(expr=[("self.constrain_points_to_bounds($x)", "(Src.constrainPointsToBounds pix {x})"),
                            ("self.warp_to_shape($s, Translation($t), order=0, warp_landmarks=True, return_transform=$r)",
                             "(Img.warpTranslate0 zero pix lms {s} {t})"),
                            ] + VEC + IMAGE,
                      # with return_transform the warp answers (image, transform): the image is its item 0
                      alias=[("$x = $y[0]", "x", "y")],
                      stmt=[("$c.pixels[...] = self.pixels[(slice(None),) + $b]", "c",
                             "Img.assignAll {c} (Img.block zero pix {b})", "bind")]
                      )).function(
            B.Image.crop, dict(CROPKW, min_indices="minindices", max_indices="maxindices"), ind=1))
    # ---- PointCloud.bounds / range
    add("def genPcBounds (pts : List (List Rat)) (boundary : Rat) : Except Err (List Rat × List Rat) :=", ".error .index",
        lambda: T13(R(expr=CALLS)).function(PointCloud.bounds, {"self": "pts", "boundary": "boundary"}, ind=1))
    add("def genPcRange (pts : List (List Rat)) (boundary : Rat) : Except Err (List Rat) :=", ".error .index",
        lambda: T13(R(expr=CALLS)).function(PointCloud.range, {"self": "pts", "boundary": "boundary"}, ind=1))
    # ---- the crop_to_* wrappers
    add("def genCropToPointcloud %s (pointcloud : List (List Rat)) (boundary : Rat)\n"
        "    (constraintoboundary returntransform : Bool) : Except Err (Img α) :=" % CROPSIG, ".error .index",
        lambda: T13(R(expr=CALLS + IMAGE)).function(
            B.Image.crop_to_pointcloud, dict(CROPKW, pointcloud="pointcloud", boundary="boundary"), ind=1))
    add("def genCropToLandmarks %s (boundary : Rat)\n"
        "    (constraintoboundary returntransform : Bool) : Except Err (Img α) :=" % CROPSIG, ".error .index",
        lambda: T13(R(expr=CALLS + IMAGE)).function(
            B.Image.crop_to_landmarks, dict(CROPKW, group="()", boundary="boundary"), ind=1))
    add("def genCropToPointcloudProportion %s (pointcloud : List (List Rat)) (boundaryproportion : Rat)\n"
        "    (minimum constraintoboundary returntransform : Bool) : Except Err (Img α) :=" % CROPSIG, ".error .index",
        lambda: T13(R(expr=CALLS + IMAGE)).function(
            B.Image.crop_to_pointcloud_proportion,
            dict(CROPKW, pointcloud="pointcloud", boundary_proportion="boundaryproportion", minimum="minimum"), ind=1))
    add("def genCropToLandmarksProportion %s (boundaryproportion : Rat)\n"
        "    (minimum constraintoboundary returntransform : Bool) : Except Err (Img α) :=" % CROPSIG, ".error .index",
        lambda: T13(R(expr=CALLS + IMAGE)).function(
            B.Image.crop_to_landmarks_proportion,
            dict(CROPKW, group="()", boundary_proportion="boundaryproportion", minimum="minimum"), ind=1))
    # ---- BooleanImage.true_indices / bounds_true, MaskedImage.crop_to_true_mask
    MASK = [("self.all_true()", "(Mask.allTrue mask)"), ("self.indices()", "(Mask.allIndices mask)"),
            ("np.vstack(np.nonzero(self.pixels[0])).T", "(Mask.nonzeroIndices mask)"),
            ("self.true_indices()", "(Src.trueIndices mask)"),
            ("np.max($x, axis=0)", "Pc.colMaxZ {x}", "bind"), ("np.min($x, axis=0)", "Pc.colMinZ {x}", "bind"),
            ("self.constrain_points_to_bounds($x)", "(Src.constrainPointsToBounds mask {x})"),
            ("self.mask", "mask"),
            ("$m.bounds_true(boundary=$b, constrain_to_bounds=$c)", "Src.boundsTrue {m} {b} {c}", "bind"),
            ("self.crop($a, $b, constrain_to_boundary=$c, return_transform=$r)",
             "Src.crop pix lms zero (V.toRat {a}) (V.toRat {b}) {c} {r}", "bind")]
    add("def genTrueIndices (mask : NDArr Bool) : List (List Nat) :=", "[]",
        lambda: T13(R(expr=MASK, ret="{e}")).function(BooleanImage.true_indices, {"self": "mask"}, ind=1))
    add("def genBoundsTrue (mask : NDArr Bool) (boundary : Int) (constraintobounds : Bool) : Except Err (List Int × List Int) :=",
        ".error .index",
        lambda: T13(R(expr=MASK)).function(BooleanImage.bounds_true, {"self": "mask", "boundary": "boundary",
                                                                      "constrain_to_bounds": "constraintobounds"}, ind=1))
    add("def genCropToTrueMask %s (mask : NDArr Bool) (boundary : Int)\n"
        "    (constraintoboundary returntransform : Bool) : Except Err (Img α) :=" % CROPSIG, ".error .index",
        lambda: T13(R(expr=MASK)).function(MaskedImage.crop_to_true_mask, dict(CROPKW, boundary="boundary"), ind=1))

    # ---- menpo/image/patches.py
    PSIG = "{α : Type} (pixels : NDArr α) (patchcenters : List Pt) (patchshape : Nat × Nat) (offsets : Option (List Pt))"
    PKW = {"pixels": "pixels", "patch_centers": "patchcenters", "patch_shape": "patchshape", "offsets": "offsets", "cval": "cval"}
    add("def genCenteredPatch (patchshape : Nat × Nat) : Except Err (List Pt) :=", ".error .index",
        lambda: T13(R(expr=[("-$x / $y", "(-(Np.tdiv {x} {y}))"),
                            ("np.linspace($a, $b, num=$n, dtype=float, endpoint=False)", "(Np.linspaceOpen {a} {b} {n})"),
                            ("np.meshgrid($x, $y, indexing='ij')", "(Np.meshgridIJ {x} {y})"),
                            ("np.stack($p, axis=2).reshape([-1, 2])", "(Np.stackPoints {p})")] + PATCH)).function(
            PT._centered_patch, {"patch_shape": "patchshape"}, ind=1))
    add("def genExtractPatchesBySampling %s\n    (sampler : Nat → Mode → Nat → Pt → α) (order : Nat) (mode : Mode) (cval : α) : "
        "Except Err (NDArr α) :=" % PSIG, ".error .index",
        lambda: T13(R(expr=[("_centered_patch(patch_shape)", "Src.centeredPatch patchshape", "bind"),
                            ("$p[:, None, :] + $c", "(Np.outerAdd {p} {c})"),
                            ("$p[:, :, None, :] + $o", "(Np.outerAdd3 {p} {o})"),
                            ("$p.reshape([-1, 2])", "(Np.flatPoints {p})"),
                            ("$p.reshape(-1, 2)", "(Np.flatPoints {p})"),
                            ("$p.transpose(3, 4, 0, 1, 2)", "(Np.transpose34012 cval {p})"),
                            ("scipy_interpolation(pixels, $p, order=order, mode=mode, cval=cval)",
                             "(Np.sampleAll (sampler order mode) pixels {p})"),
                            ("$p.reshape($a, $b, $c, $d, $e)", "Np.reshapeE {p} [{a}, {b}, {c}, {d}, {e}]", "bind"),
                            ("np.transpose($p, [3, 4, 0, 1, 2])", "(Np.transpose34012 cval {p})")] + PATCH)).function(
            PT.extract_patches_by_sampling, dict(PKW, order="order", mode="mode"), ind=1))
    add("def genExtractPatchesWithSlice %s (cval : α) : Except Err (NDArr α) :=" % PSIG, ".error .index",
        lambda: T13(R(expr=PATCH, ret="{e}", iter_="(Np.iter {it})",
                      stmt=[("$P[$i, $j, :, $a, $b] = $X[:, $c, $d]", "P",
                             "(Np.assignPatch cval {P} {i} {j} {a} {b} {X} {c} {d})"),
                            ("$b[:, :, 1, :] = $b[:, :, 0, :] + np.asarray($p)", "b", "(Np.highFromLow {b} {p})")])).function(
            PT.extract_patches_with_slice, PKW, ind=1))
    add("def genSetPatches {α : Type} (dflt : α) (patches : NDArr α) (pixels : Except Err (NDArr α)) (patchcenters : List Pt)\n"
        "    (offset : Int × Int) (offsetindex : Nat) : Except Err (NDArr α) :=", ".error .index",
        lambda: T13(R(expr=[("pixels.ndim", "(Np.ndimE pixels)"), ("int($x)", "(Np.pyInt {x})"),
                            ("$v[offset_index]", "(Np.viewAt {v} offsetindex)"),
                            ("offset[0]", "(Np.toPt offset)"), ("np.round($x)", "(Np.roundPt {x})")] + PATCH,
                      end="{pixels}", iter_="(Np.iter {it})",
                      stmt=[("$X[:, $r, $c] = $v", "X", "(Np.assignWindow dflt {X} {r} {c} {v})")])).function(
            PT.set_patches, {"patches": "patches", "pixels": "pixels", "patch_centers": "patchcenters", "offset": "offset",
                             "offset_index": "offsetindex"}, ind=1))
    # ---- Image.extract_patches / extract_patches_around_landmarks / set_patches / set_patches_around_landmarks
    APISIG = "{α : Type} (pix : NDArr α) (sampler : Nat → Mode → Nat → Pt → α)"
    API = [("patch_centers.points", "patchcenters"), ("patch_centers.n_points", "(List.length patchcenters)"),
           ("extract_patches_with_slice(self.pixels, $c, $s, offsets=$o, cval=$v)",
            "Src.extractPatchesWithSlice pix {c} {s} {o} {v}", "bind"),
           ("extract_patches_by_sampling(self.pixels, $c, $s, offsets=$o, order=$r, mode=$m, cval=$v)",
            "Src.extractPatchesBySampling pix {c} {s} {o} sampler {r} {m} {v}", "bind"),
           ("Image($o, copy=False)", "{o}"),
           ("self.extract_patches(self.landmarks[group], patch_shape=$s, sample_offsets=$o, as_single_array=$a)",
            "Src.extractPatches pix sampler lms {s} {o} {a} 0 Mode.constant zero", "bind"),
           ("self.set_patches($p, self.landmarks[group], offset=$o, offset_index=$i)",
            "Src.setPatchesApi dflt pix {p} lms {o} {i}", "bind"),
           ("np.zeros([1, 2], dtype=np.intp)", "(some (OffArg.arr [1, 2] [0, 0]))"),
           ("isinstance(patches, list)", "(PatchArg.isList patches)"),
           ("isinstance($x, tuple)", "(OffArg.isTuple {x})"), ("isinstance($x, list)", "(OffArg.isList {x})"),
           ("np.asarray([$x])", "(OffArg.asRow {x})"), ("np.require($x, dtype=np.intp)", "{x}"),
           ("$x.shape == (1, 2)", "(OffArg.shapeIs12 {x})"),
           ("_convert_patches_list_to_single_array($p, $n)", "PatchArg.convert dflt {p} {n}", "bind"),
           ] + IMAGE
    add("def genExtractPatches %s (patchcenters : List Pt) (patchshape : Nat × Nat)\n"
        "    (sampleoffsets : Option (List Pt)) (assinglearray : Bool) (order : Nat) (mode : Mode) (cval : α) : "
        "Except Err (PatchesOut α) :=" % APISIG, ".error .index",
        lambda: T13(R(expr=API, ret=".ok (PatchesOut.of {e})", iter_="(Np.iter {it})")).function(
            B.Image.extract_patches, {"self": "pix", "patch_centers": "patchcenters", "patch_shape": "patchshape",
                                      "sample_offsets": "sampleoffsets", "as_single_array": "assinglearray",
                                      "order": "order", "mode": "mode", "cval": "cval"}, ind=1))
    add("def genExtractPatchesAroundLandmarks %s (lms : List Pt) (zero : α) (patchshape : Nat × Nat)\n"
        "    (sampleoffsets : Option (List Pt)) (assinglearray : Bool) : Except Err (PatchesOut α) :=" % APISIG,
        ".error .index",
        lambda: T13(R(expr=API)).function(
            B.Image.extract_patches_around_landmarks,
            {"self": "pix", "group": "()", "patch_shape": "patchshape", "sample_offsets": "sampleoffsets",
             "as_single_array": "assinglearray"}, ind=1))
    add("def genSetPatchesApi {α : Type} (dflt : α) (pix : NDArr α) (patches : PatchArg α) (patchcenters : List Pt)\n"
        "    (offset : Option OffArg) (offsetindex : Option Nat) : Except Err (NDArr α) :=", ".error .index",
        lambda: T13(R(expr=API,
                      stmt=[("$x = 0", "x", "(some 0)"),
                            ("set_patches($p, $c.pixels, $q, $o, $i)", "c",
                             "PatchArg.setInto dflt {p} {c} {q} {o} {i}", "bind")])).function(
            B.Image.set_patches, {"self": "pix", "patches": "patches", "patch_centers": "patchcenters",
                                  "offset": "offset", "offset_index": "offsetindex"}, ind=1))
    add("def genConvertPatchesList {α : Type} (dflt : α) (patcheslist : List (NDArr α)) (ncenter : Nat) : "
        "Except Err (NDArr α) :=", ".error .boundary",
        lambda: T13(R(expr=[("int(len($l) / $n)", "Np.intDivE (List.length {l}) {n}", "bind"),
                            ("patches_list[0]", "PList.head patcheslist", "bind"),
                            ("$p.n_channels", "(PImg.nChannels {p})"),
                            ("$p.height", "(PImg.height {p})"),
                            ("$p.width", "(PImg.width {p})"),
                            ("$p.pixels.dtype", "()"),
                            ("np.empty(($a, $b, $c, $d, $e), dtype=$t)", "(Except.ok (full [{a}, {b}, {c}, {d}, {e}] dflt))"),
                            ("range($n)", "(List.range {n})")],
                      ret="{e}",
                      stmt=[("$A[$p, $o, ...] = $l[$t].pixels", "A", "(Np.assignEntry dflt {A} {p} {o} {l} {t})")])).function(
            B._convert_patches_list_to_single_array, {"patches_list": "patcheslist", "n_center": "ncenter"}, ind=1))
    add("def genSetPatchesAroundLandmarks {α : Type} (dflt : α) (pix : NDArr α) (lms : List Pt) (patches : PatchArg α)\n"
        "    (offset : Option OffArg) (offsetindex : Option Nat) : Except Err (NDArr α) :=", ".error .index",
        lambda: T13(R(expr=API, ret="{e}")).function(
            B.Image.set_patches_around_landmarks, {"self": "pix", "patches": "patches", "group": "()",
                                                   "offset": "offset", "offset_index": "offsetindex"}, ind=1))
    return out


HEADER = """/- TRANSLATED by harness/trans_c13.py (harness/py2lean2.py) from the SOURCE TEXT of menpo/image/base.py,
   menpo/image/patches.py, menpo/image/masked.py, menpo/image/boolean.py and menpo/shape/pointcloud.py of the current
   working tree on every run of `./check C13`; do not edit.  GenProps/C13Src.lean proves every definition equal to the
   Core definition the C13 theorems are about. -/
import MenpoModel.Core.C13Src

set_option linter.unusedVariables false

namespace MenpoModel.C13.Generated
open MenpoModel.C13 MenpoModel.C13.Src
"""
FOOTER = "\nend MenpoModel.C13.Generated\n"


def translate():
    return P.translate_or_stub(items(), HEADER, FOOTER)


def generated_files():
    text, reasons = translate()
    return {GEN_REL: text}, reasons


if __name__ == "__main__":
    t, r = translate()
    print(t)
    print("REASONS:", r)
