"""py2lean2numpy — generic extensions of harness/py2lean2.py for NUMPY-HEAVY functions whose *plumbing* is translated
(a module of its own so that builders working on py2lean2.py at the same time are not disturbed; everything here is
independent of any property; first user: harness/trans_c11.py).  `TranslatorNP(RulesNP(...))` is a `Translator2` that
additionally translates

  `if` on a literal     a test that translates to `true` / `false` (a keyword the vocabulary fixes, e.g. `verbose`) keeps
                        the live arm only (the dead arm is not translated at all, it may be untranslatable);
  skip rules            statement patterns that are dropped (`self.precision = 0` "empty memory", logging);
  attribute variables   `attr_vars={"attr": "var"}`: `self.attr` is read and assigned as the python variable `var`
                        (object state passed in and handed back; the final value is available to `ret` / `end`);
  `ret` / `end`         templates are formatted with the current Lean names of the python variables: `{e}` is the
                        returned expression, `{name}` a python variable (the final value of a mutated parameter);
                        expr- and stmt-rule templates may mention python variables as well;
  keyword arguments     are matched in any order (patterns and source are normalised by sorting them);
  subscript stores      `a[i] = v`, `a[i:j, k:l] += v`, `_, a[i] = f(..)` go through stmt rules (as in Translator2; the
                        receiver is rebound), tuple targets included;
  true division         `a / b`  ->  `({a} / {b})`  (exact: the vocabulary's scalars are rationals);
  string constants      through `RulesNP.strings` ({python string: lean term}); a string not listed is untranslatable;
  float constants       through `RulesNP.float_` (template with {n} {d}: the exact decimal value as a fraction);
  x is None             `({x}).isNone` / `({x}).isSome`  (a rule wins, as always);
  calls that may raise  an expr rule flagged "bind" (template : Option α) as the whole right-hand side of an assignment
                        (name or tuple target), and a stmt rule with a 4th element "bind" (template : Option of the
                        receiver's new value), become `match m with | none => <raise> | some x => <rest>` — also
                        inside loop bodies, where the raise leaves the loop through the exit flag (`RulesNP.unwrap`
                        = (failure pattern, success pattern with {x})).
"""
import ast

from .py2lean2 import Rules2, Translator2, _Ctx, _proj, Untranslatable, source_ast, match, _pat  # noqa: F401


def _norm_kw(node):
    for n in ast.walk(node):
        if isinstance(n, ast.Call) and n.keywords:
            n.keywords.sort(key=lambda k: (k.arg is None, k.arg or ""))
    return node


class RulesNP(Rules2):
    def __init__(self, expr=(), stmt=(), skip=(), attr_vars=None, strings=None, float_=None,
                 unwrap=("none", "some {x}"), merge_if=True, **kw):
        self.merge_if = merge_if
        binop = {ast.Div: "({a} / {b})"}
        binop.update(kw.pop("binop", None) or {})
        stmt = list(stmt)
        self.stmt_flag = [(st[3] if len(st) > 3 else "") for st in stmt]
        Rules2.__init__(self, expr=expr, stmt=[tuple(st[:3]) for st in stmt], binop=binop, **kw)
        self.unwrap = unwrap
        self.skip = [_pat(p, "stmt") for p in skip]
        self.attr_vars = dict(attr_vars or {})
        self.strings = dict(strings or {})
        self.float_ = float_
        for p, _t, _f in self.expr:
            _norm_kw(p)
        for p, _r, _t in self.stmt:
            _norm_kw(p)
        for p in self.skip:
            _norm_kw(p)


class _AttrVars(ast.NodeTransformer):
    def __init__(self, table):
        self.table = table

    def visit_Attribute(self, node):
        self.generic_visit(node)
        if isinstance(node.value, ast.Name) and node.value.id == "self" and node.attr in self.table:
            return ast.copy_location(ast.Name(id=self.table[node.attr], ctx=node.ctx), node)
        return node


def _literal(text):
    t = text.strip()
    for _ in range(8):
        if t.startswith("(") and t.endswith(")") and t[1:-1].strip() in ("true", "false", "!true", "!false"):
            t = t[1:-1].strip()
        if t == "!true":
            t = "false"
        if t == "!false":
            t = "true"
    return True if t == "true" else False if t == "false" else None


class TranslatorNP(Translator2):
    @staticmethod
    def fresh(name, scope):
        base = name.replace("_", "") or "u"
        if base[0].isdigit():
            base = "u" + base
        used = set(scope.values())
        k, cand = 0, base + "0"
        while cand in used:
            k += 1
            cand = "%s%d" % (base, k)
        return cand

    def _fmt(self, tmpl, scope, **kw):
        d = {k: v for k, v in scope.items() if k.isidentifier()}
        d.update(kw)
        try:
            return tmpl.format(**d)
        except (KeyError, IndexError) as e:
            raise Untranslatable("template %r needs the python variable %s" % (tmpl, e))

    # ------------------------------------------------------------------------------------------ normalisations
    MARK = "\0mark:"

    def _snapshot(self, nodes, scope):
        return {n.id: scope.get(n.id) for e in nodes for n in ast.walk(e) if isinstance(n, ast.Name)}

    def _set_mark(self, scope, name, **mark):
        """marks live in the scope (so that they follow the copies made for the arms of an `if`) as a token"""
        if not hasattr(self, "_marks"):
            self._marks = {}
        tok = "\0m%d" % len(self._marks)
        self._marks[tok] = mark
        scope[self.MARK + name] = tok

    def _mark_valid(self, name, scope):
        m = getattr(self, "_marks", {}).get(scope.get(self.MARK + name))
        if m is None:
            return None
        if m["lean"] != scope.get(name):           # the variable was rebound since
            return None
        if any(scope.get(k) != v for k, v in m["snap"].items()):
            raise Untranslatable("`%s` is used after a variable of its defining expression was rebound" % name)
        return m

    def _slice_of(self, node, scope):
        """an index expression with slice-valued locals replaced by the slices they hold"""
        if isinstance(node, ast.Name):
            m = self._mark_valid(node.id, scope)
            if m and m["kind"] == "slice":
                a = list(m["args"]) + [None] * (3 - len(m["args"]))
                if len(m["args"]) == 1:
                    a = [None, m["args"][0], None]
                none = lambda x: None if x is None or (isinstance(x, ast.Constant) and x.value is None) else x
                return ast.Slice(lower=none(a[0]), upper=none(a[1]), step=none(a[2]))
            return node
        if isinstance(node, ast.Tuple):
            return ast.Tuple(elts=[self._slice_of(e, scope) for e in node.elts], ctx=node.ctx)
        return node

    def _helper(self, call):
        """the python function a call refers to, when it is a plain function of the translated function's module"""
        import types
        if not (isinstance(call, ast.Call) and isinstance(call.func, ast.Name)):
            return None
        f = getattr(self, "_globals", {}).get(call.func.id)
        if isinstance(f, types.FunctionType) and f.__module__ == getattr(self, "_module", None):
            return f
        return None

    def _has_rule(self, node):
        return any(match(pat, node, {}) for pat, _t, _f in self.r.expr)

    def _bind_call(self, fnode, call):
        """[(parameter, argument AST)] of a call, defaults from the signature"""
        a = fnode.args
        if a.vararg or a.kwarg or a.posonlyargs:
            raise Untranslatable("helper `%s` with a variadic signature" % fnode.name)
        params = [x.arg for x in a.args + a.kwonlyargs]
        defaults = dict(zip([x.arg for x in a.args][len(a.args) - len(a.defaults):], a.defaults))
        defaults.update({k.arg: d for k, d in zip(a.kwonlyargs, a.kw_defaults) if d is not None})
        given = dict(zip([x.arg for x in a.args], call.args))
        if len(call.args) > len(a.args) or any(k.arg is None for k in call.keywords):
            raise Untranslatable("call of helper `%s`" % fnode.name)
        for k in call.keywords:
            if k.arg in given or k.arg not in params:
                raise Untranslatable("call of helper `%s`" % fnode.name)
            given[k.arg] = k.value
        out = []
        for p_ in params:
            if p_ in given:
                out.append((p_, given[p_], False))
            elif p_ in defaults:
                out.append((p_, defaults[p_], True))
            else:
                raise Untranslatable("call of helper `%s`: no argument for `%s`" % (fnode.name, p_))
        return out

    @staticmethod
    def _body_of(fnode):
        body = list(fnode.body)
        if body and isinstance(body[0], ast.Expr) and isinstance(body[0].value, ast.Constant) \
                and isinstance(body[0].value.value, str):
            body = body[1:]
        return body

    def _callee_scope(self, fnode, call, scope, lines=None):
        """scope of an inlined helper: its parameters bound to the translated arguments; the caller's Lean names are
        reserved so that the helper's `let`s never shadow a name the continuation reads"""
        sc = {"\0cap%d" % i: v for i, v in enumerate(sorted(set(v for v in scope.values() if isinstance(v, str))))}
        for p_, arg, is_default in self._bind_call(fnode, call):
            term = self.pure(arg, {} if is_default else scope)
            if lines is None:
                sc[p_] = term
            else:
                new = self.fresh(p_, sc)
                sc[p_] = new
                lines.append("let %s := %s" % (new, term))
        return sc

    # ------------------------------------------------------------------------------------------ expressions
    def expr(self, node, scope):
        if isinstance(node, ast.Subscript):
            sl = self._slice_of(node.slice, scope)
            if sl is not node.slice:
                node = ast.Subscript(value=node.value, slice=sl, ctx=node.ctx)
        h = self._helper(node)
        if h is not None and not self._has_rule(node):
            fnode, _src = source_ast(h)
            _norm_kw(fnode)
            body = self._body_of(fnode)
            if len(body) == 1 and isinstance(body[0], ast.Return) and body[0].value is not None:
                return self.expr(body[0].value, self._callee_scope(fnode, node, scope))
            raise Untranslatable("helper `%s` used as an operand (only `t = %s(..)` / `return %s(..)` are inlined)" % (
                fnode.name, fnode.name, fnode.name))
        for i, (pat, tmpl, flag) in enumerate(self.r.expr):
            env = {}
            if match(pat, node, env):
                self.used_rules.add(i)
                return self._fmt(tmpl, scope, **{k: self.pure(v, scope) for k, v in env.items()}), flag
        if (isinstance(node, ast.Compare) and len(node.ops) == 1 and isinstance(node.ops[0], (ast.Is, ast.IsNot))
                and isinstance(node.comparators[0], ast.Constant) and node.comparators[0].value is None):
            x = self.pure(node.left, scope)
            return "(%s).%s" % (x, "isSome" if isinstance(node.ops[0], ast.IsNot) else "isNone"), ""
        if isinstance(node, ast.Constant) and isinstance(node.value, str):
            if node.value in self.r.strings:
                return self.r.strings[node.value], ""
            raise Untranslatable("string constant %r" % node.value)
        if isinstance(node, ast.Constant) and isinstance(node.value, float) and self.r.float_:
            from fractions import Fraction
            f = Fraction(repr(node.value))
            return self.r.float_.format(n=f.numerator, d=f.denominator), ""
        return Translator2.expr(self, node, scope)

    def comprehension(self, node, scope, kind):
        g = node.generators[0] if len(node.generators) == 1 else None
        elts = None
        if g is not None and not g.is_async and isinstance(g.target, ast.Name):
            if isinstance(g.iter, (ast.Tuple, ast.List)):
                elts = g.iter.elts
            elif isinstance(g.iter, ast.Name):
                m = self._mark_valid(g.iter.id, scope)
                if m and m["kind"] == "tuple":
                    elts = m["elts"]
        if elts is None:
            return Translator2.comprehension(self, node, scope, kind)
        parts = []
        for e in elts:
            sc = dict(scope)
            sc[g.target.id] = self.pure(e, scope)
            cond = " && ".join(self.pure(c, sc) for c in g.ifs) if g.ifs else None
            body = self.pure(node.elt, sc)
            if kind == "list":
                parts.append("[%s]" % body if cond is None else "(if %s then [%s] else [])" % (cond, body))
            elif kind == "any":
                parts.append(body if cond is None else "(%s && %s)" % (cond, body))
            else:
                parts.append(body if cond is None else "(!(%s) || %s)" % (cond, body))
        if kind == "list":
            return "(" + " ++ ".join(parts) + ")" if parts else "[]"
        if not parts:
            return "false" if kind == "any" else "true"
        return "(" + (" || " if kind == "any" else " && ").join(parts) + ")"

    # ------------------------------------------------------------------------------------------ statements
    def assigned_names(self, stmts):
        """names (re)bound by the statements, in order of first appearance (as Translator2, stmt rules with several
        receivers included)"""
        out = []

        def add(n):
            if n not in out:
                out.append(n)

        def tgt(t):
            if isinstance(t, ast.Name):
                add(t.id)
            elif isinstance(t, (ast.Tuple, ast.List)):
                for e in t.elts:
                    tgt(e)

        def walk(sts):
            for st in sts:
                matched = False
                for pat, recv, _t in self.r.stmt:
                    env = {}
                    if match(pat, st, env):
                        for r in (recv if isinstance(recv, (tuple, list)) else (recv,)):
                            if isinstance(env[r], ast.Name):
                                add(env[r].id)
                        matched = True
                        break
                if matched:
                    continue
                if isinstance(st, ast.Assign):
                    for t in st.targets:
                        tgt(t)
                elif isinstance(st, ast.AugAssign):
                    tgt(st.target)
                elif isinstance(st, ast.If):
                    walk(st.body)
                    walk(st.orelse)
                elif isinstance(st, ast.For):
                    tgt(st.target)
                    walk(st.body)
                elif isinstance(st, (ast.While, ast.With, ast.Try, ast.FunctionDef, ast.ClassDef)):
                    raise Untranslatable("statement form `%s`" % ast.unparse(st).splitlines()[0])
        walk(stmts)
        return out

    def loop(self, st, rest, scope, ind, ctx):
        elts = None
        if isinstance(st.iter, (ast.Tuple, ast.List)):
            elts = st.iter.elts
        elif isinstance(st.iter, ast.Name):
            m = self._mark_valid(st.iter.id, scope)
            if m and m["kind"] == "tuple":
                elts = m["elts"]
        if elts is not None and not st.orelse and not self._has(st.body, (ast.Break, ast.Continue), False):
            # python evaluates the tuple ONCE, before the first iteration: bind every element first
            tag = len(scope)
            unrolled = [ast.Assign(targets=[ast.Name(id="unrolled_item_%d_%d" % (tag, j), ctx=ast.Store())], value=e)
                        for j, e in enumerate(elts)]
            for j, _e in enumerate(elts):
                unrolled.append(ast.Assign(targets=[st.target],
                                           value=ast.Name(id="unrolled_item_%d_%d" % (tag, j), ctx=ast.Load())))
                unrolled.extend(st.body)
            for u in unrolled:
                ast.fix_missing_locations(u)
            return self.block(unrolled + list(rest), scope, ind, ctx)
        targets = [n.id for n in ast.walk(st.target) if isinstance(n, ast.Name)]
        if any(t in scope for t in targets):
            item = "loop_item_%d" % len(scope)
            st2 = ast.For(target=ast.Name(id=item, ctx=ast.Store()), iter=st.iter,
                          body=[ast.Assign(targets=[st.target], value=ast.Name(id=item, ctx=ast.Load()))] + list(st.body),
                          orelse=st.orelse)
            ast.fix_missing_locations(st2)
            st = st2
        return Translator2.loop(self, st, rest, scope, ind, ctx)

    def _may_raise(self, st):
        """does the statement (sub-statements of `if` included, not of inner loops) hold a call that may raise:
        a stmt rule or a right-hand side flagged "bind"?"""
        for i, (pat, _r, _t) in enumerate(self.r.stmt):
            if match(pat, st, {}):
                return self.r.stmt_flag[i] == "bind"
        if isinstance(st, ast.Assign):
            for pat, _t, flag in self.r.expr:
                if match(pat, st.value, {}):
                    return flag == "bind"
        return False

    def _has(self, stmts, kinds, into_loops):
        raising = ast.Raise in (kinds if isinstance(kinds, tuple) else (kinds,))
        for st in stmts:
            if isinstance(st, kinds):
                return True
            if raising and self._may_raise(st):
                return True
            if isinstance(st, ast.If) and (self._has(st.body, kinds, into_loops) or
                                           self._has(st.orelse, kinds, into_loops)):
                return True
            if isinstance(st, ast.For) and into_loops and self._has(st.body, kinds, into_loops):
                return True
        return False

    def _unwrap(self, m, x, k, scope, ind, ctx):
        pad = "  " * ind
        fail_pat, ok_pat = self.r.unwrap
        ex = ctx.exit(self.r.raise_, scope, 0).strip()
        return "%smatch %s with\n%s| %s => %s\n%s| %s =>\n%s" % (pad, m, pad, fail_pat, ex, pad, ok_pat.format(x=x), k)

    def block(self, stmts, scope, ind, ctx):
        pad = "  " * ind
        if stmts:
            st, rest = stmts[0], stmts[1:]
            if isinstance(st, (ast.Import, ast.ImportFrom)):
                return self.block(rest, scope, ind, ctx)
            for pat in self.r.skip:
                if match(pat, st, {}):
                    return self.block(rest, scope, ind, ctx)
            if isinstance(st, ast.If):
                c = self.pure(st.test, scope)
                v = _literal(c)
                if v is not None:
                    return self.block(list(st.body if v else st.orelse) + rest, dict(scope), ind, ctx)
                if self.r.merge_if and rest and self._only_assigns(st):
                    nb, ne = self.assigned_names(st.body), self.assigned_names(st.orelse)
                    names = [n for n in nb + [x for x in ne if x not in nb] if n in scope or (n in nb and n in ne)]
                    if not names:
                        return self.block(rest, scope, ind, ctx)       # the arms bind temporaries nobody can read
                    from .py2lean2 import _tuple

                    def arm_end(s_, i_):
                        return "  " * i_ + _tuple([s_[n] for n in names])

                    def arm_exit(_v, _s, _i):
                        raise Untranslatable("exit inside a conditional update")
                    actx = _Ctx(exit_=arm_exit, end=arm_end, brk=None)
                    a = self.block(list(st.body), dict(scope), ind + 2, actx)
                    b = self.block(list(st.orelse), dict(scope), ind + 2, actx)
                    sc = dict(scope)
                    pv = self.fresh("p", sc)
                    sc["\0tmp" + pv] = pv
                    out = "%slet %s := (if %s then\n%s\n%s  else\n%s)\n" % (pad, pv, c, a, pad, b)
                    for j, n in enumerate(names):
                        new = self.fresh(n, sc)
                        sc[n] = new
                        sc.pop(self.MARK + n, None)
                        out += "%slet %s := %s\n" % (pad, new, _proj(pv, j, len(names)))
                    return out + self.block(rest, sc, ind, ctx)
                a = self.block(list(st.body) + rest, dict(scope), ind + 1, ctx)
                b = self.block(list(st.orelse) + rest, dict(scope), ind + 1, ctx)
                return "%sif %s then\n%s\n%selse\n%s" % (pad, c, a, pad, b)
            # ---- a helper function of the same module, inlined
            call = st.value if isinstance(st, (ast.Assign, ast.Return)) and isinstance(st.value, ast.Call) else None
            h = self._helper(call) if call is not None else None
            if h is not None and not self._has_rule(call) and not any(match(pat, st, {}) for pat, _r, _t in self.r.stmt):
                if isinstance(st, ast.Return):
                    tmp = ast.Name(id="inlined_result", ctx=ast.Store())
                    st2 = ast.Assign(targets=[tmp], value=call)
                    ret = ast.Return(value=ast.Name(id="inlined_result", ctx=ast.Load()))
                    for u in (st2, ret):
                        ast.fix_missing_locations(u)
                    return self.block([st2, ret] + list(rest), scope, ind, ctx)
                if len(st.targets) == 1:
                    return self._inline(h, call, st.targets[0], rest, scope, ind, ctx)
            # ---- `first = slice(a, b)`: no value of its own, read back inside subscripts
            if (isinstance(st, ast.Assign) and len(st.targets) == 1 and isinstance(st.targets[0], ast.Name)
                    and isinstance(st.value, ast.Call) and isinstance(st.value.func, ast.Name)
                    and st.value.func.id == "slice" and not st.value.keywords and 1 <= len(st.value.args) <= 3
                    and "slice" not in scope):
                sc = dict(scope)
                sc.pop(st.targets[0].id, None)
                self._set_mark(sc, st.targets[0].id, kind="slice", lean=None, args=list(st.value.args),
                               snap=self._snapshot(st.value.args, scope))
                return self.block(rest, sc, ind, ctx)
            # ---- `blocks = (a, b, c)`: translated as usual, and remembered for `for x in blocks`
            if (isinstance(st, ast.Assign) and len(st.targets) == 1 and isinstance(st.targets[0], ast.Name)
                    and isinstance(st.value, (ast.Tuple, ast.List)) and st.value.elts
                    and not any(match(pat, st, {}) for pat, _r, _t in self.r.stmt) and not self._has_rule(st.value)):
                e = self.pure(st.value, scope)
                lines, sc = self.bind_target(st.targets[0], e, scope)
                self._set_mark(sc, st.targets[0].id, kind="tuple", lean=sc[st.targets[0].id], elts=list(st.value.elts),
                               snap=self._snapshot(st.value.elts, scope))
                return "".join(pad + l + "\n" for l in lines) + self.block(rest, sc, ind, ctx)
            if isinstance(st, ast.Return):
                if st.value is None:
                    if self.r.end is None:
                        raise Untranslatable("bare return")
                    return ctx.exit(self._fmt(self.r.end, scope), scope, ind)
                e, flag = self.expr(st.value, scope)
                if getattr(ctx, "inline_ret", None) is not None:
                    if flag == "bind":
                        raise Untranslatable("helper returning a call that may raise")
                    return ctx.inline_ret(e, scope, ind)
                return ctx.exit(e if flag == "bind" else self._fmt(self.r.ret, scope, e=e), scope, ind)
            for i, (pat, recv, tmpl) in enumerate(self.r.stmt):
                env = {}
                if match(pat, st, env):
                    self.used_rules.add(("s", i))
                    recvs = list(recv) if isinstance(recv, (tuple, list)) else [recv]
                    for r in recvs:
                        if not isinstance(env[r], ast.Name):
                            raise Untranslatable("in-place statement on a non-variable: `%s`" % ast.unparse(st))
                    vals = {}
                    for k_, v_ in env.items():
                        try:
                            vals[k_] = self.pure(v_, scope)
                        except Untranslatable:
                            if k_ not in recvs:
                                raise
                            vals[k_] = "<undefined %s>" % k_     # a receiver the statement defines: not readable yet
                    val = self._fmt(tmpl, scope, **vals)
                    sc = dict(scope)
                    if len(recvs) == 1:
                        new = self.fresh(env[recvs[0]].id, sc)
                        sc[env[recvs[0]].id] = new
                        lines = []
                    else:
                        new = self.fresh("p", sc)
                        sc["\0tmp" + new] = new
                        lines = []
                        for j, r in enumerate(recvs):
                            nm = self.fresh(env[r].id, sc)
                            sc[env[r].id] = nm
                            lines.append("let %s := %s" % (nm, _proj(new, j, len(recvs))))
                    if self.r.stmt_flag[i] == "bind":
                        k = "".join("  " * (ind + 1) + l + "\n" for l in lines) + self.block(rest, sc, ind + 1, ctx)
                        return self._unwrap(val, new, k, scope, ind, ctx)
                    return "%slet %s := %s\n%s%s" % (pad, new, val, "".join(pad + l + "\n" for l in lines),
                                                     self.block(rest, sc, ind, ctx))
            if isinstance(st, ast.Assign) and len(st.targets) == 1:
                e, flag = self.expr(st.value, scope)
                if flag == "bind":
                    p = self.fresh("p", scope)
                    sc = dict(scope)
                    sc["\0tmp" + p] = p
                    lines, sc = self.bind_target(st.targets[0], p, sc)
                    k = "".join("  " * (ind + 1) + l + "\n" for l in lines) + self.block(rest, sc, ind + 1, ctx)
                    return self._unwrap(e, p, k, scope, ind, ctx)
        return Translator2.block(self, stmts, scope, ind, ctx)

    def _only_assigns(self, st):
        """are both arms of the `if` straight-line updates of variables (nested `if`s of the same kind allowed)?"""
        def ok(sts):
            for x in sts:
                if isinstance(x, ast.Pass) or (isinstance(x, ast.Expr) and isinstance(x.value, ast.Constant)):
                    continue
                if any(match(pat, x, {}) for pat in self.r.skip):
                    continue
                hit = [i for i, (pat, _r, _t) in enumerate(self.r.stmt) if match(pat, x, {})]
                if hit:
                    if self.r.stmt_flag[hit[0]] == "bind":
                        return False
                    continue
                if isinstance(x, ast.If):
                    if not (ok(x.body) and ok(x.orelse)):
                        return False
                    continue
                if isinstance(x, ast.AugAssign) and isinstance(x.target, ast.Name):
                    continue
                if isinstance(x, ast.Assign) and len(x.targets) == 1:
                    v = x.value
                    if self._may_raise(x) or (self._helper(v) is not None and not self._has_rule(v)):
                        return False
                    if isinstance(v, (ast.Tuple, ast.List)) and isinstance(x.targets[0], ast.Name):
                        return False                # a literal a later `for` may want to unroll
                    if isinstance(v, ast.Call) and isinstance(v.func, ast.Name) and v.func.id == "slice":
                        return False
                    continue
                return False
            return True
        return ok(st.body) and ok(st.orelse)

    def _inline(self, h, call, target, rest, scope, ind, ctx):
        """`target = helper(args)`: the helper's body in place; `return E` goes on with `target = E` and the rest of the
        caller, `raise` raises in the caller"""
        fnode, _src = source_ast(h)
        _norm_kw(fnode)
        body = self._body_of(fnode)

        def ret_in_loop(sts, inside):
            for x in sts:
                if isinstance(x, ast.Return) and inside:
                    return True
                if isinstance(x, ast.If) and (ret_in_loop(x.body, inside) or ret_in_loop(x.orelse, inside)):
                    return True
                if isinstance(x, ast.For) and ret_in_loop(x.body, True):
                    return True
            return False
        if ret_in_loop(body, False):
            raise Untranslatable("helper `%s` returns from inside a loop" % fnode.name)
        lines = []
        sc_c = self._callee_scope(fnode, call, scope, lines)
        pad = "  " * ind

        def cont(value, _s, i):
            ls, sc = self.bind_target(target, value, scope)
            return "".join("  " * i + l + "\n" for l in ls) + self.block(rest, sc, i, ctx)

        def end(_s, _i):
            raise Untranslatable("helper `%s` may fall off its end" % fnode.name)
        ctx2 = _Ctx(exit_=ctx.exit, end=end, brk=None)
        ctx2.inline_ret = cont
        saved = (getattr(self, "_globals", None), getattr(self, "_module", None))
        self._globals, self._module = h.__globals__, h.__module__
        try:
            text = self.block(body, sc_c, ind, ctx2)
        finally:
            self._globals, self._module = saved
        return "".join(pad + l + "\n" for l in lines) + text

    def top_ctx(self):
        def end(scope, ind):
            if self.r.end is None:
                raise Untranslatable("control reaches the end of the function without return/raise")
            return "  " * ind + self._fmt(self.r.end, scope)
        return _Ctx(exit_=lambda v, s, i: "  " * i + v, end=end)

    def function(self, fn, arg_names, ind=2, allow_unused=()):
        node, _src = source_ast(fn)
        f = getattr(fn, "__func__", fn)
        self._globals = getattr(f, "__globals__", {})
        self._module = getattr(f, "__module__", None)
        return self.function_node(node, arg_names, ind, allow_unused)

    def function_node(self, node, arg_names, ind=2, allow_unused=()):
        """as `Translator2.function`, on the AST of a def (attribute variables replaced, keywords sorted)"""
        if self.r.attr_vars:
            node = _AttrVars(self.r.attr_vars).visit(node)
            ast.fix_missing_locations(node)
        _norm_kw(node)
        a = node.args
        params = [x.arg for x in a.posonlyargs + a.args + a.kwonlyargs]
        if a.vararg:
            params.append(a.vararg.arg)
        if a.kwarg:
            params.append(a.kwarg.arg)
        mentioned = {n.id for st in node.body for n in ast.walk(st) if isinstance(n, ast.Name)}
        for p in params:
            if p not in arg_names and not (p in allow_unused and p not in mentioned):
                raise Untranslatable("signature of %s changed: %s" % (node.name, ast.unparse(node.args)))
        return self.block(list(node.body), dict(arg_names), ind, self.top_ctx())
