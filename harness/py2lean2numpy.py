"""py2lean2numpy — generic extensions of harness/py2lean2.py for NUMPY-HEAVY functions whose *plumbing* is translated
(a module of its own so that builders working on py2lean2.py at the same time are not disturbed; everything here is
independent of any property; first user: harness/trans_c11.py).  `TranslatorNP(RulesNP(...))` is a `Translator2` that
additionally translates

  `if` on a literal     a test that translates to `true` / `false` (a keyword the vocabulary fixes, e.g. `verbose`) keeps
                        the live arm only (the dead arm is not translated at all, it may be untranslatable);
  skip rules            statement patterns that are dropped (`self.precision = 0` "empty memory", logging);
  attribute variables   `attr_vars={"attr": "var"}`: `self.attr` is read and assigned as the python variable `var`
                        (object state passed in and handed back; the final value is available to `ret` / `end`);
  `ret` / `end`         templates are formatted with the current Lean names of the python variables: `{e}` is the
                        returned expression, `{name}` a python variable (the final value of a mutated parameter);
                        expr- and stmt-rule templates may mention python variables as well;
  keyword arguments     are matched in any order (patterns and source are normalised by sorting them);
  subscript stores      `a[i] = v`, `a[i:j, k:l] += v`, `_, a[i] = f(..)` go through stmt rules (as in Translator2; the
                        receiver is rebound), tuple targets included;
  true division         `a / b`  ->  `({a} / {b})`  (exact: the vocabulary's scalars are rationals);
  string constants      through `RulesNP.strings` ({python string: lean term}); a string not listed is untranslatable;
  float constants       through `RulesNP.float_` (template with {n} {d}: the exact decimal value as a fraction);
  x is None             `({x}).isNone` / `({x}).isSome`  (a rule wins, as always);
  calls that may raise  an expr rule flagged "bind" (template : Option α) as the whole right-hand side of an assignment
                        (name or tuple target), and a stmt rule with a 4th element "bind" (template : Option of the
                        receiver's new value), become `match m with | none => <raise> | some x => <rest>` — also
                        inside loop bodies, where the raise leaves the loop through the exit flag (`RulesNP.unwrap`
                        = (failure pattern, success pattern with {x})).
"""
import ast

from .py2lean2 import Rules2, Translator2, _Ctx, _proj, Untranslatable, source_ast, match, _pat  # noqa: F401


def _norm_kw(node):
    for n in ast.walk(node):
        if isinstance(n, ast.Call) and n.keywords:
            n.keywords.sort(key=lambda k: (k.arg is None, k.arg or ""))
    return node


class RulesNP(Rules2):
    def __init__(self, expr=(), stmt=(), skip=(), attr_vars=None, strings=None, float_=None,
                 unwrap=("none", "some {x}"), **kw):
        binop = {ast.Div: "({a} / {b})"}
        binop.update(kw.pop("binop", None) or {})
        stmt = list(stmt)
        self.stmt_flag = [(st[3] if len(st) > 3 else "") for st in stmt]
        Rules2.__init__(self, expr=expr, stmt=[tuple(st[:3]) for st in stmt], binop=binop, **kw)
        self.unwrap = unwrap
        self.skip = [_pat(p, "stmt") for p in skip]
        self.attr_vars = dict(attr_vars or {})
        self.strings = dict(strings or {})
        self.float_ = float_
        for p, _t, _f in self.expr:
            _norm_kw(p)
        for p, _r, _t in self.stmt:
            _norm_kw(p)
        for p in self.skip:
            _norm_kw(p)


class _AttrVars(ast.NodeTransformer):
    def __init__(self, table):
        self.table = table

    def visit_Attribute(self, node):
        self.generic_visit(node)
        if isinstance(node.value, ast.Name) and node.value.id == "self" and node.attr in self.table:
            return ast.copy_location(ast.Name(id=self.table[node.attr], ctx=node.ctx), node)
        return node


def _literal(text):
    t = text.strip()
    for _ in range(8):
        if t.startswith("(") and t.endswith(")") and t[1:-1].strip() in ("true", "false", "!true", "!false"):
            t = t[1:-1].strip()
        if t == "!true":
            t = "false"
        if t == "!false":
            t = "true"
    return True if t == "true" else False if t == "false" else None


class TranslatorNP(Translator2):
    @staticmethod
    def fresh(name, scope):
        base = name.replace("_", "") or "u"
        if base[0].isdigit():
            base = "u" + base
        used = set(scope.values())
        k, cand = 0, base + "0"
        while cand in used:
            k += 1
            cand = "%s%d" % (base, k)
        return cand

    def _fmt(self, tmpl, scope, **kw):
        d = {k: v for k, v in scope.items() if k.isidentifier()}
        d.update(kw)
        try:
            return tmpl.format(**d)
        except (KeyError, IndexError) as e:
            raise Untranslatable("template %r needs the python variable %s" % (tmpl, e))

    # ------------------------------------------------------------------------------------------ expressions
    def expr(self, node, scope):
        for i, (pat, tmpl, flag) in enumerate(self.r.expr):
            env = {}
            if match(pat, node, env):
                self.used_rules.add(i)
                return self._fmt(tmpl, scope, **{k: self.pure(v, scope) for k, v in env.items()}), flag
        if (isinstance(node, ast.Compare) and len(node.ops) == 1 and isinstance(node.ops[0], (ast.Is, ast.IsNot))
                and isinstance(node.comparators[0], ast.Constant) and node.comparators[0].value is None):
            x = self.pure(node.left, scope)
            return "(%s).%s" % (x, "isSome" if isinstance(node.ops[0], ast.IsNot) else "isNone"), ""
        if isinstance(node, ast.Constant) and isinstance(node.value, str):
            if node.value in self.r.strings:
                return self.r.strings[node.value], ""
            raise Untranslatable("string constant %r" % node.value)
        if isinstance(node, ast.Constant) and isinstance(node.value, float) and self.r.float_:
            from fractions import Fraction
            f = Fraction(repr(node.value))
            return self.r.float_.format(n=f.numerator, d=f.denominator), ""
        return Translator2.expr(self, node, scope)

    # ------------------------------------------------------------------------------------------ statements
    def assigned_names(self, stmts):
        """names (re)bound by the statements, in order of first appearance (as Translator2, stmt rules with several
        receivers included)"""
        out = []

        def add(n):
            if n not in out:
                out.append(n)

        def tgt(t):
            if isinstance(t, ast.Name):
                add(t.id)
            elif isinstance(t, (ast.Tuple, ast.List)):
                for e in t.elts:
                    tgt(e)

        def walk(sts):
            for st in sts:
                matched = False
                for pat, recv, _t in self.r.stmt:
                    env = {}
                    if match(pat, st, env):
                        for r in (recv if isinstance(recv, (tuple, list)) else (recv,)):
                            if isinstance(env[r], ast.Name):
                                add(env[r].id)
                        matched = True
                        break
                if matched:
                    continue
                if isinstance(st, ast.Assign):
                    for t in st.targets:
                        tgt(t)
                elif isinstance(st, ast.AugAssign):
                    tgt(st.target)
                elif isinstance(st, ast.If):
                    walk(st.body)
                    walk(st.orelse)
                elif isinstance(st, ast.For):
                    tgt(st.target)
                    walk(st.body)
                elif isinstance(st, (ast.While, ast.With, ast.Try, ast.FunctionDef, ast.ClassDef)):
                    raise Untranslatable("statement form `%s`" % ast.unparse(st).splitlines()[0])
        walk(stmts)
        return out

    def loop(self, st, rest, scope, ind, ctx):
        targets = [n.id for n in ast.walk(st.target) if isinstance(n, ast.Name)]
        if any(t in scope for t in targets):
            item = "loop_item_%d" % len(scope)
            st2 = ast.For(target=ast.Name(id=item, ctx=ast.Store()), iter=st.iter,
                          body=[ast.Assign(targets=[st.target], value=ast.Name(id=item, ctx=ast.Load()))] + list(st.body),
                          orelse=st.orelse)
            ast.fix_missing_locations(st2)
            st = st2
        return Translator2.loop(self, st, rest, scope, ind, ctx)

    def _may_raise(self, st):
        """does the statement (sub-statements of `if` included, not of inner loops) hold a call that may raise:
        a stmt rule or a right-hand side flagged "bind"?"""
        for i, (pat, _r, _t) in enumerate(self.r.stmt):
            if match(pat, st, {}):
                return self.r.stmt_flag[i] == "bind"
        if isinstance(st, ast.Assign):
            for pat, _t, flag in self.r.expr:
                if match(pat, st.value, {}):
                    return flag == "bind"
        return False

    def _has(self, stmts, kinds, into_loops):
        raising = ast.Raise in (kinds if isinstance(kinds, tuple) else (kinds,))
        for st in stmts:
            if isinstance(st, kinds):
                return True
            if raising and self._may_raise(st):
                return True
            if isinstance(st, ast.If) and (self._has(st.body, kinds, into_loops) or
                                           self._has(st.orelse, kinds, into_loops)):
                return True
            if isinstance(st, ast.For) and into_loops and self._has(st.body, kinds, into_loops):
                return True
        return False

    def _unwrap(self, m, x, k, scope, ind, ctx):
        pad = "  " * ind
        fail_pat, ok_pat = self.r.unwrap
        ex = ctx.exit(self.r.raise_, scope, 0).strip()
        return "%smatch %s with\n%s| %s => %s\n%s| %s =>\n%s" % (pad, m, pad, fail_pat, ex, pad, ok_pat.format(x=x), k)

    def block(self, stmts, scope, ind, ctx):
        pad = "  " * ind
        if stmts:
            st, rest = stmts[0], stmts[1:]
            if isinstance(st, (ast.Import, ast.ImportFrom)):
                return self.block(rest, scope, ind, ctx)
            for pat in self.r.skip:
                if match(pat, st, {}):
                    return self.block(rest, scope, ind, ctx)
            if isinstance(st, ast.If):
                c = self.pure(st.test, scope)
                v = _literal(c)
                if v is not None:
                    return self.block(list(st.body if v else st.orelse) + rest, dict(scope), ind, ctx)
                a = self.block(list(st.body) + rest, dict(scope), ind + 1, ctx)
                b = self.block(list(st.orelse) + rest, dict(scope), ind + 1, ctx)
                return "%sif %s then\n%s\n%selse\n%s" % (pad, c, a, pad, b)
            if isinstance(st, ast.Return):
                if st.value is None:
                    if self.r.end is None:
                        raise Untranslatable("bare return")
                    return ctx.exit(self._fmt(self.r.end, scope), scope, ind)
                e, flag = self.expr(st.value, scope)
                return ctx.exit(e if flag == "bind" else self._fmt(self.r.ret, scope, e=e), scope, ind)
            for i, (pat, recv, tmpl) in enumerate(self.r.stmt):
                env = {}
                if match(pat, st, env):
                    self.used_rules.add(("s", i))
                    recvs = list(recv) if isinstance(recv, (tuple, list)) else [recv]
                    for r in recvs:
                        if not isinstance(env[r], ast.Name):
                            raise Untranslatable("in-place statement on a non-variable: `%s`" % ast.unparse(st))
                    vals = {}
                    for k_, v_ in env.items():
                        try:
                            vals[k_] = self.pure(v_, scope)
                        except Untranslatable:
                            if k_ not in recvs:
                                raise
                            vals[k_] = "<undefined %s>" % k_     # a receiver the statement defines: not readable yet
                    val = self._fmt(tmpl, scope, **vals)
                    sc = dict(scope)
                    if len(recvs) == 1:
                        new = self.fresh(env[recvs[0]].id, sc)
                        sc[env[recvs[0]].id] = new
                        lines = []
                    else:
                        new = self.fresh("p", sc)
                        sc["\0tmp" + new] = new
                        lines = []
                        for j, r in enumerate(recvs):
                            nm = self.fresh(env[r].id, sc)
                            sc[env[r].id] = nm
                            lines.append("let %s := %s" % (nm, _proj(new, j, len(recvs))))
                    if self.r.stmt_flag[i] == "bind":
                        k = "".join("  " * (ind + 1) + l + "\n" for l in lines) + self.block(rest, sc, ind + 1, ctx)
                        return self._unwrap(val, new, k, scope, ind, ctx)
                    return "%slet %s := %s\n%s%s" % (pad, new, val, "".join(pad + l + "\n" for l in lines),
                                                     self.block(rest, sc, ind, ctx))
            if isinstance(st, ast.Assign) and len(st.targets) == 1:
                e, flag = self.expr(st.value, scope)
                if flag == "bind":
                    p = self.fresh("p", scope)
                    sc = dict(scope)
                    sc["\0tmp" + p] = p
                    lines, sc = self.bind_target(st.targets[0], p, sc)
                    k = "".join("  " * (ind + 1) + l + "\n" for l in lines) + self.block(rest, sc, ind + 1, ctx)
                    return self._unwrap(e, p, k, scope, ind, ctx)
        return Translator2.block(self, stmts, scope, ind, ctx)

    def top_ctx(self):
        def end(scope, ind):
            if self.r.end is None:
                raise Untranslatable("control reaches the end of the function without return/raise")
            return "  " * ind + self._fmt(self.r.end, scope)
        return _Ctx(exit_=lambda v, s, i: "  " * i + v, end=end)

    def function(self, fn, arg_names, ind=2, allow_unused=()):
        node, _src = source_ast(fn)
        return self.function_node(node, arg_names, ind, allow_unused)

    def function_node(self, node, arg_names, ind=2, allow_unused=()):
        """as `Translator2.function`, on the AST of a def (attribute variables replaced, keywords sorted)"""
        if self.r.attr_vars:
            node = _AttrVars(self.r.attr_vars).visit(node)
            ast.fix_missing_locations(node)
        _norm_kw(node)
        a = node.args
        params = [x.arg for x in a.posonlyargs + a.args + a.kwonlyargs]
        if a.vararg:
            params.append(a.vararg.arg)
        if a.kwarg:
            params.append(a.kwarg.arg)
        mentioned = {n.id for st in node.body for n in ast.walk(st) if isinstance(n, ast.Name)}
        for p in params:
            if p not in arg_names and not (p in allow_unused and p not in mentioned):
                raise Untranslatable("signature of %s changed: %s" % (node.name, ast.unparse(node.args)))
        return self.block(list(node.body), dict(arg_names), ind, self.top_ctx())
