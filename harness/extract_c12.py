"""C12 — re-read the assembly routines of menpo/model/gmrf.py from the live source (DESIGN 2.3b).

What is extracted (every run, from the module that is actually imported, so MENPO_REPO is honoured):

* `_create_dense_precision`: per mode the sequence of `precision[v?_from:v?_to, v?_from:v?_to] (+=|=) <covmat part>`;
* `_create_sparse_precision`: per mode the sequence of `all_blocks[count] = <covmat part>; rows[count] = v?; columns[count] = v?`;
* the two diagonal constructors: the single block statement of their vertex loop;
* the `indptr` loop of both sparse constructors: the assignments of the empty and of the non-empty branch;
* `GMRFVectorModel.__init__`: which constructor is selected for (edgeless?, sparse?);
* `_covariance_matrix_inverse` and `GMRFVectorModel._mahalanobis_distance`: their token streams (comments and
  layout dropped), which the model transcribes as whole functions.

Anything the reader does not recognise becomes an entry that cannot equal the model's table, so the `decide`
obligation fails (a *broken obligation*, followed by the directed search) — the reader never raises.
"""
import ast
import inspect
import io
import textwrap
import tokenize

GEN_MODULE = "MenpoModel.Generated.C12Tables"
OBL_MODULE = "MenpoModel.GenProps.C12"
TARGETS = [GEN_MODULE, OBL_MODULE]
GEN_FILE = "MenpoModel/Generated/C12Tables.lean"
N_OBLIGATIONS = 12

NFPV = "n_features_per_vertex"


def _src(fn):
    return textwrap.dedent(inspect.getsource(fn))


def _tree(fn):
    return ast.parse(_src(fn)).body[0]


def token_stream(fn):
    out = []
    skip = {tokenize.COMMENT, tokenize.NL, tokenize.NEWLINE, tokenize.INDENT, tokenize.DEDENT, tokenize.ENDMARKER,
            tokenize.ENCODING}
    for tok in tokenize.generate_tokens(io.StringIO(_src(fn)).readline):
        if tok.type in skip:
            continue
        if tok.type == tokenize.STRING and (tok.string.startswith('"""') or tok.string.startswith("'''") or
                                            tok.string.startswith('r"""')):
            continue                                        # docstrings
        s = tok.string
        if tok.type == tokenize.STRING:
            s = '"' + s[1:-1] + '"' if s[0] in "'\"" else s
        out.append(s)
    return " ".join(out)


# ------------------------------------------------------------------------------- recognisers

def _vertex_of_slice(sl):
    """`v1_from:v1_to` -> 1, `v2_from:v2_to` -> 2, `i_from:i_to` -> 0"""
    if not isinstance(sl, ast.Slice) or sl.step is not None:
        return None
    lo, hi = sl.lower, sl.upper
    if not (isinstance(lo, ast.Name) and isinstance(hi, ast.Name)):
        return None
    for tag, v in (("v1", 1), ("v2", 2), ("i", 0)):
        if lo.id == tag + "_from" and hi.id == tag + "_to":
            return v
    return None


def _half(sl):
    """`:n_features_per_vertex` -> False, `n_features_per_vertex::` -> True"""
    if not isinstance(sl, ast.Slice):
        return None
    if sl.lower is None and isinstance(sl.upper, ast.Name) and sl.upper.id == NFPV and sl.step is None:
        return False
    if isinstance(sl.lower, ast.Name) and sl.lower.id == NFPV and sl.upper is None:
        return True
    return None


def _src_of(expr, inv_names=("covmat",)):
    """Lean `Src` term for the right-hand side, or None"""
    if isinstance(expr, ast.Name) and expr.id in inv_names:
        return ".full"
    if isinstance(expr, ast.UnaryOp) and isinstance(expr.op, ast.USub) and isinstance(expr.operand, ast.Name) \
            and expr.operand.id in inv_names:
        return ".negFull"
    if isinstance(expr, ast.Subscript) and isinstance(expr.value, ast.Name) and expr.value.id in inv_names:
        sl = expr.slice
        if isinstance(sl, ast.Tuple) and len(sl.elts) == 2:
            r, c = _half(sl.elts[0]), _half(sl.elts[1])
            if r is not None and c is not None:
                return ".part %s %s" % (str(r).lower(), str(c).lower())
    if isinstance(expr, ast.Call) and isinstance(expr.func, ast.Name) and expr.func.id == "_covariance_matrix_inverse" \
            and len(expr.args) == 2 and isinstance(expr.args[0], ast.Name) and expr.args[0].id == "covmat":
        return ".full"                                     # all_blocks[v] = _covariance_matrix_inverse(covmat, n_components)
    return None


BAD_D = "⟨.set, 99, 99, .full⟩"
BAD_T = "⟨99, 99, .full⟩"
BAD_I = "⟨99, .first⟩"


def _loops(fn_tree, var=None):
    return [n for n in ast.walk(fn_tree) if isinstance(n, ast.For) and isinstance(n.target, ast.Name) and
            (var is None or n.target.id == var)]


def _mode_branches(loop):
    """{'concatenation': stmts, 'subtraction': stmts} of the storing `if mode == …` in the edge loop (the last such
    `if` of the loop body: the first one selects the edge data)"""
    found = None
    for st in loop.body:
        if isinstance(st, ast.If) and isinstance(st.test, ast.Compare) and isinstance(st.test.left, ast.Name) \
                and st.test.left.id == "mode" and len(st.test.comparators) == 1 \
                and isinstance(st.test.comparators[0], ast.Constant):
            found = st
    if found is None:
        return None
    first = found.test.comparators[0].value
    other = found.orelse
    if len(other) == 1 and isinstance(other[0], ast.If):
        other = other[0].body
    names = {"concatenation": "subtraction", "subtraction": "concatenation"}
    if first not in names:
        return None
    return {first: found.body, names[first]: other}


def dense_table(stmts, target="precision"):
    out = []
    for st in stmts:
        if isinstance(st, ast.AugAssign) and isinstance(st.op, ast.Add):
            op, tgt, val = ".add", st.target, st.value
        elif isinstance(st, ast.Assign) and len(st.targets) == 1:
            op, tgt, val = ".set", st.targets[0], st.value
        else:
            if isinstance(st, ast.Expr) and isinstance(st.value, ast.Constant):
                continue
            out.append(BAD_D)
            continue
        if not (isinstance(tgt, ast.Subscript) and isinstance(tgt.value, ast.Name) and tgt.value.id == target):
            if isinstance(tgt, ast.Name):
                continue                                    # bookkeeping assignment to a local name
            out.append(BAD_D)
            continue
        sl = tgt.slice
        rv = cv = None
        if isinstance(sl, ast.Tuple) and len(sl.elts) == 2:
            rv, cv = _vertex_of_slice(sl.elts[0]), _vertex_of_slice(sl.elts[1])
        src = _src_of(val)
        if rv is None or cv is None or src is None:
            out.append(BAD_D)
        else:
            out.append("⟨%s, %d, %d, %s⟩" % (op, rv, cv, src))
    return out


def trip_table(stmts, index="count"):
    """groups `count += 1; all_blocks[count] = src; rows[count] = v?; columns[count] = v?`"""
    out, cur = [], None
    vmap = {"v1": 1, "v2": 2, "v": 0}

    def flush():
        nonlocal cur
        if cur is not None:
            if None in (cur.get("src"), cur.get("rows"), cur.get("columns")):
                out.append(BAD_T)
            else:
                out.append("⟨%d, %d, %s⟩" % (cur["rows"], cur["columns"], cur["src"]))
        cur = None

    for st in stmts:
        if isinstance(st, ast.AugAssign) and isinstance(st.target, ast.Name) and st.target.id == index \
                and isinstance(st.op, ast.Add) and isinstance(st.value, ast.Constant) and st.value.value == 1:
            flush()
            cur = {}
            continue
        if isinstance(st, ast.Assign) and len(st.targets) == 1 and isinstance(st.targets[0], ast.Subscript) \
                and isinstance(st.targets[0].value, ast.Name) and isinstance(st.targets[0].slice, ast.Name) \
                and st.targets[0].slice.id == index:
            arr = st.targets[0].value.id
            if cur is None:
                cur = {}
            if arr == "all_blocks":
                cur["src"] = _src_of(st.value)
            elif arr in ("rows", "columns") and isinstance(st.value, ast.Name) and st.value.id in vmap:
                cur[arr] = vmap[st.value.id]
            elif arr == "all_covariances":
                pass
            else:
                cur["src"] = None
                out.append(BAD_T)
            continue
        if isinstance(st, ast.Expr) and isinstance(st.value, ast.Constant):
            continue
        out.append(BAD_T)
    flush()
    return out


def diag_statements(fn_tree):
    """the block statements of the vertex loop of a diagonal constructor (everything that stores into `precision`,
    `all_blocks`, `rows`, `columns`)"""
    loops = _loops(fn_tree, "v")
    if len(loops) != 1:
        return None
    keep = []
    for st in loops[0].body:
        tgt = None
        if isinstance(st, ast.Assign) and len(st.targets) == 1:
            tgt = st.targets[0]
        elif isinstance(st, ast.AugAssign):
            tgt = st.target
        if isinstance(tgt, ast.Subscript) and isinstance(tgt.value, ast.Name) and tgt.value.id in (
                "precision", "all_blocks", "rows", "columns"):
            keep.append(st)
    return keep


def indptr_tables(fn_tree):
    """(empty-branch assignments, non-empty-branch assignments) of the `for i in range(n_rows)` loop"""
    loops = _loops(fn_tree, "i")
    if len(loops) != 1:
        return None
    body = loops[0].body
    # (inds,) = np.where(rows == i)
    if not (len(body) == 2 and isinstance(body[0], ast.Assign) and
            ast.unparse(body[0]).replace(" ", "") in ("(inds,)=np.where(rows==i)", "inds,=np.where(rows==i)")):
        return None
    cond = body[1]
    if not (isinstance(cond, ast.If) and ast.unparse(cond.test).replace(" ", "") == "inds.size==0"):
        return None

    def asgs(stmts):
        out = []
        for st in stmts:
            ok = isinstance(st, ast.Assign) and len(st.targets) == 1 and isinstance(st.targets[0], ast.Subscript) \
                and isinstance(st.targets[0].value, ast.Name) and st.targets[0].value.id == "indptr"
            if not ok:
                out.append(BAD_I)
                continue
            off = _i_offset(st.targets[0].slice)
            val = _ival(st.value)
            out.append(BAD_I if off is None or val is None else "⟨%d, %s⟩" % (off, val))
        return out

    return asgs(cond.body), asgs(cond.orelse)


def _i_offset(e):
    if isinstance(e, ast.Name) and e.id == "i":
        return 0
    if isinstance(e, ast.BinOp) and isinstance(e.op, ast.Add) and isinstance(e.left, ast.Name) and e.left.id == "i" \
            and isinstance(e.right, ast.Constant) and isinstance(e.right.value, int) and e.right.value >= 0:
        return e.right.value
    return None


def _ival(e):
    txt = ast.unparse(e).replace(" ", "")
    if isinstance(e, ast.Subscript) and isinstance(e.value, ast.Name) and e.value.id == "indptr":
        off = _i_offset(e.slice)
        return None if off is None else ".ipAt %d" % off
    if txt == "inds[0]":
        return ".first"
    if txt == "inds[-1]":
        return ".lastPlus 0"
    if isinstance(e, ast.BinOp) and isinstance(e.op, ast.Add) and ast.unparse(e.left).replace(" ", "") == "inds[-1]" \
            and isinstance(e.right, ast.Constant) and isinstance(e.right.value, int) and e.right.value >= 0:
        return ".lastPlus %d" % e.right.value
    return None


def dispatch_table(init_tree):
    """[(edgeless, sparse, ctor)] read off `if self.graph.n_edges == 0: if self.sparse: constructor = … else: …`"""
    names = {"_create_sparse_diagonal_precision": ".sparseDiag", "_create_dense_diagonal_precision": ".denseDiag",
             "_create_sparse_precision": ".sparseEdges", "_create_dense_precision": ".denseEdges"}

    def ctor(stmts):
        if len(stmts) != 1 or not isinstance(stmts[0], ast.Assign):
            return None
        v = stmts[0].value
        if isinstance(v, ast.Call) and isinstance(v.func, ast.Name) and v.func.id == "partial" and v.args:
            v = v.args[0]
        return names.get(v.id) if isinstance(v, ast.Name) else None

    for st in init_tree.body:
        if isinstance(st, ast.If) and ast.unparse(st.test).replace(" ", "") == "self.graph.n_edges==0":
            rows = []
            for edgeless, branch in ((True, st.body), (False, st.orelse)):
                if len(branch) != 1 or not isinstance(branch[0], ast.If) or \
                        ast.unparse(branch[0].test).replace(" ", "") != "self.sparse":
                    return None
                for sparse, sub in ((True, branch[0].body), (False, branch[0].orelse)):
                    c = ctor(sub)
                    if c is None:
                        return None
                    rows.append((edgeless, sparse, c))
            return rows
    return None


# ------------------------------------------------------------------------------- the generated file

def extract():
    """dict of Lean terms; never raises"""
    from menpo.model import gmrf
    out = {}

    def guard(key, bad, f):
        try:
            v = f()
        except Exception:
            v = None
        out[key] = bad if v is None else v

    def dense_mode(mode):
        loops = _loops(_tree(gmrf._create_dense_precision), "e")
        br = _mode_branches(loops[0]) if len(loops) == 1 else None
        return None if br is None else dense_table(br[mode])

    def trip_mode(mode):
        loops = _loops(_tree(gmrf._create_sparse_precision), "e")
        br = _mode_branches(loops[0]) if len(loops) == 1 else None
        return None if br is None else trip_table(br[mode])

    guard("denseConcat", [BAD_D], lambda: dense_mode("concatenation"))
    guard("denseSub", [BAD_D], lambda: dense_mode("subtraction"))
    guard("tripConcat", [BAD_T], lambda: trip_mode("concatenation"))
    guard("tripSub", [BAD_T], lambda: trip_mode("subtraction"))

    def diag_dense():
        sts = diag_statements(_tree(gmrf._create_dense_diagonal_precision))
        return None if sts is None else dense_table(sts)

    def diag_trip():
        sts = diag_statements(_tree(gmrf._create_sparse_diagonal_precision))
        return None if sts is None else trip_table(sts, index="v")

    guard("diagDense", [BAD_D], diag_dense)
    guard("diagTrip", [BAD_T], diag_trip)
    for key, fn in (("indptrEdges", "_create_sparse_precision"), ("indptrDiag", "_create_sparse_diagonal_precision")):
        try:
            t = indptr_tables(_tree(getattr(gmrf, fn)))
        except Exception:
            t = None
        out[key + "Empty"], out[key + "Some"] = t if t is not None else ([BAD_I], [BAD_I])

    def disp():
        return dispatch_table(_tree(gmrf.GMRFVectorModel.__init__))

    guard("dispatch", [], disp)
    for key, fn in (("covInverseSrc", lambda: gmrf._covariance_matrix_inverse),
                    ("mahalanobisSrc", lambda: gmrf.GMRFVectorModel._mahalanobis_distance)):
        try:
            out[key] = token_stream(fn())
        except Exception:
            out[key] = "unreadable"
    return out


def lean_string(s):
    return '"' + s.replace("\\", "\\\\").replace('"', '\\"') + '"'


def lean_files():
    t = extract()
    lst = lambda xs: "[" + ", ".join(xs) + "]"
    disp = lst("(%s, %s, %s)" % (str(a).lower(), str(b).lower(), c) for a, b, c in t["dispatch"])
    body = """/-
GENERATED by harness/extract_c12.py from the live source of menpo/model/gmrf.py on every run of ./check C12.
Do not edit.  Obligations over these tables: MenpoModel/GenProps/C12.lean.
-/
import MenpoModel.Core.C12Table

namespace MenpoModel.Generated.C12
open MenpoModel.C12

def denseConcat : List DStmt := %s
def denseSub : List DStmt := %s
def tripConcat : List TStmt := %s
def tripSub : List TStmt := %s
def diagDense : List DStmt := %s
def diagTrip : List TStmt := %s
def indptrEdgesEmpty : List IAsg := %s
def indptrEdgesSome : List IAsg := %s
def indptrDiagEmpty : List IAsg := %s
def indptrDiagSome : List IAsg := %s
def dispatch : List (Bool × Bool × Ctor) := %s
def covInverseSrc : String :=
  %s
def mahalanobisSrc : String :=
  %s

end MenpoModel.Generated.C12
""" % (lst(t["denseConcat"]), lst(t["denseSub"]), lst(t["tripConcat"]), lst(t["tripSub"]), lst(t["diagDense"]),
       lst(t["diagTrip"]), lst(t["indptrEdgesEmpty"]), lst(t["indptrEdgesSome"]), lst(t["indptrDiagEmpty"]),
       lst(t["indptrDiagSome"]), disp, lean_string(t["covInverseSrc"]), lean_string(t["mahalanobisSrc"]))
    return {GEN_FILE: body}


if __name__ == "__main__":
    import sys
    sys.path.insert(0, "/repo")
    for k, v in extract().items():
        print(k, "=", v)
