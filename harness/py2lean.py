"""py2lean — a small translator from the *source text* of menpo functions to Lean 4 definitions.

This is the first of the two ties the brief allows ("the model is regenerated from the source on every run by a
translator you write, so that the theorems are re-checked against what the code says now").  It is used for
functions whose body is *decision logic over a fixed vocabulary* (isinstance ladders, option / length guards,
setter state machines): the function is read with `inspect.getsource` from the live module of the current working
tree, parsed with `ast`, and rewritten statement by statement into a Lean term over the vocabulary of the
hand-written Core model.  A `GenProps` file then states `translated = Core.model` (for all arguments) and the
proof is re-checked by `lake build` on every run.

The translator is deliberately partial: every Python expression / statement must match one of the *rules* of the
property (Python pattern with `$metavariables` -> Lean template) or one of the few generic forms below.  Anything
else raises `Untranslatable`, which the caller records as a broken obligation (the source now says something the
model has no words for), never as an infrastructure error.

Supported statement forms (a function body is a list of them):
    if / elif / else                      ->  if c then .. else ..      (the continuation is copied into both arms)
    x = <expr>                            ->  let x := ..   (or a monadic bind when the rule is marked `bind`)
    <stmt matching a `stmt` rule>         ->  let x := ..   (in-place method call = rebinding of the receiver)
    return <expr>                         ->  `ret` template (default: the expression itself)
    raise <Exc>(...)                      ->  `raise` template
    docstrings / pass                     ->  dropped
Generic expression forms: names (through `names`), `a and b`, `a or b`, `not a`, comparison chains of translated
operands, integer / boolean / None constants; everything else goes through the rules.
"""
import ast
import inspect
import textwrap


class Untranslatable(Exception):
    pass


def source_ast(fn):
    """AST of a live function / method / property setter (decorators stripped by ast itself)"""
    src = textwrap.dedent(inspect.getsource(fn))
    mod = ast.parse(src)
    node = mod.body[0]
    if not isinstance(node, (ast.FunctionDef, ast.AsyncFunctionDef)):
        raise Untranslatable("not a function: %r" % (fn,))
    return node, src


def _pat(text, mode):
    node = ast.parse(text.replace("$", "MV_"), mode="exec").body[0]
    if mode == "expr":
        if not isinstance(node, ast.Expr):
            raise ValueError("not an expression pattern: " + text)
        return node.value
    return node


def match(pat, node, env):
    """structural unification of a pattern AST (names starting with MV_ are metavariables) with a node"""
    if isinstance(pat, ast.Name) and pat.id.startswith("MV_"):
        k = pat.id[3:]
        if k in env:
            return ast.dump(env[k]) == ast.dump(node)
        env[k] = node
        return True
    if type(pat) is not type(node):
        return False
    for f in pat._fields:
        if f in ("ctx", "type_comment", "lineno", "col_offset", "end_lineno", "end_col_offset", "kind"):
            continue
        a, b = getattr(pat, f, None), getattr(node, f, None)
        if isinstance(a, list):
            if not isinstance(b, list) or len(a) != len(b):
                return False
            for x, y in zip(a, b):
                if isinstance(x, ast.AST):
                    if not match(x, y, env):
                        return False
                elif x != y:
                    return False
        elif isinstance(a, ast.AST):
            if not isinstance(b, ast.AST) or not match(a, b, env):
                return False
        elif a != b:
            return False
    return True


class Rules:
    """expr rules: (python pattern, lean template[, flags]); stmt rules: (python pattern, receiver metavariable,
    lean template for its new value).  Templates use {name} for the translated metavariable."""

    def __init__(self, expr=(), stmt=(), names=None, ret="{e}", raise_="none", bind=None):
        self.expr = [(_pat(p, "expr"), t, (fl[0] if fl else "")) for p, t, *fl in expr]
        self.stmt = [(_pat(p, "stmt"), recv, t) for p, recv, t in stmt]
        self.names = dict(names or {})
        self.ret = ret
        self.raise_ = raise_
        self.bind = bind or "({m}).bind fun {x} =>\n{k}"


CMP = {ast.Lt: "<", ast.LtE: "≤", ast.Gt: ">", ast.GtE: "≥", ast.Eq: "==", ast.NotEq: "!="}


class Translator:
    def __init__(self, rules):
        self.r = rules
        self.used_rules = set()

    # ---------------------------------------------------------------- expressions
    def expr(self, node, scope):
        for i, (pat, tmpl, flag) in enumerate(self.r.expr):
            env = {}
            if match(pat, node, env):
                self.used_rules.add(i)
                return tmpl.format(**{k: self.pure(v, scope) for k, v in env.items()}), flag
        if isinstance(node, ast.Name):
            if node.id in scope:
                return scope[node.id], ""
            if node.id in self.r.names:
                return self.r.names[node.id], ""
            raise Untranslatable("unknown name %r" % node.id)
        if isinstance(node, ast.BoolOp):
            op = " && " if isinstance(node.op, ast.And) else " || "
            return "(" + op.join(self.pure(v, scope) for v in node.values) + ")", ""
        if isinstance(node, ast.UnaryOp) and isinstance(node.op, ast.Not):
            return "(!" + self.pure(node.operand, scope) + ")", ""
        if isinstance(node, ast.Compare):
            parts, left = [], node.left
            for op, right in zip(node.ops, node.comparators):
                if type(op) not in CMP:
                    raise Untranslatable("comparison " + ast.dump(op))
                parts.append("decide (%s %s %s)" % (self.pure(left, scope), CMP[type(op)], self.pure(right, scope))
                             if type(op) not in (ast.Eq, ast.NotEq) else
                             "(%s %s %s)" % (self.pure(left, scope), CMP[type(op)], self.pure(right, scope)))
                left = right
            return "(" + " && ".join(parts) + ")", ""
        if isinstance(node, ast.Constant):
            if node.value is True:
                return "true", ""
            if node.value is False:
                return "false", ""
            if node.value is None:
                return "none", ""
            if isinstance(node.value, int):
                return "(%d)" % node.value, ""
        raise Untranslatable("no rule for expression `%s`" % ast.unparse(node))

    def pure(self, node, scope):
        e, flag = self.expr(node, scope)
        if flag == "bind":
            raise Untranslatable("monadic expression used as a pure operand: `%s`" % ast.unparse(node))
        return e

    # ---------------------------------------------------------------- statements
    def block(self, stmts, scope, ind):
        pad = "  " * ind
        if not stmts:
            raise Untranslatable("control reaches the end of the function without return/raise")
        st, rest = stmts[0], stmts[1:]
        if isinstance(st, ast.Expr) and isinstance(st.value, ast.Constant) and isinstance(st.value.value, str):
            return self.block(rest, scope, ind)
        if isinstance(st, ast.Pass):
            return self.block(rest, scope, ind)
        if isinstance(st, ast.If):
            c = self.pure(st.test, scope)
            a = self.block(list(st.body) + rest, dict(scope), ind + 1)
            b = self.block(list(st.orelse) + rest, dict(scope), ind + 1)
            return "%sif %s then\n%s\n%selse\n%s" % (pad, c, a, pad, b)
        if isinstance(st, ast.Return):
            if st.value is None:
                raise Untranslatable("bare return")
            e, flag = self.expr(st.value, scope)
            return pad + (e if flag == "bind" else self.r.ret.format(e=e))
        if isinstance(st, ast.Raise):
            return pad + self.r.raise_
        for i, (pat, recv, tmpl) in enumerate(self.r.stmt):
            env = {}
            if match(pat, st, env):
                self.used_rules.add(("s", i))
                target = env[recv]
                if not isinstance(target, ast.Name):
                    raise Untranslatable("in-place call on a non-variable: `%s`" % ast.unparse(st))
                val = tmpl.format(**{k: self.pure(v, scope) for k, v in env.items()})
                new = self.fresh(target.id, scope)
                sc = dict(scope)
                sc[target.id] = new
                return "%slet %s := %s\n%s" % (pad, new, val, self.block(rest, sc, ind))
        if isinstance(st, ast.Assign) and len(st.targets) == 1 and isinstance(st.targets[0], ast.Name):
            name = st.targets[0].id
            e, flag = self.expr(st.value, scope)
            new = self.fresh(name, scope)
            sc = dict(scope)
            sc[name] = new
            k = self.block(rest, sc, ind + (1 if flag == "bind" else 0))
            if flag == "bind":
                return pad + self.r.bind.format(m=e, x=new, k=k)
            return "%slet %s := %s\n%s" % (pad, new, e, k)
        raise Untranslatable("no rule for statement `%s`" % ast.unparse(st).splitlines()[0])

    @staticmethod
    def fresh(name, scope):
        base = name.replace("_", "")
        used = set(scope.values())
        k, cand = 0, base + "0"
        while cand in used:
            k += 1
            cand = "%s%d" % (base, k)
        return cand

    def function(self, fn, arg_names, ind=2):
        """Lean term for the body of `fn`; `arg_names`: python parameter -> lean variable"""
        node, src = source_ast(fn)
        params = [a.arg for a in node.args.args]
        missing = [p for p in params if p not in arg_names]
        if missing or node.args.vararg or node.args.kwarg or node.args.kwonlyargs:
            raise Untranslatable("signature of %s changed: %s" % (node.name, ast.unparse(node.args)))
        return self.block(list(node.body), dict(arg_names), ind)
