"""C01 — the Python-level plumbing of menpo/image/base.py, masked.py, boolean.py, interpolation.py and
menpo/transform/compositions.py TRANSLATED from the source text of the current working tree into Lean
(`Generated/C01Src.lean`) on every run; `GenProps/C01Src*.lean` prove every translated definition equal to the
hand-written Core definition the C01 theorems are about (the plan of the operation executed through the funnel).

harness/py2lean2.py + py2lean2w.py + py2lean2c.py + py2lean2n.py are the translator; this file is the C01 vocabulary: which numpy /
menpo expression stands for which operation of `Core/C01Src.lean`.  Conventions:
  * an image object is `Obj` (class tag, pixels = shape + list of channels, mask, landmark points, path); a method of
    Image is translated once and works on the three classes; `self.method(...)` of a method that the subclasses
    override (`warp_to_shape`, `warp_to_mask`, `sample`, `_build_warp_to_mask`) is a `match` on the class tag whose arms
    are the suppliers the LIVE classes resolve to, every arm normalised against the signature (and the defaults) of
    its own supplier;
  * a function that may raise returns `Except PyExc _`; `return_transform` packs the result as `Ret.img` / `Ret.pair`;
  * numpy vectors of length n_dims are `Vec` (arithmetic componentwise, integer literals broadcast), tuples of ints
    `IVec`; an array of points indexed by the template pixels is a function `Vec → Vec`, sampled values `Vec → Rat`;
  * a transform object is `TObj` (class by its pseudoinverse supplier + matrix, or an opaque pair apply / inverse);
  * library code stays vocabulary: scipy `map_coordinates` (`mapCoordinates`, orders 2-5 a contract parameter `spl`),
    `np.sqrt` (`sqrtF`), `gaussian_filter` (`kern`), `Rotation.init_from_2d_ccw_angle` (cos / sin are the argument),
    `PointCloud.bounds / range`, `AlignmentUniformScale`.
"""
import os

from . import py2lean2n as P

GEN_REL = os.path.join("MenpoModel", "Generated", "C01Src.lean")
GEN_REL3 = os.path.join("MenpoModel", "Generated", "C01Src3.lean")
GEN_TARGETS = ["MenpoModel.Generated.C01Src", "MenpoModel.GenProps.C01Src", "MenpoModel.GenProps.C01SrcProps",
               "MenpoModel.GenProps.C01SrcConstrain", "MenpoModel.Generated.C01Src3", "MenpoModel.GenProps.C01Src3",
               "MenpoModel.GenProps.C01Src3Props"]
# the n-D functions translated a second time, from the same source text, over the 3-D vocabulary (Core/C01Src3.lean)
KEYS3 = ["scipy_interpolation", "Image.sample", "BooleanImage.sample", "MaskedImage.sample", "Image._build_warp_to_shape",
         "Image.warp_to_shape", "BooleanImage.warp_to_shape", "MaskedImage.warp_to_shape", "round_image_shape", "Image.centre",
         "Image.constrain_points_to_bounds", "transform_about_centre", "scale_about_centre", "Image.crop",
         "Image.crop_to_pointcloud", "Image.crop_to_landmarks", "Image.crop_to_pointcloud_proportion",
         "Image.crop_to_landmarks_proportion", "Image.rescale", "Image.resize", "Image.zoom", "Image.mirror", "Image.pyramid"]
OBLIGATIONS3 = [
    "genScipyInterpolation_eq", "genImageSample_eq", "genBooleanSample_eq", "genMaskedSample_eq", "genBuildWarpToShape_eq",
    "genImageWarpToShape_eq", "genBooleanWarpToShape_eq", "genMaskedWarpToShape_eq", "genRoundImageShape_eq", "genCentre_eq",
    "genConstrainPointsToBounds_eq", "genTransformAboutCentreT_fam", "genScaleAboutCentre_eq", "genZoom_eq", "genMirror_neg",
    "genMirror_eq", "genRescale_seq_eq", "genRescale_scalar_eq", "genRescale_short", "genResize_eq", "genCrop_eq",
    "genCropToPointcloud_eq", "genCropToLandmarks_eq", "genCropToPointcloudProportion_eq",
    "genCropToLandmarksProportion_eq", "genPyramid_eq", "genRescale3_registered", "genResize3_registered",
    "genZoom3_registered", "genMirror3_registered", "genCrop3_exact",
]
# one obligation per theorem of GenProps/C01Src.lean that states what a translated definition is equal to (for all
# arguments), plus the theorems of GenProps/C01SrcProps.lean that speak about translated entry points
OBLIGATIONS = [
    "genScipyInterpolation_eq", "genImageSample_eq", "genBooleanSample_eq", "genMaskedSample_eq", "sample_dispatch",
    "genBuildWarpToShape_eq", "genImageWarpToShape_eq", "genBooleanWarpToShape_eq", "genMaskedWarpToShape_eq",
    "warp_dispatch", "genImageBuildWarpToMask_eq", "genImageWarpToMask_eq", "genMaskedWarpToMask_eq",
    "genBooleanWarpToMask_eq", "genRoundImageShape_eq", "genRoundImageShape_bad", "genCentre_eq",
    "genConstrainPointsToBounds_eq", "genTransformAboutCentreT_fam", "genScaleAboutCentre_eq", "genZoom_eq",
    "genMirror_neg", "genMirror_eq", "genRescale_seq_eq", "genRescale_scalar_eq", "genRescale_short", "genDiagonal_eq",
    "genRescaleToDiagonal_eq", "genRescaleToPointcloud_eq", "genRescaleLandmarksToDiagonalRange_eq", "genResize_eq",
    "genCrop_eq", "genCropToPointcloud_eq", "genCropToLandmarks_eq", "genCropToPointcloudProportion_eq",
    "genCropToLandmarksProportion_eq", "genBoundsTrue_eq", "genCropToTrueMask_eq", "genTransformAboutCentre_eq",
    "genRotateCcwAboutCentre_eq", "genPyramid_eq", "genGaussianPyramid_eq", "stepObj_refines", "stepGaussObj_refines",
    "genPyramid_levels", "genGaussianPyramid_levels", "genPyramid_zero",
    "genRescale_registered", "genResize_registered", "genRescaleToDiagonal_registered", "genZoom_registered",
    "genMirror_registered", "genTransformAboutCentre_registered", "genRotateCcwAboutCentre_registered", "genCrop_exact",
    "genCropToLandmarks_exact", "genCropToLandmarksProportion_exact", "genCropToTrueMask_exact", "genPyramid_steps",
    "genConstrainLandmarksToBounds_eq", "genConstrainToPointcloud_eq", "genConstrainToLandmarks_eq",
    "genConstrainMaskToLandmarks_eq",
]
N_OBLIGATIONS = len(OBLIGATIONS) + len(OBLIGATIONS3)
N_DEFINITIONS = 41
N_DEFINITIONS3 = len(KEYS3)

RAISE = {"ValueError": "(Except.error PyExc.valueErr)", "ImageBoundaryError": "(Except.error PyExc.boundaryErr)",
         "TypeError": "(Except.error PyExc.typeErr)"}
UNWRAP = (".error e", "(Except.error e)", ".ok {x}")
CATCH = {"TypeError": ".error .typeErr"}

# Lean type of a python parameter (by name; the same names recur in every signature)
TYPES = {
    "self": "Obj", "obj": "Obj", "template_shape": "IVec", "transform": "TObj", "warp_landmarks": "Bool",
    "order": "Nat", "mode": "String", "cval": "Rat", "batch_size": "Option Nat", "return_transform": "Bool",
    "points_to_sample": "PtArr", "pixels": "Pixels", "min_indices": "Vec", "max_indices": "Vec",
    "constrain_to_boundary": "Bool", "pointcloud": "List Vec", "boundary": "Rat", "group": "Option String",
    "boundary_proportion": "Rat", "minimum": "Bool", "round": "String", "diagonal": "Rat", "diagonal_range": "Rat",
    "theta": "Rat × Rat", "degrees": "Bool", "retain_shape": "Bool", "axis": "Int", "n_levels": "Int",
    "downscale": "Rat", "sigma": "Option Rat", "template_mask": "Obj", "sampled_pixel_values": "Sampled",
    "warped_pixels": "Pixels", "points": "Vec", "verify_mask": "Bool", "constrain_to_bounds": "Bool",
    "point_in_pointcloud": "String",
}
CTX_TYPES = {"spl": "Spl", "sqrtF": "Rat → Rat", "kern": "Rat → List Rat", "inside": "PipFn → List Vec → Vec → Bool"}


def lname(p):
    return {"self": "slf", "end": "end_"}.get(p, p.replace("_", ""))


# ---------------------------------------------------------------------------------------------- common vocabulary

COMMON = [
    ("$x.n_dims", "ndims"),
    ("$o.shape", "(shapeOf {o})"),
    ("$o.n_channels", "(nChannels {o})"),
    ("$o.pixels", "(pixelsOf {o})"),
    ("$o.has_landmarks", "(hasLandmarks {o})"),
    ("hasattr($o, 'path')", "(hasPath {o})"),
    ("np.array($x, dtype=int)", "{x}"),
    ("np.array($x, dtype=float)", "(IVec.toV {x})"),
    ("np.array($x, dtype=np.double)", "(IVec.toV {x})"),
    ("np.array($x)", "(IVec.toV {x})"),
    ("np.asarray($x, dtype=float)", "{x}"),
    ("np.floor($x)", "(vfloor {x})"),
    ("np.ceil($x)", "(vceil {x})"),
    ("$x.size", "(vsize {x})"),
    ("np.all($a > $b)", "(vallGt {a} {b})"),
    ("np.all($a < $b)", "(vallGt {b} {a})"),
    ("np.all($a == $b)", "(vallEq {a} {b})"),
    ("$x.astype(int)", "(vtrunc {x})"),
    ("$x.copy()", "{x}"),
    ("tuple($x)", "{x}"),
    ("Translation($x, skip_checks=True)", "(TObj.translation {x})"),
    ("Translation($x)", "(TObj.translation {x})"),
    ("NonUniformScale($x)", "(TObj.nonUniformScale {x})"),
    ("UniformScale($s, $n, skip_checks=True)", "(TObj.uniformScale {s})"),
    ("Rotation($m, skip_checks=True)", "(TObj.rotation {m})"),
    ("$t.pseudoinverse()", "(TObj.pinv {t})"),
    ("$a.compose_before($b)", "(TObj.composeBefore {a} {b})"),
    ("isinstance($t, Homogeneous)", "(TObj.isHomogeneous {t})"),
    ("$p.bounds(boundary=$b)", "(boundsOf {p} {b})"),
    ("$p.bounds()[0]", "(boundsOf {p} 0).1"),
    ("$p.range()", "(rangeOf {p})"),
    ("$o.landmarks[$g]", "(lmGroup {o} {g})"),
    ("$o.mask", "(maskObj {o})"),
    ("range($n)", "(pyRange {n})"),
    ("$x ** 2", "({x} * {x})"),
]
COMMON_STMT = [
    ("$s[np.isnan($s)] = 0", "s", "{s}"),
    ("$w.landmarks = $s.landmarks", "w", "(setLandmarks {w} (landmarksOf {s}))"),
    ("$t.pseudoinverse()._apply_inplace($w.landmarks)", "w", "(mapLandmarks {w} (TObj.pinv {t}))"),
    ("$w.path = $s.path", "w", "(setPath {w} (pathOf {s}))"),
    ("$w.mask = $m", "w", "(setMask {w} {m})"),
]
BINOP = {P.ast.Div: "({a} / {b})"}


PROJ = ("return_transform", "(Except.map Ret.obj {call})")
CVAL = {"cval": "(PyNum.num {x})"}


class Fn:
    """one translated function: python function, Lean name, the python parameters the Lean definition takes, contract
    parameters, return type, ret template, extra rules"""

    def __init__(self, key, fn, lean, params, ctx=(), ret_type="Ret", monadic=True, ret=None, expr=(), stmt=(),
                 skip=(), allow_unused=(), coerce=None, proj=None, end=None, types=None, yield_init="[]", extra_names=None,
                 binop_extra=None, iter_names=None, alias=()):
        self.key, self.fn, self.lean, self.params, self.ctx = key, fn, lean, list(params), list(ctx)
        self.ret_type, self.monadic = ret_type, monadic
        self.ret = ret if ret is not None else ("(Except.ok (ToRet.toRet {e}))" if ret_type == "Ret" else
                                                 "(Except.ok {e})" if monadic else "{e}")
        self.expr, self.stmt, self.skip = list(expr), list(stmt), list(skip)
        self.allow_unused = tuple(allow_unused)
        self.types = dict(TYPES)
        self.types.update(types or {})
        self.end = end
        self.yield_init = yield_init
        self.extra_names = dict(extra_names or {})
        self.binop_extra = dict(binop_extra or {})
        self.iter_names = dict(iter_names or {})
        self.alias = list(alias)
        if proj is None and ret_type == "Ret" and "return_transform" in self.params:
            proj = PROJ
        self.callee = P.Callee(fn, lean, self.params[:], ctx=self.ctx, coerce=coerce, monadic=monadic, proj=proj)

    def signature(self):
        b = " ".join("(%s : %s)" % (c, CTX_TYPES[c]) for c in self.ctx)
        b += (" " if b else "") + " ".join("(%s : %s)" % (lname(p), self.types[p]) for p in self.params)
        rt = "Except PyExc (%s)" % self.ret_type if self.monadic else self.ret_type
        return "def %s %s : %s :=" % (self.lean, b, rt)





def build():
    """the table of translated functions (needs the live menpo of the working tree)"""
    import menpo.image.base as B
    import menpo.image.masked as M
    import menpo.image.boolean as Bo
    import menpo.image.interpolation as I
    import menpo.transform.compositions as C
    Image, MaskedImage, BooleanImage = B.Image, M.MaskedImage, Bo.BooleanImage
    F = {}
    order = []

    def add(key, *a, **kw):
        F[key] = Fn(key, *a, **kw)
        order.append(key)
        return F[key]

    if B.cv2_perspective_interpolation is not None:
        cv2_name = None       # the cv2 fast path is live: not modelled
    else:
        cv2_name = "none"

    WARP_PARAMS = ["self", "template_shape", "transform", "warp_landmarks", "order", "mode", "cval", "batch_size",
                   "return_transform"]
    MASK_PARAMS = ["self", "template_mask", "transform", "warp_landmarks", "order", "mode", "cval", "batch_size",
                   "return_transform"]
    SAMPLE_PARAMS = ["self", "points_to_sample", "order", "mode", "cval"]

    # ---- the sampler
    add("scipy_interpolation", I.scipy_interpolation, "genScipyInterpolation",
        ["pixels", "points_to_sample", "mode", "order", "cval"], ctx=["spl"], ret_type="Sampled", monadic=False,
        coerce=CVAL,
        expr=[("np.empty(($n, $m), dtype=$p.dtype)", "(emptySampled {n} (Pixels.isBool {p}))"),
              ("points_to_sample.shape[0]", "(nPointsOf {points_to_sample})"),
              ("$p.shape[0]", "(nChannelsP {p})"), ("$p.T", "{p}")],
        stmt=[("map_coordinates($px[$i], $pts, mode=$m, order=$o, cval=$c, output=$out[$i])", "out",
               "(setSampled {out} {i} (mapCoordinates spl (Sampled.isBool {out}) (channel {px} {i}) {pts} {m} {o} {c}))")],
        skip=["from scipy.ndimage import map_coordinates"])
    add("Image.sample", Image.sample, "genImageSample", SAMPLE_PARAMS, ctx=["spl"], ret_type="Sampled",
        coerce=CVAL,
        expr=[("isinstance($p, PointCloud)", "false"), ("$p.points", "{p}")])
    add("BooleanImage.sample", BooleanImage.sample, "genBooleanSample", ["self", "points_to_sample", "mode", "cval"],
        ctx=["spl"], ret_type="Sampled", coerce=CVAL, allow_unused=("kwargs",))
    add("MaskedImage.sample", MaskedImage.sample, "genMaskedSample", SAMPLE_PARAMS + ["verify_mask"], ctx=["spl"],
        ret_type="Sampled", coerce=CVAL,
        expr=[("np.all($m)", "(sampledAllTrue {m})")],
        types={"verify_mask": "Bool"})
    RAISE_LOCAL = dict(RAISE)
    RAISE_LOCAL["OutOfMaskSampleError"] = "(Except.error PyExc.valueErr)"
    F["MaskedImage.sample"].raise_by = RAISE_LOCAL
    # ---- the funnel
    add("Image._build_warp_to_shape", Image._build_warp_to_shape, "genBuildWarpToShape",
        ["self", "warped_pixels", "transform", "warp_landmarks", "return_transform"],
        expr=[("Image($p, copy=False)", "(newImage {p})")])
    add("Image.warp_to_shape", Image.warp_to_shape, "genImageWarpToShape", WARP_PARAMS, ctx=["spl"], proj=PROJ,
        coerce=CVAL,
        expr=[("$o in range(2)", "(decide ({o} < 2))"),
              ("cv2_perspective_interpolation($p, $s, $t, order=$o, mode=$m, cval=$c)", "(cv2Warp {p} {s} {t})"),
              ("indices_for_image_of_shape($s)", "(indicesForImageOfShape {s})"),
              ("$t.apply($pts, batch_size=$b)", "(applyPts {t} {pts} {b})"),
              ("$s.reshape((self.n_channels,) + tuple($shape))", "(reshapeSampled {s} {shape})")],
        extra_names={"cv2_perspective_interpolation": cv2_name})
    add("BooleanImage.warp_to_shape", BooleanImage.warp_to_shape, "genBooleanWarpToShape",
        ["self", "template_shape", "transform", "warp_landmarks", "mode", "cval", "batch_size", "return_transform"],
        ctx=["spl"], proj=PROJ, coerce=CVAL, allow_unused=("order",),
        expr=[("BooleanImage($w.pixels.reshape($s))", "(newBoolean (pixelsOf {w}))")])
    add("MaskedImage.warp_to_shape", MaskedImage.warp_to_shape, "genMaskedWarpToShape", WARP_PARAMS, ctx=["spl"],
        proj=PROJ, coerce=CVAL,
        expr=[("$w.as_masked(mask=$m, copy=False)", "(asMasked {w} {m})")])
    # ---- warp_to_mask
    add("Image._build_warp_to_mask", Image._build_warp_to_mask, "genImageBuildWarpToMask",
        ["self", "template_mask", "sampled_pixel_values"], ret_type="Obj", monadic=False,
        expr=[("MaskedImage.init_blank($s, n_channels=$n, mask=$m)", "(maskedBlank {m} {n})"),
              ("$s.ravel()", "{s}")],
        stmt=[("$w._from_vector_inplace($v)", "w", "(fromSampledMasked {w} {v})")],
        skip=["from menpo.image import MaskedImage"])
    add("BooleanImage._build_warp_to_mask", BooleanImage._build_warp_to_mask, "genBooleanBuildWarpToMask",
        ["self", "template_mask", "sampled_pixel_values"], ret_type="Obj", monadic=False, allow_unused=("kwargs",),
        expr=[("$w.all_true()", "(allTrue {w})"), ("$s.reshape((1,) + $sh)", "{s}")],
        stmt=[("$w.pixels = $s", "w", "(setPixelsSampled {w} {s})"),
              ("$w.pixels[:, $w.mask] = $s", "w", "(fromSampledMasked {w} {s})")])
    add("Image.warp_to_mask", Image.warp_to_mask, "genImageWarpToMask", MASK_PARAMS, ctx=["spl"], proj=PROJ,
        coerce=CVAL,
        expr=[("$m.true_indices()", "(trueIndexPts {m})"),
              ("$t.apply($pts, batch_size=$b)", "(applyPts {t} {pts} {b})")])
    add("BooleanImage.warp_to_mask", BooleanImage.warp_to_mask, "genBooleanWarpToMask",
        ["self", "template_mask", "transform", "warp_landmarks", "mode", "cval", "batch_size", "return_transform"],
        ctx=["spl"], proj=PROJ, coerce=CVAL)
    add("MaskedImage.warp_to_mask", MaskedImage.warp_to_mask, "genMaskedWarpToMask", MASK_PARAMS, ctx=["spl"],
        proj=PROJ, coerce=CVAL)
    # ---- helpers
    add("round_image_shape", B.round_image_shape, "genRoundImageShape", ["shape", "round"], ret_type="IVec",
        types={"shape": "Vec"},
        expr=[("getattr(np, $r)($x).astype(int)", "(roundVec {r} {x})")])
    add("Image.centre", Image.centre, "genCentre", ["self"], ret_type="Vec", monadic=False)
    add("Image.diagonal", Image.diagonal, "genDiagonal", ["self"], ctx=["sqrtF"], ret_type="Rat", monadic=False,
        expr=[("np.sqrt($x)", "(sqrtF {x})"), ("np.sum($x)", "(vsum {x})")])
    add("Image.constrain_points_to_bounds", Image.constrain_points_to_bounds, "genConstrainPointsToBounds",
        ["self", "points"], ret_type="Vec", monadic=False, ret="(AsVec.vec {e})",
        # `points.copy()` is a value of type `Owned Vec`, and only an owned array may be updated in place: a dropped copy
        # (the caller's array updated in place) does not type-check
        expr=[("$x.copy()", "(Owned.mk {x})"), ("$x < 0", "(vltZero (AsVec.vec {x}))")],
        stmt=[("$b[$m] = $s[$m]", "b", "(Owned.vwhere {m} {s} {b})"), ("$b[$m] = $v", "b", "(Owned.vwhere {m} {v} {b})")])
    # ---- compositions
    add("transform_about_centre", C.transform_about_centre, "genTransformAboutCentreT", ["obj", "transform"],
        ret_type="TObj", monadic=False,
        expr=[("reduce(lambda a, b: a.compose_before(b), [$x, $y, $z])", "(TObj.chain3 {x} {y} {z})")])
    add("scale_about_centre", C.scale_about_centre, "genScaleAboutCentre", ["obj", "scale"], ret_type="TObj",
        monadic=False, types={"scale": "Rat"})
    # ---- the crop family
    add("Image.crop", Image.crop, "genCrop", ["self", "min_indices", "max_indices", "constrain_to_boundary",
                                              "return_transform"], ctx=["spl"],
        expr=[("zip($a, $b)", "(vzip {a} {b})"), ("slice($a, $b)", "({a}, {b})"),
              ("$o.pixels[(slice(None),) + $b]", "(pixelBlock {o} {b})")],
        stmt=[("$c.pixels[...] = $v", "c", "(setPixelValues {c} {v})")],
        # `result` is what warp_to_shape returned (the image, or (image, transform)); seen as an image it is `Ret.obj`:
        # `result[0]` when the transform was asked for, `result` itself when not — both are VIEWS of `result`
        alias=[("$r[0]", "r", "(Ret.obj {y})", "(Ret.withObj {y} {v})"),
               ("result", "=result", "(Ret.obj {y})", "(Ret.withObj {y} {v})")],
        ret="(Except.ok {e})")
    add("Image.crop_to_pointcloud", Image.crop_to_pointcloud, "genCropToPointcloud",
        ["self", "pointcloud", "boundary", "constrain_to_boundary", "return_transform"], ctx=["spl"])
    add("Image.crop_to_landmarks", Image.crop_to_landmarks, "genCropToLandmarks",
        ["self", "group", "boundary", "constrain_to_boundary", "return_transform"], ctx=["spl"])
    add("Image.crop_to_pointcloud_proportion", Image.crop_to_pointcloud_proportion, "genCropToPointcloudProportion",
        ["self", "pointcloud", "boundary_proportion", "minimum", "constrain_to_boundary", "return_transform"],
        ctx=["spl"], expr=[("np.min($x)", "(vmin {x})"), ("np.max($x)", "(vmax {x})")])
    add("Image.crop_to_landmarks_proportion", Image.crop_to_landmarks_proportion, "genCropToLandmarksProportion",
        ["self", "boundary_proportion", "group", "minimum", "constrain_to_boundary", "return_transform"], ctx=["spl"])
    add("BooleanImage.bounds_true", BooleanImage.bounds_true, "genBoundsTrue", ["self", "boundary", "constrain_to_bounds"],
        ret_type="Vec × Vec",
        expr=[("$s.true_indices()", "(trueIndexList {s})"), ("np.max($m, axis=0)", "colMax {m}", "bind"),
              ("np.min($m, axis=0)", "colMin {m}", "bind")])
    add("MaskedImage.crop_to_true_mask", MaskedImage.crop_to_true_mask, "genCropToTrueMask",
        ["self", "boundary", "constrain_to_boundary", "return_transform"], ctx=["spl"])
    # ---- the rescale family
    add("Image.rescale", Image.rescale, "genRescale", ["self", "scale", "round", "order", "warp_landmarks",
                                                       "return_transform"], ctx=["spl"],
        types={"scale": "ScaleArg"}, coerce={"scale": "(ToScaleArg.conv {x})"},
        expr=[("len(scale)", "pyLenScale {scale}", "bind"), ("[$x] * $n", "(ScaleArg.rep {x} {n})"),
              ("np.asarray($x)", "(ScaleArg.toVec {x})"), ("$s <= 0", "(decide ({s} ≤ 0))"),
              ("$t.apply(self.shape)", "(TObj.applyVec {t} (IVec.toV (shapeOf {self})))")])
    add("Image.rescale_to_diagonal", Image.rescale_to_diagonal, "genRescaleToDiagonal",
        ["self", "diagonal", "round", "warp_landmarks", "return_transform"], ctx=["spl", "sqrtF"])
    add("Image.rescale_to_pointcloud", Image.rescale_to_pointcloud, "genRescaleToPointcloud",
        ["self", "pointcloud", "group", "round", "order", "warp_landmarks", "return_transform"], ctx=["spl", "sqrtF"],
        expr=[("AlignmentUniformScale($a, $b).as_vector()[0]", "(alignmentUniformScale sqrtF {a} {b})")])
    add("Image.rescale_landmarks_to_diagonal_range", Image.rescale_landmarks_to_diagonal_range,
        "genRescaleLandmarksToDiagonalRange",
        ["self", "diagonal_range", "group", "round", "order", "warp_landmarks", "return_transform"], ctx=["spl", "sqrtF"],
        expr=[("np.sqrt($x)", "(sqrtF {x})")])
    add("Image.resize", Image.resize, "genResize", ["self", "shape", "order", "warp_landmarks", "return_transform"],
        ctx=["spl"], types={"shape": "Vec"},
        expr=[("len($x)", "(vsize {x})"), ("$a / self.shape", "({a} / IVec.toV (shapeOf {self}))")])
    # ---- zoom, rotate, transform about the centre, mirror
    add("Image.zoom", Image.zoom, "genZoom", ["self", "scale", "order", "warp_landmarks", "return_transform"],
        ctx=["spl"], types={"scale": "Rat"}, expr=[("1.0 / $x", "pyRecip {x}", "bind")])
    add("Image.transform_about_centre", Image.transform_about_centre, "genTransformAboutCentre",
        ["self", "transform", "retain_shape", "mode", "cval", "round", "order", "warp_landmarks", "return_transform"],
        ctx=["spl"],
        expr=[("bounding_box((0, 0), $b)", "(boundingBox 0 {b})"), ("$t.apply($pts)", "(TObj.applyList {t} {pts})")])
    add("Image.rotate_ccw_about_centre", Image.rotate_ccw_about_centre, "genRotateCcwAboutCentre",
        ["self", "theta", "degrees", "retain_shape", "mode", "cval", "round", "order", "warp_landmarks",
         "return_transform"], ctx=["spl"],
        expr=[("Rotation.init_from_2d_ccw_angle($t, degrees=$d)", "(TObj.rotationOfCosSin {t})")])
    add("Image.mirror", Image.mirror, "genMirror", ["self", "axis", "order", "warp_landmarks", "return_transform"],
        ctx=["spl"],
        expr=[("np.eye($n)", "Mat.eye"), ("np.zeros($n)", "(0 : Vec)"), ("$o.shape[$k]", "(IVec.get (shapeOf {o}) {k})")],
        stmt=[("$m[$i, $j] = $v", "m", "(Mat.set {m} {i} {j} {v})"), ("$v[$i] = $x", "v", "(Vec.set {v} {i} (PyNum.num {x}))")])
    # ---- the pyramids
    add("Image.pyramid", Image.pyramid, "genPyramid", ["self", "n_levels", "downscale"], ctx=["spl"],
        ret_type="List Obj", ret="(Except.ok {e})", expr=[("1.0 / $x", "pyRecip {x}", "bind")],
        yield_init="([] : List Obj)")
    add("Image.gaussian_pyramid", Image.gaussian_pyramid, "genGaussianPyramid", ["self", "n_levels", "downscale", "sigma"],
        ctx=["spl", "kern"], ret_type="List Obj", ret="(Except.ok {e})",
        expr=[("1.0 / $x", "pyRecip {x}", "bind"), ("gaussian_filter($im, $s)", "(gaussianFilter kern {im} {s})"),
              ("sigma is None", "(Option.isNone {sigma})"), ("$a / 3.0", "(some ({a} / 3))")],
        skip=["from menpo.feature import gaussian_filter"], yield_init="([] : List Obj)")

    # ---- operations that change landmarks / the mask in place, without resampling or re-framing
    add("Image.constrain_landmarks_to_bounds", Image.constrain_landmarks_to_bounds, "genConstrainLandmarksToBounds", ["self"],
        ret_type="Obj", monadic=False, end="{self}",
        expr=[("self.landmarks[$g]", "(lmGroup {self} {g})"), ("$l.points.shape[1]", "ndims"),
              ("$l.points[:, $k]", "(column {l} {k})"), ("$o.shape[$k]", "(IVec.get (shapeOf {o}) {k})")],
        stmt=[("$t[$t < 0] = 0", "t", "(clampLow {t})"), ("$t[$t > $b] = $b", "t", "(clampHigh {t} (PyNum.num {b}))"),
              ("$l.points[:, $k] = $v", "l", "(setColumn {l} {k} {v})"),
              ("self.landmarks[$g] = $l", "=self", "(setLmGroup {self} {g} {l})")],
        skip=["warn($m, $c)"], iter_names={"self.landmarks": "(groupNames {self})"})
    add("BooleanImage.constrain_to_pointcloud", BooleanImage.constrain_to_pointcloud, "genConstrainToPointcloud",
        ["self", "pointcloud", "batch_size", "point_in_pointcloud"], ctx=["inside"], ret_type="Obj",
        expr=[("partial(pwa_point_in_pointcloud, batch_size=batch_size)", "PipFn.pwa"), ("callable($x)", "false"),
              ("$p.bounds()", "(boundsOf {p} 0)"), ("$c.indices()", "(allIndices {c})"),
              ("$i[$i[:, $k] >= $b, :]", "(filterGe {i} {k} {b})"), ("$i[$i[:, $k] <= $b, :]", "(filterLe {i} {k} {b})"),
              ("$l[$a][$k]", "(IVec.get (List.getD {l} {a} ⟨0, 0⟩) {k})"), ("slice($a, $b)", "({a}, {b})"),
              ("point_in_pointcloud($p, $i)", "(applyPip inside {point_in_pointcloud} {p} {i})")],
        stmt=[("$c.pixels[:] = False", "c", "(clearPixels {c})"),
              ("$c.pixels[$s].flat = $v", "c", "(assignFlat {c} {s} {v})")],
        extra_names={"convex_hull_point_in_pointcloud": "PipFn.hull"}, binop_extra={P.ast.Add: "(PyAdd.add {a} {b})"})
    add("BooleanImage.constrain_to_landmarks", BooleanImage.constrain_to_landmarks, "genConstrainToLandmarks",
        ["self", "group", "batch_size"], ctx=["inside"], ret_type="Obj")
    add("MaskedImage.constrain_mask_to_landmarks", MaskedImage.constrain_mask_to_landmarks, "genConstrainMaskToLandmarks",
        ["self", "group", "batch_size", "point_in_pointcloud"], ctx=["inside"], ret_type="Obj")

    # ---- call sites
    def disp(name):
        arms = []
        for pat, cls, cname in ((".image", Image, "Image"), (".masked", MaskedImage, "MaskedImage"),
                                (".boolean", BooleanImage, "BooleanImage")):
            f = getattr(cls, name, None)
            hit = [v.callee for v in F.values() if v.fn is f]
            arms.append((pat, hit[0] if hit else None))
        return ("({r}).cls", arms)

    def same(name):
        """a method no subclass overrides (checked on the live classes): a static call"""
        fs = {getattr(c, name, None) for c in (Image, MaskedImage, BooleanImage)}
        hit = [v.callee for v in F.values() if fs == {v.fn}]
        if not hit:
            return dict(dispatch=disp(name))
        return dict(callee=hit[0])

    calls = []
    for nm in ("warp_to_shape", "warp_to_mask", "sample", "_build_warp_to_mask", "_build_warp_to_shape", "rescale", "crop",
               "crop_to_pointcloud", "crop_to_pointcloud_proportion", "transform_about_centre", "constrain_points_to_bounds",
               "centre", "diagonal"):
        calls.append(P.CallRule("$r.%s" % nm, recv="receiver", **same(nm)))
    for cname, cls in (("Image", Image),):
        for nm in ("warp_to_shape", "warp_to_mask", "sample"):
            calls.insert(0, P.CallRule("%s.%s" % (cname, nm), callee=F["%s.%s" % (cname, nm)].callee, recv="first"))
    calls.insert(0, P.CallRule("$r.bounds_true", callee=F["BooleanImage.bounds_true"].callee, recv="receiver"))
    calls.insert(0, P.CallRule("$r.constrain_to_pointcloud", callee=F["BooleanImage.constrain_to_pointcloud"].callee,
                               recv="receiver"))
    calls.insert(0, P.CallRule("$r.mask.constrain_to_pointcloud", callee=F["BooleanImage.constrain_to_pointcloud"].callee,
                               recv="(maskObj {r})"))
    # `self.mask` of a MaskedImage is a BooleanImage (class invariant): its methods are BooleanImage's
    for nm in ("warp_to_shape", "sample"):
        calls.insert(0, P.CallRule("$r.mask.%s" % nm, callee=F["BooleanImage.%s" % nm].callee, recv="(maskObj {r})"))
    for nm in ("scipy_interpolation", "round_image_shape", "transform_about_centre", "scale_about_centre"):
        calls.append(P.CallRule(nm, callee=F[nm].callee))
    return F, order, calls


def rules_for(fn, calls):
    names = {k: v for k, v in fn.extra_names.items() if v is not None}
    binop = dict(BINOP)
    binop.update(fn.binop_extra)
    r = P.Rules2N(alias=fn.alias, inline_modules=("menpo.",), calls=calls, catch=CATCH, iter_wrap="(PyIter.iter {x})", yield_init=fn.yield_init,
                  expr=[(k, v) for k, v in fn.iter_names.items()] + fn.expr + COMMON, stmt=fn.stmt + COMMON_STMT,
                  skip=fn.skip, names=names, ret=fn.ret,
                  raise_=None, raise_by=getattr(fn, "raise_by", RAISE), end=fn.end, binop=binop, unwrap=UNWRAP)
    return r


def stub_of(fn):
    if fn.monadic:
        return "Except.error PyExc.typeErr"
    return {"Sampled": "[]", "Obj": "slf", "Vec": "0", "Rat": "0", "TObj": "TObj.other id id",
            "IVec": "⟨0, 0⟩"}.get(fn.ret_type, "default")


def items(keys=None):
    F, order, calls = build()
    out = []
    for key in order:
        if keys is not None and key not in keys:
            continue
        fn = F[key]

        def thunk(fn=fn):
            for k, v in fn.extra_names.items():
                if v is None:
                    raise P.Untranslatable("%s is live in this environment: that path is not modelled" % k)
            tr = P.Translator2N(rules_for(fn, calls))
            args = {p: lname(p) for p in fn.params}
            return tr.function(fn.fn, args, ind=1, allow_unused=fn.allow_unused)
        out.append((fn.signature(), thunk, "  " + stub_of(fn)))
    return out


HEADER = """/- TRANSLATED by harness/trans_c01.py (harness/py2lean2.py, py2lean2w.py, py2lean2c.py) from the SOURCE TEXT of
   menpo/image/base.py, masked.py, boolean.py, interpolation.py and menpo/transform/compositions.py of the current
   working tree on every run of `./check C01`; do not edit.
   GenProps/C01Src.lean proves every definition equal to the Core definition the C01 theorems are about. -/
import MenpoModel.Core.C01Src

set_option linter.unusedVariables false

namespace MenpoModel.C01.Gen
open MenpoModel.C01 MenpoModel.C01.Src
"""
FOOTER = "\nend MenpoModel.C01.Gen\n"


HEADER3 = """/- TRANSLATED by harness/trans_c01.py from the SAME SOURCE TEXT as Generated/C01Src.lean, over the 3-D vocabulary
   (Core/C01Src3.lean): the n-D functions of menpo/image/base.py, masked.py, boolean.py, interpolation.py and
   menpo/transform/compositions.py of the current working tree, on every run of `./check C01`; do not edit.
   GenProps/C01Src3.lean proves every definition equal to the 3-D plans executed through the funnel. -/
import MenpoModel.Core.C01Src3

set_option linter.unusedVariables false

namespace MenpoModel.C01Gen3
open MenpoModel.C01 hiding boundsOf rangeOf
open MenpoModel.C01.Src3
"""
FOOTER3 = "\nend MenpoModel.C01Gen3\n"


def translate():
    from . import py2lean2
    return py2lean2.translate_or_stub(items(), HEADER, FOOTER)


def translate3():
    from . import py2lean2
    return py2lean2.translate_or_stub(items(set(KEYS3)), HEADER3, FOOTER3)


def generated_files():
    text, reasons = translate()
    text3, reasons3 = translate3()
    return {GEN_REL: text, GEN_REL3: text3}, reasons + ["3-D: " + r for r in reasons3]


if __name__ == "__main__":
    import sys
    t, r = translate3() if "3" in sys.argv[1:] else translate()
    print(t)
    print("REASONS:", r)
