"""py2lean2c — generic extensions of harness/py2lean2w.py (a module of its own so that builders working on py2lean2.py /
py2lean2w.py at the same time are not disturbed; everything here is independent of any property; first user:
harness/trans_c01.py).

`Translator2C(Rules2C(...))` is a `Translator2W` that additionally translates

  calls with the callee's OWN signature   a call site `recv.method(a, k=b)` / `Class.method(self, a)` / `function(a)` whose
                       callee is itself a translated function is normalised against the callee's live signature: every
                       parameter of the callee is bound - positionally, by keyword, or by the SOURCE TEXT OF THE CALLEE'S
                       DEFAULT (so a changed default of the callee changes the translated caller) - and the Lean call
                       `leanName ctx… arg…` is emitted with the arguments in the order the Lean definition declares
                       (`Callee`).  A method call on a receiver whose class is not known statically is a `match` on the
                       receiver's class tag with one arm per class, each arm normalised against the method THAT class
                       resolves to (`CallRule(dispatch=…)`): defaults may differ between the overrides.
  result projection    a callee that returns `x` or `(x, extra)` depending on a Boolean parameter (`return_transform`):
                       when the normalised argument is the literal `false` the call is wrapped in `Callee.proj`.
  try / except         `try: BODY except E: HANDLER` (no else / finally / as, no `return` inside BODY) over a failure monad:
                       BODY becomes a term `.ok <carried variables>` / `<raise value>`; one `match` arm per handler
                       (`catch` maps the exception class to the Lean pattern of the failure), the statements after the
                       `try` are copied into every arm; a failure no handler names is re-raised.
  generators           a function containing `yield` returns the list of the yielded values (`yield v` appends to a hidden
                       list which the function returns at its end / at a bare `return`).
  constants            strings (Lean string literals), floats (`float_` template with {n} {d}: the exact decimal value).
  membership           `x in [a, b]` / `x not in (a, b)` / `x in {a, b}` on a literal list / tuple / set -> `List.contains`.
  generator expr.      `tuple(E for t in IT)` / `list(...)`: a generator expression is translated as the list
                       comprehension (the consumer goes through the rules).
  for over anything    `iter_wrap` (template with {x}) is applied to the iterable of every `for` loop and comprehension
                       (e.g. a type class turning a vector into the list of its components).
"""
import ast
import copy as _copy

from .py2lean2w import Rules2W, Translator2W, _norm_kw
from .py2lean2 import _Ctx, _proj, _tuple, Untranslatable, source_ast, match, _pat  # noqa: F401


class Callee:
    """a translated function as seen from its call sites.
    fn      : the live python function (its signature and defaults are read from its source);
    lean    : name of the Lean definition;
    params  : python parameter names the Lean definition takes, in the order of the Lean binders (after `ctx`);
              python parameters not listed are dropped at call sites (the callee must not mention them: declare them
              in `allow_unused` when translating it);
    ctx     : Lean terms passed first (contract parameters threaded through every call, e.g. `spl`);
    coerce  : {python parameter: template with {x}} applied to the translated argument;
    monadic : the Lean definition returns in the failure monad (the call is hoisted and unwrapped);
    proj    : (python parameter, template with {call}) - applied when that parameter is the literal `false`."""

    def __init__(self, fn, lean, params, ctx=(), coerce=None, monadic=True, proj=None):
        self.fn = fn
        self.lean = lean
        self.params = list(params)
        self.ctx = list(ctx)
        self.coerce = dict(coerce or {})
        self.monadic = monadic
        self.proj = proj
        self._sig = None

    def signature(self):
        """([python parameters in order], {parameter: default AST})"""
        if self._sig is None:
            node, _src = source_ast(self.fn)
            a = node.args
            if a.vararg or (a.kwarg and a.kwarg.arg not in ("kwargs",)):
                raise Untranslatable("callee %s takes *args" % node.name)
            pos = [x.arg for x in a.posonlyargs + a.args]
            kwo = [x.arg for x in a.kwonlyargs]
            dflt = {}
            pa = a.posonlyargs + a.args
            for p, d in zip(pa[len(pa) - len(a.defaults):], a.defaults):
                dflt[p.arg] = d
            for p, d in zip(a.kwonlyargs, a.kw_defaults):
                if d is not None:
                    dflt[p.arg] = d
            self._sig = (pos, kwo, dflt, bool(a.kwarg))
        return self._sig


class CallRule:
    """func    : python pattern of the called expression (`self.warp_to_shape`, `$r.rescale`, `Image.warp_to_shape`,
                 `scale_about_centre`);
    callee  : a Callee (static call), or
    dispatch: (template of the scrutinee with {r}, [(Lean pattern, Callee or None)]) - one arm per class; None = the class
              has no translated supplier (untranslatable);
    recv    : None (plain function), "receiver" (the callee's first parameter is the receiver expression `$r`, or `self`
              for `self.method`), "first" (explicit `Class.method(obj, …)`: the first positional argument), or a template
              with {r} applied to the translated receiver (`(maskOf {r})`)."""

    def __init__(self, func, callee=None, dispatch=None, recv=None):
        self.func = _pat(func, "expr")
        self.callee = callee
        self.dispatch = dispatch
        self.recv = recv


class Rules2C(Rules2W):
    def __init__(self, calls=(), catch=None, float_="(({n} : Rat) / {d})", iter_wrap=None, yield_init="[]",
                 try_ok="(Except.ok {x})", try_ok_pat=".ok {x}", try_other=(".error {e}", "(Except.error {e})"), **kw):
        Rules2W.__init__(self, **kw)
        self.calls = list(calls)
        self.catch = dict(catch or {})
        self.float_ = float_
        self.iter_wrap = iter_wrap
        self.yield_init = yield_init
        self.try_ok = try_ok
        self.try_ok_pat = try_ok_pat
        self.try_other = try_other


class _Yield(ast.NodeTransformer):
    """`yield v` -> `__out__ = __yield__(__out__, v)`; bare `return` -> `return __out__` (nested defs untouched)"""

    def visit_FunctionDef(self, node):
        return node

    def visit_Lambda(self, node):
        return node

    def visit_Expr(self, node):
        if isinstance(node.value, ast.Yield):
            v = node.value.value if node.value.value is not None else ast.Constant(value=None)
            return ast.copy_location(ast.Assign(
                targets=[ast.Name(id="__out__", ctx=ast.Store())],
                value=ast.Call(func=ast.Name(id="__yield__", ctx=ast.Load()),
                               args=[ast.Name(id="__out__", ctx=ast.Load()), v], keywords=[])), node)
        return node

    def visit_Return(self, node):
        if node.value is None:
            return ast.copy_location(ast.Return(value=ast.Name(id="__out__", ctx=ast.Load())), node)
        return node


def _has_yield(stmts):
    for st in stmts:
        for n in ast.walk(st):
            if isinstance(n, (ast.FunctionDef, ast.Lambda)) and n is not st:
                continue
            if isinstance(n, (ast.Yield, ast.YieldFrom)):
                return True
    return False


class Translator2C(Translator2W):
    # ------------------------------------------------------------------------------------------ expressions
    def expr(self, node, scope):
        for i, (pat, tmpl, flag) in enumerate(self.r.expr):     # a rule always wins
            env = {}
            if match(pat, node, env):
                self.used_rules.add(i)
                return self._fmt(tmpl, scope, **{k: self.pure(v, scope) for k, v in env.items()}), flag
        if isinstance(node, ast.Call):
            if isinstance(node.func, ast.Name) and node.func.id == "__yield__":
                return "(%s ++ [%s])" % (self.pure(node.args[0], scope), self.pure(node.args[1], scope)), ""
            if isinstance(node.func, ast.Name) and node.func.id == "__pyiter__":
                return self.r.iter_wrap.format(x=self.pure(node.args[0], scope)), ""
            for cr in self.r.calls:
                env = {}
                if match(cr.func, node.func, env):
                    return self.call(cr, env, node, scope)
        if isinstance(node, ast.Constant) and isinstance(node.value, str):
            return '"%s"' % node.value.replace("\\", "\\\\").replace('"', '\\"').replace("\n", "\\n"), ""
        if isinstance(node, ast.Constant) and isinstance(node.value, float) and self.r.float_:
            from fractions import Fraction
            f = Fraction(repr(node.value))
            return self.r.float_.format(n=f.numerator, d=f.denominator), ""
        if (isinstance(node, ast.Compare) and len(node.ops) == 1 and isinstance(node.ops[0], (ast.In, ast.NotIn))
                and isinstance(node.comparators[0], (ast.List, ast.Tuple, ast.Set))):
            x = self.pure(node.left, scope)
            lst = "[" + ", ".join(self.pure(e, scope) for e in node.comparators[0].elts) + "]"
            t = "(List.contains %s %s)" % (lst, x)
            return ("(!%s)" % t if isinstance(node.ops[0], ast.NotIn) else t), ""
        if isinstance(node, ast.GeneratorExp):
            return self.comprehension(node, scope, "list"), ""
        return Translator2W.expr(self, node, scope)

    def comprehension(self, node, scope, kind):
        if self.r.iter_wrap and len(node.generators) == 1:
            node = _copy.deepcopy(node)
            g = node.generators[0]
            g.iter = ast.Call(func=ast.Name(id="__pyiter__", ctx=ast.Load()), args=[g.iter], keywords=[])
        return Translator2W.comprehension(self, node, scope, kind)

    # ------------------------------------------------------------------------------------------ calls
    def _bind_args(self, callee, node, skip_first):
        pos, kwo, dflt, has_kwargs = callee.signature()
        pos = list(pos)
        actual = list(node.args)
        if any(isinstance(a, ast.Starred) for a in actual) or any(k.arg is None for k in node.keywords):
            raise Untranslatable("call with * / ** arguments: `%s`" % ast.unparse(node))
        bound = {}
        return pos, kwo, dflt, has_kwargs, actual, bound

    def _one_call(self, callee, recv_text, node, scope, recv_mode):
        """the Lean call text of `node` against `callee` (receiver already translated: recv_text or None)"""
        pos, kwo, dflt, has_kwargs, actual, bound = self._bind_args(callee, node, recv_mode)
        params = list(pos)
        texts = {}
        if recv_mode is not None:
            if not params:
                raise Untranslatable("callee %s has no receiver parameter" % callee.lean)
            first = params.pop(0)
            if recv_mode == "first":
                if not actual:
                    raise Untranslatable("explicit-class call without the object: `%s`" % ast.unparse(node))
                texts[first] = self.pure(actual.pop(0), scope)
            else:
                texts[first] = recv_text
        if len(actual) > len(params):
            raise Untranslatable("too many positional arguments for %s: `%s`" % (callee.lean, ast.unparse(node)))
        for p, a in zip(params, actual):
            bound[p] = a
        for k in node.keywords:
            if k.arg in bound or k.arg in texts:
                raise Untranslatable("argument %r given twice: `%s`" % (k.arg, ast.unparse(node)))
            if k.arg not in params and k.arg not in kwo:
                if has_kwargs:
                    continue                                     # swallowed by **kwargs of the callee
                raise Untranslatable("callee %s has no parameter %r: `%s`" % (callee.lean, k.arg, ast.unparse(node)))
            bound[k.arg] = k.value
        for p in callee.params:
            if p in texts:
                continue
            if p in bound:
                t = self.pure(bound[p], scope)
            elif p in dflt:
                t = self.pure(dflt[p], {})                      # the callee's default, read from its source
            else:
                raise Untranslatable("call of %s without its parameter %r: `%s`" % (callee.lean, p, ast.unparse(node)))
            texts[p] = t
        for p in list(params) + list(kwo):
            if p not in callee.params and p not in dflt and p not in bound:
                raise Untranslatable("call of %s without its parameter %r: `%s`" % (callee.lean, p, ast.unparse(node)))
        for p in callee.params:
            if p not in texts:
                raise Untranslatable("Lean definition %s declares %r, which %s does not take" % (callee.lean, p, callee.fn))
        args = []
        for p in callee.params:
            t = texts[p]
            if p in callee.coerce:
                t = callee.coerce[p].format(x=t)
            args.append(t)
        call = "(%s)" % " ".join([callee.lean] + list(callee.ctx) + args)
        if callee.proj is not None:
            pname, tmpl = callee.proj
            lit = texts.get(pname)
            if lit is None:
                lit = self.pure(bound[pname], scope) if pname in bound else (
                    self.pure(dflt[pname], {}) if pname in dflt else None)
            if lit is not None and lit.strip("() ") == "false":
                call = tmpl.format(call=call)
        return call

    def call(self, cr, env, node, scope):
        recv_text, recv_mode = None, None
        if cr.recv is not None:
            if cr.recv == "first":
                recv_mode = "first"
            else:
                recv_mode = "receiver"
                if "r" in env:
                    r = self.pure(env["r"], scope)
                elif isinstance(node.func, ast.Attribute):
                    r = self.pure(node.func.value, scope)
                else:
                    raise Untranslatable("call rule with a receiver on a plain call: `%s`" % ast.unparse(node))
                recv_text = r if cr.recv == "receiver" else cr.recv.format(r=r)
        if cr.callee is not None:
            return self._one_call(cr.callee, recv_text, node, scope, recv_mode), ("bind" if cr.callee.monadic else "")
        scrut_t, arms = cr.dispatch
        if recv_mode == "first":
            if not node.args:
                raise Untranslatable("explicit-class call without the object: `%s`" % ast.unparse(node))
            scrut = scrut_t.format(r=self.pure(node.args[0], scope))
        else:
            scrut = scrut_t.format(r=recv_text)
        texts, monadic = [], set()
        for lean_pat, callee in arms:
            if callee is None:
                raise Untranslatable("no translated supplier of `%s` for the class %s" % (ast.unparse(node.func), lean_pat))
            texts.append((lean_pat, self._one_call(callee, recv_text, node, scope, recv_mode)))
            monadic.add(bool(callee.monadic))
        if len(monadic) != 1:
            raise Untranslatable("suppliers of `%s` disagree on whether they may raise" % ast.unparse(node.func))
        flag = "bind" if monadic.pop() else ""
        if len({t for _p, t in texts}) == 1:
            return texts[0][1], flag
        return "(match %s with %s)" % (scrut, " ".join("| %s => %s" % (p, t) for p, t in texts)), flag

    # ------------------------------------------------------------------------------------------ statements
    def _may_raise(self, st):
        """also: a call that a call rule resolves to a callee that may raise"""
        if Translator2W._may_raise(self, st):
            return True
        for n in ast.walk(st):
            if isinstance(n, ast.Call):
                if any(match(pat, n, {}) for pat, _t, _f in self.r.expr):
                    continue
                for cr in self.r.calls:
                    if match(cr.func, n.func, {}):
                        callees = [cr.callee] if cr.callee is not None else [c for _p, c in cr.dispatch[1] if c is not None]
                        if any(c.monadic for c in callees):
                            return True
                        break
        return False

    def assigned_names(self, stmts):
        # `try` bodies and handlers are walked like `if` arms (Translator2W refuses ast.Try)
        flat = []

        def expand(sts):
            out = []
            for st in sts:
                if isinstance(st, ast.Try):
                    out += expand(st.body)
                    for h in st.handlers:
                        out += expand(h.body)
                else:
                    out.append(st)
            return out
        for st in expand(list(stmts)):
            flat.append(st)
        return Translator2W.assigned_names(self, flat)

    def _block1(self, stmts, scope, ind, ctx):
        if stmts:
            st, rest = stmts[0], stmts[1:]
            if isinstance(st, ast.Try):
                return self.try_stmt(st, rest, scope, ind, ctx)
            if isinstance(st, ast.For) and self.r.iter_wrap and not (
                    isinstance(st.iter, ast.Call) and isinstance(st.iter.func, ast.Name) and st.iter.func.id == "__pyiter__"):
                matched = any(match(pat, st, {}) for pat, _r, _t in self.r.stmt)
                if not matched:
                    st2 = _copy.copy(st)
                    st2.iter = ast.Call(func=ast.Name(id="__pyiter__", ctx=ast.Load()), args=[st.iter], keywords=[])
                    return Translator2W._block1(self, [st2] + list(rest), scope, ind, ctx)
            if (isinstance(st, ast.Assign) and len(st.targets) == 1
                    and not any(match(pat, st, {}) for pat, _r, _t in self.r.stmt)
                    and not any(match(pat, st, {}) for pat in self.r.skip)
                    and not any(match(pat, st, {}) for pat, _t in self.r.guard)):
                # one evaluation of the right-hand side (Translator2W translates a pure right-hand side twice, which
                # hoists its monadic operands twice); a monadic value may be bound to a tuple pattern
                e, flag = self.expr(st.value, scope)
                pad = "  " * ind
                if flag == "bind":
                    tmp = self.fresh("p", scope)
                    sc = dict(scope)
                    sc["\0tmp" + tmp] = tmp
                    if isinstance(st.targets[0], ast.Name):
                        tmp = self.fresh(st.targets[0].id, scope)
                        sc = dict(scope)
                        sc[st.targets[0].id] = tmp
                        lines = []
                    else:
                        lines, sc = self.bind_target(st.targets[0], tmp, sc)
                    k = "".join("  " * (ind + 1) + l + "\n" for l in lines) + self.block(list(rest), sc, ind + 1, ctx)
                    return self._unwrap(e, tmp, k, scope, ind, ctx)
                lines, sc = self.bind_target(st.targets[0], e, scope)
                return "".join(pad + l + "\n" for l in lines) + self.block(list(rest), sc, ind, ctx)
        return Translator2W._block1(self, stmts, scope, ind, ctx)

    def try_stmt(self, st, rest, scope, ind, ctx):
        pad = "  " * ind
        if st.orelse or st.finalbody:
            raise Untranslatable("try with else / finally")
        if self._has(st.body, (ast.Return,), True) or self._has(st.body, (ast.Break, ast.Continue), False):
            raise Untranslatable("return / break / continue inside a try body")
        pats = []
        for h in st.handlers:
            if h.name is not None or h.type is None:
                raise Untranslatable("except clause with `as` / without a class")
            names = [h.type] if not isinstance(h.type, ast.Tuple) else list(h.type.elts)
            for n in names:
                nm = n.id if isinstance(n, ast.Name) else n.attr if isinstance(n, ast.Attribute) else None
                if nm not in self.r.catch:
                    raise Untranslatable("except %s: no failure pattern for this class" % ast.unparse(n))
                pats.append((self.r.catch[nm], h))
        carried = [n for n in self.assigned_names(st.body) if n in scope]

        def state(scope_):
            return _tuple([scope_[c] for c in carried]) if carried else "()"

        inner = _Ctx(exit_=lambda v, s, i: "  " * i + v,
                     end=lambda s, i: "  " * i + self.r.try_ok.format(x=state(s)),
                     brk=None)
        body = self.block(list(st.body), dict(scope), ind + 2, inner)
        res = self.fresh("t", scope)
        sc_ok = dict(scope)
        sc_ok["\0tmp" + res] = res
        lines = []
        for k, c in enumerate(carried):
            new = self.fresh(c, sc_ok)
            sc_ok[c] = new
            lines.append("let %s := %s" % (new, _proj(res, k, len(carried))))
        p1 = "  " * (ind + 1)
        out = "%smatch (\n%s) with\n" % (pad, body)
        out += "%s| %s =>\n%s%s\n" % (pad, self.r.try_ok_pat.format(x=res), "".join(p1 + l + "\n" for l in lines),
                                      self.block(list(rest), sc_ok, ind + 1, ctx))
        for pat, h in pats:
            out += "%s| %s =>\n%s\n" % (pad, pat, self.block(list(h.body) + list(rest), dict(scope), ind + 1, ctx))
        e = self.fresh("e", scope)
        sc_e = dict(scope)
        sc_e["\0tmp" + e] = e
        out += "%s| %s => %s" % (pad, self.r.try_other[0].format(e=e),
                                 ctx.exit(self.r.try_other[1].format(e=e), sc_e, 0).strip())
        return out

    # ------------------------------------------------------------------------------------------ functions
    def function_node(self, node, arg_names, ind=2, allow_unused=()):
        if _has_yield(node.body):
            node = _copy.deepcopy(node)
            node.body = [_Yield().visit(s) for s in node.body]
            node.body = ([ast.Assign(targets=[ast.Name(id="__out__", ctx=ast.Store())],
                                     value=ast.Name(id="__yield_init__", ctx=ast.Load()))]
                         + node.body + [ast.Return(value=ast.Name(id="__out__", ctx=ast.Load()))])
            ast.fix_missing_locations(node)
            self.r.names.setdefault("__yield_init__", self.r.yield_init)
        return Translator2W.function_node(self, node, arg_names, ind, allow_unused)
