"""C18 — features agree on arrays and images and keep annotations attached (DESIGN.md section 6, C18).

Parties of every case
  implementation : the exported features of menpo.feature (gradient, gaussian_filter, igo, double_igo, es, daisy,
                   no_op, sum_channels, normalize, normalize_std/norm/var), compositions of them, and synthetic
                   array-level features decorated with the real `ndfeature` / `winitfeature` (the decorators are
                   generic in the wrapped function, so is the model);
  oracle         : the property text on the real objects — same values for image and raw array, input digest
                   unchanged, same masked-or-not kind, landmarks/mask unchanged or rescaled with the shape,
                   zero mean, result = centred / statistic (numpy float64 recomputation), unit std / unit norm,
                   idempotence, zero scale refused or skipped, finite values;
  Lean model     : `rebuild`, `rebuildCentres`, `normalizeV`, `normalizeImg`, `normalizeS` through the driver
                   (exact rationals in, exact rationals out).
"""
import json
import math
from fractions import Fraction as F

from . import common
from .common import fq, close

PROP = "C18"
INFO = dict(
    technique="Lean 4 proof (decorators ndfeature/imgfeature/winitfeature and rebuild_feature_image generically over "
              "every array-level feature; the normalisers over Q with the scale statistic as a contract parameter; "
              "buffer-level frame theorem for 'never modifies its input') + model/implementation correspondence and "
              "an independent property oracle on every exported feature that imports in this environment",
    level_text="Theorems over an executable model of menpo/feature/base.py and menpo.feature.normalize: for EVERY "
               "array-level feature f the decorated call on an image returns exactly f(image.pixels) as pixels (and "
               "the same exception), keeps the masked-or-not kind, returns mask and landmarks unchanged when the "
               "shape is kept and landmarks scaled by the shape ratio / mask resized (nearest source pixel within "
               "half a pixel) when it is not; normalize = centred / statistic per channel or overall, zero mean in "
               "every branch, unit variance resp. unit norm and idempotence under the contract sigma*sigma = var "
               "resp. nu*nu = sum of squares, a zero statistic refused exactly when asked and skipped otherwise "
               "without ever dividing by zero (repaired code), the coded mode='all' skip branch refuted by witness "
               "and for every input (IndexError); masked images: masked pixels normalised, zeros outside, "
               "annotations kept; no existing buffer is written by normalize or by the decorators.  Tied to /repo "
               "by running every exported feature and compositions on Image/MaskedImage x 1-4 channels x "
               "float32/float64 x masks x landmark groups and raw arrays, diffing kind/mask/landmarks/values "
               "against the Lean driver, with the oracle deciding the property on the real code.",
    level_note="Trusted: Lean kernel; axioms propext/Classical.choice/Quot.sound; Python harness; driver parser. "
               "Contract parameters (not verified, checked numerically each run): np.std / np.linalg.norm return "
               "the non-negative square root of the exact variance / sum of squares of the centred data; "
               "np.gradient, scipy.ndimage.gaussian_filter, the DAISY kernel and np.angle/np.median are the "
               "abstract array-level feature f (deterministic library code).  Modelled, not verified: float "
               "rounding (the model is exact arithmetic); scipy order-0 sampling = floor(x + 1/2).",
    rule="a case = one feature (with drawn parameters) applied to one image (kind, dtype, channels, shape, mask, "
         "landmark groups) and to its raw pixel array; distinct = distinct (feature, parameters, image); "
         "non-trivial = the image is not constant and carries a mask or landmarks, or the case exercises a "
         "zero-scale branch of a normaliser",
    partial=["the numerical kernels (np.gradient, scipy gaussian_filter, DAISY, IGO/ES trigonometry) are the abstract "
             "feature f of the wrapper theorems: only the decorators and the normalisers are proved (DESIGN section 9)",
             "mask content after a size-changing feature is specified per pixel only away from exact half-way "
             "sampling positions and for extents >= 2 (output or input extent 1 makes the code sample at NaN/inf "
             "coordinates: shape and kind are still checked, content only by the uniform-neighbourhood oracle)",
             "normalize called directly on a MaskedImage normalises the image's data = its masked pixels (zeros "
             "outside): agreement with the raw array is stated and checked on that data",
             "dsift / fast_dsift / vector_128_dsift / hellinger_vector_128_dsift (the only exported @winitfeature "
             "features) do not import here (cyvlfeat missing): winitfeature is proved generically and exercised "
             "with a synthetic window feature through the real decorator",
             "std / norm are irrational: the model receives sqrt of its own exact variance as the contract value"],
    assumptions=["numpy float64 arithmetic on small dyadic inputs is accurate to 1e-12 relative",
                 "features are deterministic functions of their input array"],
    design_ref="DESIGN.md section 6, C18")
IMPORTS = ["MenpoModel.Props.C18"]
THEOREMS = [
    "MenpoModel.C18.ndfeature_agrees", "MenpoModel.C18.ndfeature_error_agrees", "MenpoModel.C18.imgfeature_agrees",
    "MenpoModel.C18.winitfeature_agrees", "MenpoModel.C18.ndfeature_total",
    "MenpoModel.C18.feature_keeps_kind", "MenpoModel.C18.feature_same_size_keeps_annotations",
    "MenpoModel.C18.feature_new_size_rescales", "MenpoModel.C18.srcAxis_nearest", "MenpoModel.C18.srcAxis_same",
    "MenpoModel.C18.scaleLms_keys", "MenpoModel.C18.scaleLms_points", "MenpoModel.C18.scalePt_2d",
    "MenpoModel.C18.winit_annotations",
    "MenpoModel.C18.normalize_per_channel_spec", "MenpoModel.C18.normalize_all_spec",
    "MenpoModel.C18.normalize_zero_mean_per_channel", "MenpoModel.C18.normalize_zero_mean_all",
    "MenpoModel.C18.normalize_std_unit_all", "MenpoModel.C18.normalize_norm_unit_all",
    "MenpoModel.C18.normalize_std_unit_per_channel", "MenpoModel.C18.normalize_norm_unit_per_channel",
    "MenpoModel.C18.normalize_std_idempotent_all", "MenpoModel.C18.normalize_norm_idempotent_all",
    "MenpoModel.C18.normalize_std_idempotent_per_channel", "MenpoModel.C18.normalize_norm_idempotent_per_channel",
    "MenpoModel.C18.normalize_zero_scale_fixed", "MenpoModel.C18.normalize_skip_total",
    "MenpoModel.C18.normalize_never_nonfinite",
    "MenpoModel.C18.normalize_zero_scale_coded_refuted", "MenpoModel.C18.normalize_zero_scale_coded_all",
    "MenpoModel.C18.normalize_coded_eq_fixed",
    "MenpoModel.C18.normalizeImg_annotations", "MenpoModel.C18.normalizeImg_agrees_plain",
    "MenpoModel.C18.normalizeImg_masked", "MenpoModel.C18.normalizeNd_spec", "MenpoModel.C18.normalizeNd_array",
    "MenpoModel.C18.ndfeature_compose_pixels", "MenpoModel.C18.landmarks_compose_2d",
    "MenpoModel.C18.normalize_input_untouched", "MenpoModel.C18.wrapper_input_untouched",
    "MenpoModel.C18.normalizeS_frame",
]

NORMALISERS = ("normalize", "normalize_std", "normalize_norm", "normalize_var")
UNAVAILABLE = ("dsift", "fast_dsift", "vector_128_dsift", "hellinger_vector_128_dsift")


# ------------------------------------------------------------------------------- features

def _synthetic():
    """array-level features decorated with the REAL decorators (generic f of the wrapper theorems)"""
    import numpy as np
    from menpo.feature.base import ndfeature, winitfeature

    @ndfeature
    def syn_subsample(pixels, sy=2, sx=2):
        return pixels[:, ::sy, ::sx] * 2.0 + 1.0

    @ndfeature
    def syn_crop(pixels, b=1):
        return pixels[:, b:-b, b:-b].copy()

    @ndfeature
    def syn_upsample(pixels, ky=2, kx=2):
        return np.repeat(np.repeat(pixels, ky, axis=1), kx, axis=2)

    @winitfeature
    def syn_window(pixels, sv=2, sh=2, r0=1, c0=1):
        rows = np.arange(r0, pixels.shape[1], sv)
        cols = np.arange(c0, pixels.shape[2], sh)
        centres = np.stack(np.meshgrid(rows, cols, indexing="ij"), axis=-1)
        return pixels[:, centres[..., 0], centres[..., 1]] - 0.5, centres

    return dict(syn_subsample=syn_subsample, syn_crop=syn_crop, syn_upsample=syn_upsample, syn_window=syn_window)


_SYN = {}


def apply_feature(name, params, x):
    """call feature `name` (params: JSON-able dict) on an image or an ndarray through the public API"""
    import numpy as np
    import menpo.feature as mf
    if not _SYN:
        _SYN.update(_synthetic())
    p = dict(params)
    if name == "compose":
        for sub, sp in p["steps"]:
            x = apply_feature(sub, sp, x)
        return x
    if name in _SYN:
        return _SYN[name](x, **p)
    if name == "normalize":
        sc = p.pop("scale", None)
        if sc is not None:
            vals = np.array(sc["values"], dtype=float)
            shape0 = sc["kind"] == "scalar"

            def scale_func(_, axis=None, _v=vals, _s=shape0):
                return np.array(_v[0]) if _s else _v.copy()
            p["scale_func"] = scale_func
        return mf.normalize(x, **p)
    if name == "gaussian_filter":
        return mf.gaussian_filter(x, p["sigma"])
    return getattr(mf, name)(x, **p)


def available_features():
    import menpo.feature as mf
    have = [n for n in ("gradient", "gaussian_filter", "igo", "double_igo", "es", "daisy", "no_op", "sum_channels",
                        "normalize", "normalize_std", "normalize_norm", "normalize_var") if hasattr(mf, n)]
    missing = [n for n in UNAVAILABLE if not hasattr(mf, n)]
    return have, missing


# ------------------------------------------------------------------------------- case specs

def dy(rng, kmax=32, mexp=3):
    return rng.randint(-kmax, kmax) / float(2 ** rng.randint(0, mexp))


def gen_pixels(rng, c, h, w, flavour):
    """small dyadic pixel values; flavours: random | constant-channel | constant | ramp"""
    px = [[[dy(rng) for _ in range(w)] for _ in range(h)] for _ in range(c)]
    if flavour == "constant":
        v = dy(rng)
        px = [[[v] * w for _ in range(h)] for _ in range(c)]
    elif flavour == "constant-channel":
        k = rng.randrange(c)
        v = dy(rng)
        px[k] = [[v] * w for _ in range(h)]
    elif flavour == "tiny":
        # small but non-zero amplitude (exactly representable): the scale statistic is far below any "close to
        # zero" tolerance, yet it is not zero, so the data must still be normalised
        k = 2.0 ** -rng.choice([14, 30, 40])
        px = [[[(v if v != 0 else 1.0) * k for v in row] for row in ch] for ch in px]
    elif flavour == "ramp":
        a, b = dy(rng, 8, 2), dy(rng, 8, 2)
        px = [[[a * i + b * j + ch for j in range(w)] for i in range(h)] for ch in range(c)]
    return px


def gen_mask(rng, h, w, flavour):
    if flavour == "all-true":
        return [[True] * w for _ in range(h)]
    if flavour == "all-false":
        return [[False] * w for _ in range(h)]
    if flavour == "block":
        r0, r1 = sorted((rng.randint(0, h), rng.randint(0, h)))
        c0, c1 = sorted((rng.randint(0, w), rng.randint(0, w)))
        return [[(r0 <= i < max(r1, r0 + 1)) and (c0 <= j < max(c1, c0 + 1)) for j in range(w)] for i in range(h)]
    return [[rng.random() < 0.6 for _ in range(w)] for _ in range(h)]


def gen_lms(rng, h, w):
    groups = []
    for g in range(rng.choice([0, 1, 1, 2, 3])):
        n = rng.randint(1, 5)
        pts = [[rng.randint(0, 4 * (h - 1)) / 4.0, rng.randint(0, 4 * (w - 1)) / 4.0] for _ in range(n)]
        groups.append({"key": "g%d" % g, "cls": rng.choice(["PointCloud", "PointUndirectedGraph", "Labelled"]),
                       "points": pts})
    return groups


def build_image(spec):
    import numpy as np
    from menpo.image import Image, MaskedImage
    from menpo.shape import PointCloud, PointUndirectedGraph, LabelledPointUndirectedGraph
    px = np.array(spec["pixels"], dtype=spec["dtype"])
    if spec["kind"] == "MaskedImage":
        img = MaskedImage(px, mask=np.array(spec["mask"], dtype=bool))
    else:
        img = Image(px)
    for g in spec["lms"]:
        pts = np.array(g["points"], dtype=float)
        n = len(pts)
        edges = np.array([[i, i + 1] for i in range(n - 1)], dtype=int).reshape(-1, 2)
        if g["cls"] == "PointCloud":
            sh = PointCloud(pts)
        elif g["cls"] == "PointUndirectedGraph":
            sh = PointUndirectedGraph.init_from_edges(pts, edges)
        else:
            adj = np.zeros((n, n), dtype=int)
            for a, b in edges:
                adj[a, b] = adj[b, a] = 1
            sh = LabelledPointUndirectedGraph.init_with_all_label(pts, adj)
        img.landmarks[g["key"]] = sh
    return img


def digest(img):
    """everything observable about an image's data, as comparable python values"""
    d = {"pixels": img.pixels.tobytes(), "dtype": str(img.pixels.dtype), "shape": tuple(img.pixels.shape)}
    if hasattr(img, "mask"):
        d["mask"] = img.mask.mask.tobytes()
    d["lms"] = lms_state(img)
    return d


def lms_state(img):
    out = []
    if img.has_landmarks:
        for k in img.landmarks.keys():
            g = img.landmarks[k]
            labels = tuple(sorted(getattr(g, "labels", []))) if hasattr(g, "labels") else ()
            edges = tuple(map(tuple, g.edges.tolist())) if hasattr(g, "edges") else ()
            out.append((k, type(g).__name__, g.points.tobytes(), labels, edges))
    return out


def min_size(name, params):
    if name == "daisy":
        return 2 * params["radius"] + 1
    if name == "syn_crop":
        return 2 * params["b"] + 1
    if name == "compose":
        return max(min_size(n, p) for n, p in params["steps"]) + 6
    if name in ("gradient", "igo", "double_igo", "es"):
        return 2
    if name == "syn_window":
        return 4
    return 1


def gen_feature(rng, pool):
    """(name, params) drawn from the pool of feature families"""
    name = rng.choice(pool)
    if name == "gaussian_filter":
        return name, {"sigma": rng.choice([0.5, 1.0, 2.0, [1.0, 0.5]])}
    if name == "igo":
        return name, {"double_angles": rng.random() < 0.5}
    if name == "daisy":
        return name, {"step": rng.randint(1, 4), "radius": rng.randint(1, 4), "rings": rng.randint(1, 2),
                      "histograms": rng.randint(1, 3), "orientations": rng.randint(2, 4),
                      "normalization": rng.choice(["l1", "l2", "daisy", None])}
    if name == "sum_channels":
        return name, {"channels": None}
    if name in ("normalize_std", "normalize_norm", "normalize_var"):
        return name, {"mode": rng.choice(["all", "per_channel"]), "error_on_divide_by_zero": rng.random() < 0.5}
    if name == "normalize":
        return name, {"mode": rng.choice(["all", "per_channel"]), "error_on_divide_by_zero": rng.random() < 0.5,
                      "scale": None}
    if name == "syn_subsample":
        return name, {"sy": rng.randint(1, 3), "sx": rng.randint(1, 3)}
    if name == "syn_crop":
        return name, {"b": rng.randint(1, 2)}
    if name == "syn_upsample":
        return name, {"ky": rng.randint(1, 3), "kx": rng.randint(1, 2)}
    if name == "syn_window":
        return name, {"sv": rng.randint(1, 3), "sh": rng.randint(1, 3), "r0": rng.randint(0, 2), "c0": rng.randint(0, 2)}
    if name == "compose":
        inner = ["gradient", "gaussian_filter", "igo", "es", "no_op", "sum_channels", "normalize_std", "normalize_norm",
                 "daisy", "syn_subsample", "syn_crop"]
        steps = []
        for _ in range(rng.randint(2, 3)):
            n, p = gen_feature(rng, inner)
            if n in ("normalize_std", "normalize_norm"):
                p["error_on_divide_by_zero"] = False
                p["mode"] = "per_channel"
            if n == "daisy":
                p.update(radius=rng.randint(1, 2), step=rng.randint(1, 2), rings=1, histograms=1, orientations=2)
            steps.append([n, p])
        return name, {"steps": steps}
    return name, {}


WRAP_POOL = ["gradient", "gaussian_filter", "igo", "double_igo", "es", "daisy", "daisy", "no_op", "sum_channels",
             "normalize_std", "normalize_norm", "normalize_var", "normalize", "compose", "compose",
             "syn_subsample", "syn_crop", "syn_upsample", "syn_window"]


def gen_wrapper_spec(rng, pool=WRAP_POOL):
    name, params = gen_feature(rng, pool)
    lo = max(min_size(name, params), 2)
    h, w = lo + rng.randint(0, 9), lo + rng.randint(0, 9)
    if name == "daisy" and rng.random() < 0.15:
        h = lo                                         # output extent 1: the degenerate mask axis
    c = rng.randint(1, 4)
    flavour = rng.choice(["random", "random", "random", "ramp", "constant-channel"])
    if name in NORMALISERS or name == "compose":
        flavour = rng.choice(["random", "random", "ramp"])
        params = dict(params)
        if name in NORMALISERS:
            params["error_on_divide_by_zero"] = True
    kind = rng.choice(["Image", "MaskedImage", "MaskedImage"])
    return {"feature": name, "params": params, "kind": kind, "dtype": rng.choice(["float64", "float64", "float32"]),
            "pixels": gen_pixels(rng, c, h, w, flavour),
            "mask": gen_mask(rng, h, w, rng.choice(["random", "random", "block", "all-true", "all-false"]))
            if kind == "MaskedImage" else None,
            "lms": gen_lms(rng, h, w)}


def gen_normaliser_spec(rng, zero=None):
    """normaliser case on a small image; `zero`: None | 'all' | 'channel' forces a zero statistic"""
    name = rng.choice(["normalize_std", "normalize_norm", "normalize_var", "normalize", "normalize"])
    mode = rng.choice(["all", "per_channel"])
    c = rng.randint(1, 4)
    h, w = rng.randint(1, 6), rng.randint(2, 6)
    flavour = "random"
    if zero == "all":
        flavour = "constant"
    elif zero == "channel":
        flavour, mode = "constant-channel", "per_channel"
    elif rng.random() < 0.2:
        flavour = "tiny"
    params = {"mode": mode, "error_on_divide_by_zero": rng.random() < 0.5}
    kind = rng.choice(["Image", "Image", "MaskedImage"])
    if name == "normalize":
        r = rng.random()
        if r < 0.35:
            params["scale"] = None
        else:
            n = 1 if mode == "all" else c
            vals = [rng.choice([0.5, 2.0, 4.0, -2.0, 0.25]) for _ in range(n)]
            if zero is not None:
                vals[rng.randrange(n)] = 0.0
            params["scale"] = {"kind": "scalar" if (mode == "all" and rng.random() < 0.5) else "array", "values": vals}
            flavour = "random"
    mask = None
    if kind == "MaskedImage":
        mask = gen_mask(rng, h, w, rng.choice(["random", "block", "all-true"]))
        if sum(map(sum, mask)) < 2:
            mask = [[True] * w for _ in range(h)]
    return {"feature": name, "params": params, "kind": kind, "dtype": rng.choice(["float64", "float64", "float32"]),
            "pixels": gen_pixels(rng, c, h, w, flavour), "mask": mask, "lms": gen_lms(rng, max(h, 2), w)}


# ------------------------------------------------------------------------------- oracle helpers

def tol_of(dtype):
    return 1e-9 if dtype == "float64" else 2e-4


def arr_close(a, b, tol):
    import numpy as np
    a, b = np.asarray(a, dtype=float), np.asarray(b, dtype=float)
    if a.shape != b.shape:
        return False
    both_nan = np.isnan(a) & np.isnan(b)
    scale = max(1.0, float(np.nanmax(np.abs(b))) if b.size and not np.all(np.isnan(b)) else 1.0)
    with np.errstate(invalid="ignore"):
        ok = np.abs(a - b) <= tol * (1 + scale)
    return bool(np.all(ok | both_nan | ((a == b))))


def mask_window_ok(old, new):
    """'mask rescaled to the new size', convention-free: wherever the old mask is constant on the whole
    neighbourhood that any reasonable resampling convention (index-based, extent-based by centres or corners, +-1/2 pixel) could
    sample from, the new mask must have that value.  Returns (ok, first offending pixel)."""
    import numpy as np
    H, W = old.shape
    h, w = new.shape

    def window(i, n_new, n_old):
        if n_new <= 1 or n_old <= 1:
            return 0, n_old - 1
        p = i * (n_old - 1) / float(n_new - 1)          # index-based (what Image.rescale does)
        q = (i + 0.5) * n_old / float(n_new) - 0.5      # extent-based, pixel centres
        r = i * n_old / float(n_new)                    # extent-based, pixel corners (the landmarks' own convention)
        lo = int(math.floor(min(p, q, r) - 0.5))
        hi = int(math.ceil(max(p, q, r) + 0.5))
        return max(lo, 0), min(hi, n_old - 1)
    for i in range(h):
        r0, r1 = window(i, h, H)
        for j in range(w):
            c0, c1 = window(j, w, W)
            blk = old[r0:r1 + 1, c0:c1 + 1]
            if blk.all() and not new[i, j]:
                return False, (i, j)
            if (not blk.any()) and new[i, j]:
                return False, (i, j)
    return True, None


def exact_stats(rows):
    """rows: list of lists of Fractions (one group per row) -> per group (mean, var of centred, sumsq of centred)"""
    out = []
    for r in rows:
        n = len(r)
        m = sum(r) / n
        cen = [v - m for v in r]
        ss = sum(v * v for v in cen)
        out.append((m, ss / n, ss))
    return out


# ------------------------------------------------------------------------------- the run

class Run:
    def __init__(self, ctx):
        self.ctx = ctx
        self.lines = []
        self.pending = {}

    def ask(self, op, args, handler, replay):
        cid = "q%d" % len(self.lines)
        self.lines.append("%s %s %s" % (cid, op, args))
        self.pending[cid] = (op, handler, replay)

    def settle(self):
        if not self.lines:
            return
        model = common.run_driver(PROP, self.lines)
        for cid, (op, handler, rp) in self.pending.items():
            rep = model[cid]
            if rep.startswith("bad-op"):
                raise common.Infra("driver rejected %s: %s" % (op, self.lines[int(cid[1:])][:300]))
            msg = handler(rep)
            if msg:
                self.ctx.mismatch(op, msg, rp)
        self.lines, self.pending = [], {}


def fmt_lms_for_model(lms_specs, intern):
    toks = [str(len(lms_specs))]
    for g in lms_specs:
        toks.append(str(intern.setdefault(g["key"], len(intern))))
        toks.append(str(len(g["points"])))
        for p in g["points"]:
            toks += [fq(v) for v in p]
    return " ".join(toks)


def result_points(out):
    pts = []
    if out.has_landmarks:
        for k in out.landmarks.keys():
            pts += [float(v) for v in out.landmarks[k].points.ravel()]
    return pts


def annotation_spec(img, kind):
    """the part of a case spec `check_annotations` needs, read off an (intermediate) image"""
    lms = []
    if img.has_landmarks:
        for k in img.landmarks.keys():
            lms.append({"key": k, "cls": type(img.landmarks[k]).__name__, "points": img.landmarks[k].points.tolist()})
    return {"kind": kind, "mask": img.mask.mask.tolist() if kind == "MaskedImage" else None, "lms": lms}


def check_annotations(run, spec, img, out, site, rp, model=True, mask_content=True):
    """kind / landmarks / mask of a decorated feature's result (oracle + model query)"""
    import numpy as np
    from menpo.image import Image, MaskedImage
    ctx = run.ctx
    old_shape, new_shape = tuple(img.shape), tuple(out.shape)
    masked = spec["kind"] == "MaskedImage"
    ok_kind = (type(out) is MaskedImage) if masked else (type(out) is Image)
    ctx.check(ok_kind, site + ".kind", "kind-changed",
              "feature of a %s returned a %s" % (spec["kind"], type(out).__name__), rp)
    if not ok_kind:
        return
    # landmarks
    want_keys = [g["key"] for g in spec["lms"]]
    got_keys = list(out.landmarks.keys()) if out.has_landmarks else []
    if not ctx.check(got_keys == want_keys, site + ".landmarks", "groups-lost",
                     "landmark groups %r became %r" % (want_keys, got_keys), rp):
        return
    sf = np.array(new_shape, dtype=float) / np.array(old_shape, dtype=float)
    for g in spec["lms"]:
        src = img.landmarks[g["key"]]
        res = out.landmarks[g["key"]]
        want = src.points * sf if new_shape != old_shape else src.points
        same_cls = type(res) is type(src)
        same_labels = (not hasattr(src, "labels")) or sorted(res.labels) == sorted(src.labels)
        ctx.check(same_cls and same_labels, site + ".landmarks", "group-class-or-labels-changed",
                  "group %s: %s -> %s" % (g["key"], type(src).__name__, type(res).__name__), rp)
        if new_shape == old_shape:
            ctx.check(bool(np.array_equal(res.points, want)), site + ".landmarks", "moved-though-size-kept",
                      "size-keeping feature moved the landmarks of group %s: %r -> %r" % (
                          g["key"], src.points.tolist(), res.points.tolist()), rp)
        else:
            ctx.check(res.points.shape == want.shape and bool(np.allclose(res.points, want, rtol=0, atol=1e-9 * (1 + np.abs(want).max()))),
                      site + ".landmarks", "not-rescaled-with-shape",
                      "shape %r -> %r but landmarks of group %s are %r, rescaled with the shape they are %r" % (
                          old_shape, new_shape, g["key"], res.points.tolist(), want.tolist()), rp)
    # mask
    if masked:
        old_m, new_m = img.mask.mask, out.mask.mask
        if not ctx.check(tuple(new_m.shape) == new_shape, site + ".mask", "mask-shape",
                         "mask shape %r for pixels of shape %r" % (tuple(new_m.shape), new_shape), rp):
            return
        if new_shape == old_shape:
            ctx.check(bool(np.array_equal(old_m, new_m)), site + ".mask", "changed-though-size-kept",
                      "size-keeping feature changed the mask", rp)
        elif mask_content:
            ok, where = mask_window_ok(old_m, new_m)
            ctx.check(ok, site + ".mask", "not-rescaled-with-shape",
                      "mask pixel %r of the %r result contradicts the %r input mask (constant neighbourhood)" % (
                          where, new_shape, old_shape), rp)
    if not model:
        return
    intern = {}
    bits = [int(b) for row in (spec["mask"] or []) for b in row]
    args = "%d 2 %d %d %d %d %d %s %s" % (int(masked), old_shape[0], old_shape[1], new_shape[0], new_shape[1],
                                          len(bits), " ".join(map(str, bits)), fmt_lms_for_model(spec["lms"], intern))
    got_pts = result_points(out)
    got_mask = [int(b) for b in out.mask.mask.ravel()] if masked else []

    def handler(rep, got_pts=got_pts, got_mask=got_mask, masked=masked):
        t = rep.split()
        if t[0] != "ok":
            return "model %r, implementation returned a %s" % (rep, "masked" if masked else "plain")
        if t[1] != ("masked" if masked else "plain"):
            return "model kind %s" % t[1]
        iM, iL = t.index("M"), t.index("L")
        mbits = t[iM + 1:iL]
        if masked:
            if [int(x) for x in t[3:iM]] != list(new_shape):
                return "model mask shape %r vs %r" % (t[3:iM], new_shape)
            if len(mbits) != len(got_mask):
                return "model mask has %d pixels, implementation %d" % (len(mbits), len(got_mask))
            for k, (mb, gb) in enumerate(zip(mbits, got_mask)):
                if mb in ("0", "1") and int(mb) != gb:
                    return "mask pixel %d: model %s implementation %d" % (k, mb, gb)
        mp = [float(F(x)) for x in t[iL + 1:]]
        if len(mp) != len(got_pts) or not all(close(a, b, abs(b)) for a, b in zip(got_pts, mp)):
            return "landmarks: model %r implementation %r" % (mp, got_pts)
        return None
    run.ask("rebuild", args, handler, rp)


def wrapper_case(run, spec, model=True):
    """one decorated feature on one image and on its raw array"""
    import numpy as np
    ctx = run.ctx
    name, params = spec["feature"], spec["params"]
    site = "C18/%s" % (name if name != "compose" else "compose")
    rp = {"spec": spec, "call": "harness.c18.apply_feature(%r, %r, harness.c18.build_image(spec))" % (name, params)}
    img = build_image(spec)
    arr = np.array(spec["pixels"], dtype=spec["dtype"])
    before_img, before_arr = digest(img), arr.tobytes()
    nonconst = len(set(v for ch in spec["pixels"] for row in ch for v in row)) > 1
    ctx.case((name, json.dumps(spec, sort_keys=True)), nontrivial=nonconst and (bool(spec["lms"]) or spec["kind"] == "MaskedImage"),
             sample={"feature": name, "params": params, "kind": spec["kind"], "dtype": spec["dtype"],
                     "shape": list(arr.shape), "n_groups": len(spec["lms"])})
    ctx.count("feature:" + name)
    ctx.count("kind:%s/%s" % (spec["kind"], spec["dtype"]))
    ctx.count("channels:%d" % arr.shape[0])
    if name == "compose":
        ctx.count("compose:" + "+".join(n for n, _ in params["steps"]))
    exc_img = exc_arr = out = out_arr = None
    try:
        out = apply_feature(name, params, img)
    except Exception as e:  # noqa
        exc_img = e
    try:
        out_arr = apply_feature(name, params, arr)
    except Exception as e:  # noqa
        exc_arr = e
    # input untouched (both conventions), whatever happened
    ctx.check(digest(img) == before_img, site + ".input", "image-modified",
              "the input image (pixels / mask / landmarks) was modified by the call", rp)
    ctx.check(arr.tobytes() == before_arr, site + ".input", "array-modified",
              "the input array was modified by the call", rp)
    if exc_img is not None or exc_arr is not None:
        below = [o for o in (out, out_arr) if o is not None and 0 in tuple(getattr(o, "pixels", o).shape)]
        if below:     # a composition shrank the image below the next feature's minimum size: outside the quantifier
            ctx.count("below-minimum-size")
            return
        same = exc_img is not None and exc_arr is not None and type(exc_img) is type(exc_arr)
        ctx.count("raised:%s" % type(exc_img or exc_arr).__name__)
        ctx.check(same, site + ".agree", "one-convention-raises",
                  "image call: %s; array call: %s" % (
                      "%s: %s" % (type(exc_img).__name__, exc_img) if exc_img is not None else "returned",
                      "%s: %s" % (type(exc_arr).__name__, exc_arr) if exc_arr is not None else "returned"), rp)
        return
    if 0 in tuple(getattr(out_arr, "shape", ())) or 0 in tuple(getattr(getattr(out, "pixels", None), "shape", ())):
        ctx.count("below-minimum-size")      # empty feature image: the input is below the feature's minimum size
        return
    # same values
    if not ctx.check(isinstance(out_arr, np.ndarray) and hasattr(out, "pixels"), site + ".agree", "wrong-return-type",
                     "array call returned %s, image call %s" % (type(out_arr).__name__, type(out).__name__), rp):
        return
    masked_direct = name == "normalize" and spec["kind"] == "MaskedImage" and not all(map(all, spec["mask"]))
    if not masked_direct:
        ctx.check(arr_close(out.pixels, out_arr, 1e-12), site + ".agree", "values-differ",
                  "feature(image).pixels differs from feature(image.pixels) (max abs diff %s)" % (
                      float(np.nanmax(np.abs(np.asarray(out.pixels, float) - np.asarray(out_arr, float))))
                      if out.pixels.shape == out_arr.shape else "shape %r vs %r" % (out.pixels.shape, out_arr.shape)), rp)
        ctx.check(out.pixels.dtype == out_arr.dtype, site + ".agree", "dtype-differs",
                  "dtype %s vs %s" % (out.pixels.dtype, out_arr.dtype), rp)
    ctx.count("size:" + ("changed" if tuple(out.shape) != tuple(img.shape) else "kept"))
    if name == "syn_window":
        check_window(run, spec, img, out, site, rp, model)
    elif name == "compose":
        # every step is a decorated call on the previous feature image: annotations are checked step by step
        # (a mask resized twice is not the mask resized once), the landmarks also end to end
        cur, n_changes = img, 0
        for sub, sp in params["steps"]:
            nxt = apply_feature(sub, sp, cur)
            n_changes += tuple(nxt.shape) != tuple(cur.shape)
            step_kind = "MaskedImage" if hasattr(cur, "mask") else "Image"
            check_annotations(run, annotation_spec(cur, step_kind), cur, nxt, site, rp, model)
            cur = nxt
        check_annotations(run, spec, img, out, site, rp, model=False, mask_content=n_changes <= 1)
    else:
        check_annotations(run, spec, img, out, site, rp, model)


def check_window(run, spec, img, out, site, rp, model=True):
    """@winitfeature: landmarks land on the grid of window centres, mask sampled at the centres"""
    import numpy as np
    from menpo.image import Image, MaskedImage
    ctx = run.ctx
    p = spec["params"]
    rows = list(range(p["r0"], img.shape[0], p["sv"]))
    cols = list(range(p["c0"], img.shape[1], p["sh"]))
    masked = spec["kind"] == "MaskedImage"
    ok_kind = (type(out) is MaskedImage) if masked else (type(out) is Image)
    if not ctx.check(ok_kind, site + ".kind", "kind-changed", "window feature of a %s returned a %s" % (
            spec["kind"], type(out).__name__), rp):
        return
    step_v = p["sv"] if len(rows) > 1 else rows[0]     # single row / column: the code takes the centre itself as step
    step_h = p["sh"] if len(cols) > 1 else cols[0]
    degenerate = step_v == 0 or step_h == 0       # single centre at 0: the code divides by zero
    axes = [k for k, n in enumerate((len(rows), len(cols))) if n > 1]   # axes on which the grid defines a scale
    want_keys = [g["key"] for g in spec["lms"]]
    got_keys = list(out.landmarks.keys()) if out.has_landmarks else []
    if not ctx.check(got_keys == want_keys, site + ".landmarks", "groups-lost", "%r -> %r" % (want_keys, got_keys), rp):
        return
    if not degenerate:
        for g in spec["lms"]:
            src, res = img.landmarks[g["key"]].points, out.landmarks[g["key"]].points
            want = (src - np.array([rows[0], cols[0]])) / np.array([step_v, step_h], dtype=float)
            ctx.check(bool(np.allclose(res[:, axes], want[:, axes], rtol=0, atol=1e-9 * (1 + np.abs(want).max()))), site + ".landmarks",
                      "not-on-centre-grid", "landmarks %r, on the grid of window centres they are %r" % (
                          res.tolist(), want.tolist()), rp)
    if masked:
        want_m = img.mask.mask[np.ix_(rows, cols)]
        ctx.check(bool(np.array_equal(out.mask.mask, want_m)), site + ".mask", "not-sampled-at-centres",
                  "mask of the window feature is not the input mask at the window centres", rp)
    if not model or degenerate:
        return
    intern = {}
    bits = [int(b) for row in (spec["mask"] or []) for b in row]
    cs = " ".join("%d %d" % (r, c) for r in rows for c in cols)
    args = "%d %d %d %d %s %d %d %s %s" % (int(masked), img.shape[0], img.shape[1], len(bits), " ".join(map(str, bits)),
                                          len(rows), len(cols), cs, fmt_lms_for_model(spec["lms"], intern))
    got_pts = result_points(out)
    got_mask = [int(b) for b in out.mask.mask.ravel()] if masked else []

    def handler(rep):
        t = rep.split()
        if t[0] != "ok" or t[1] != ("masked" if masked else "plain"):
            return "model %r" % rep[:80]
        iM, iL = t.index("M"), t.index("L")
        if masked and [int(x) for x in t[iM + 1:iL]] != got_mask:
            return "mask: model %r implementation %r" % (t[iM + 1:iL], got_mask)
        mp = [float(F(x)) for x in t[iL + 1:]]
        if len(mp) != len(got_pts) or not all(close(a, b, abs(b)) for a, b in zip(got_pts, mp)):
            return "landmarks: model %r implementation %r" % (mp, got_pts)
        return None
    run.ask("winit", args, handler, rp)


def call_outcome(fn):
    """('ok', value) | ('ValueError', e) | ('IndexError', e) | (other exception name, e)"""
    import warnings
    try:
        with warnings.catch_warnings():
            warnings.simplefilter("ignore")
            return "ok", fn()
    except Exception as e:  # noqa
        return type(e).__name__, e


def statkind_is_given(name, params):
    return not (name == "normalize_var" or (name == "normalize" and params.get("scale") is None))


def normaliser_case(run, spec, model=True):
    """normalize / normalize_std / normalize_norm / normalize_var: the numeric clauses and the zero-scale branches"""
    import numpy as np
    ctx = run.ctx
    name, params = spec["feature"], spec["params"]
    mode, err = params["mode"], params["error_on_divide_by_zero"]
    site = "C18/%s" % name
    rp = {"spec": spec, "call": "harness.c18.apply_feature(%r, %r, harness.c18.build_image(spec))" % (name, params)}
    tol = tol_of(spec["dtype"])
    img = build_image(spec)
    arr = np.array(spec["pixels"], dtype=spec["dtype"])
    c = arr.shape[0]
    before = digest(img)
    # the data the statistics are taken over: every pixel, or the masked pixels when `normalize` itself gets a MaskedImage
    partial_mask = spec["kind"] == "MaskedImage" and not all(map(all, spec["mask"]))
    on_masked = name == "normalize" and partial_mask
    flat_mask = [b for row in spec["mask"] for b in row] if spec["kind"] == "MaskedImage" else None
    rows = [[F(v) for r in ch for v in r] for ch in spec["pixels"]]
    if on_masked:
        rows = [[v for v, b in zip(r, flat_mask) if b] for r in rows]
    groups = [sum(rows, [])] if mode == "all" else rows
    stats = exact_stats(groups)
    # the statistic each group is divided by (exact where rational)
    if name == "normalize_var":
        scales = [float(v) for (_, v, _) in stats]
    elif name == "normalize_std":
        scales = [math.sqrt(v) for (_, v, _) in stats]
    elif name == "normalize_norm":
        scales = [math.sqrt(q) for (_, _, q) in stats]
    elif params.get("scale") is None:
        scales = [1.0] * len(groups)
    else:
        scales = list(params["scale"]["values"])
    zero = [s == 0 for s in scales]
    scalar_stat_shape_ok = not (name == "normalize" and params.get("scale") is not None and mode == "per_channel"
                                and params["scale"]["kind"] == "scalar")
    ctx.case((name, json.dumps(spec, sort_keys=True)), nontrivial=True,
             sample={"feature": name, "params": params, "kind": spec["kind"], "dtype": spec["dtype"],
                     "shape": list(arr.shape), "zero_scale_groups": sum(zero)})
    ctx.count("feature:" + name)
    ctx.count("normaliser:%s/%s/%s" % (mode, "refuse" if err else "skip", "zero" if any(zero) else "nonzero"))
    ctx.count("kind:%s/%s" % (spec["kind"], spec["dtype"]))
    kind, out = call_outcome(lambda: apply_feature(name, params, img))
    ctx.check(digest(img) == before, site + ".input", "image-modified", "the input image was modified by the call", rp)
    branch = "%s-%s" % (mode, "refuse" if err else "skip")
    # --- zero scale: refused when asked, skipped when asked
    if any(zero) and err:
        ctx.check(kind == "ValueError", site + ".zero_scale/" + branch, "not-refused",
                  "zero scale with error_on_divide_by_zero=True: expected ValueError, got %s" % (
                      kind if kind != "ok" else "a result"), rp)
        impl_reply = "err zero" if kind == "ValueError" else ("err index" if kind == "IndexError" else kind)
    else:
        if kind != "ok":
            ctx.fail(site + ".zero_scale/" + branch if any(zero) else site + ".call",
                     "raises-" + kind,
                     "%s(mode=%r, error_on_divide_by_zero=%r)%s raised %s: %s" % (
                         name, mode, err, " with a zero scale (skipping requested)" if any(zero) else "", kind, out), rp)
            impl_reply = "err index" if kind == "IndexError" else ("err zero" if kind == "ValueError" else kind)
        else:
            impl_reply = "ok"
    got = None
    if kind == "ok":
        got = np.asarray(out.pixels, dtype=float)
        data = got.reshape(c, -1)
        if on_masked:
            data = data[:, np.array(flat_mask)]
            outside = got.reshape(c, -1)[:, ~np.array(flat_mask)]
        ctx.check(bool(np.all(np.isfinite(got))), site + ".finite", "non-finite", "the result contains inf/nan", rp)
        # expected = centred / statistic, skipped groups only centred (float64 recomputation from the exact input)
        x = np.array([[float(v) for v in r] for r in rows])
        gdata = data.reshape(1, -1) if mode == "all" else data
        gx = x.reshape(1, -1) if mode == "all" else x
        for gi in range(len(groups)):
            cen = gx[gi] - gx[gi].mean()
            want = cen if zero[gi] else cen / scales[gi]
            big = max(1.0, float(np.abs(want).max()))
            ctx.check(abs(float(gdata[gi].mean())) <= tol * (1 + big), site + ".zero_mean/" + mode, "mean-not-zero",
                      "mean of the normalised %s is %r" % ("image" if mode == "all" else "channel %d" % gi, float(gdata[gi].mean())), rp)
            ctx.check(bool(np.all(np.abs(gdata[gi] - want) <= tol * (1 + big))), site + ".scale/" + mode, "not-centred-over-statistic",
                      "%s is not (data - mean) / statistic%s: got %r want %r" % (
                          "image" if mode == "all" else "channel %d" % gi, " (skipped: zero scale)" if zero[gi] else "",
                          gdata[gi][:6].tolist(), want[:6].tolist()), rp)
            if not zero[gi] and name == "normalize_std":
                ctx.check(close(float(gdata[gi].std()), 1.0, 1.0, tol), site + ".unit/" + mode, "std-not-one",
                          "standard deviation after normalize_std is %r" % float(gdata[gi].std()), rp)
            if not zero[gi] and name == "normalize_norm":
                ctx.check(close(float(np.linalg.norm(gdata[gi])), 1.0, 1.0, tol), site + ".unit/" + mode, "norm-not-one",
                          "norm after normalize_norm is %r" % float(np.linalg.norm(gdata[gi])), rp)
        # idempotence of the two unit normalisers
        if name in ("normalize_std", "normalize_norm") and not any(zero):
            k2, out2 = call_outcome(lambda: apply_feature(name, params, out))
            ok2 = k2 == "ok" and arr_close(out2.pixels, out.pixels, 10 * tol)
            ctx.check(ok2, site + ".idempotent/" + mode, "second-application-changes",
                      "applying %s a second time %s" % (name, "raised " + k2 if k2 != "ok" else "changed the pixels"), rp)
        # raw-array convention
        ka, out_a = call_outcome(lambda: apply_feature(name, params, arr))
        if not on_masked:
            ctx.check(ka == "ok" and arr_close(out_a, out.pixels, 1e-12), site + ".agree", "values-differ",
                      "feature(image).pixels differs from feature(image.pixels)%s" % ("" if ka == "ok" else " (array call raised %s)" % ka), rp)
        else:
            ctx.check(bool(np.all(outside == 0)), site + ".masked", "outside-mask-not-zero",
                      "pixels outside the mask are not zero after normalize on a MaskedImage", rp)
            marr = np.array([[float(v) for v in r] for r in rows], dtype=spec["dtype"]).reshape(c, 1, -1)
            km, out_m = call_outcome(lambda: apply_feature(name, params, marr))
            ctx.check(km == "ok" and arr_close(np.asarray(out_m).reshape(c, -1), data, 1e-12), site + ".agree", "values-differ-on-masked-data",
                      "normalize(masked image) on its masked pixels differs from normalize(array of the masked pixels)", rp)
        # annotations (size is kept)
        spec_for_ann = spec
        check_annotations(run, spec_for_ann, img, out, site, rp, model=False)
    else:
        ka, _ = call_outcome(lambda: apply_feature(name, params, arr if not on_masked else
                                                    np.array([[float(v) for v in r] for r in rows], dtype=spec["dtype"]).reshape(c, 1, -1)))
        ctx.check(ka == kind, site + ".agree", "one-convention-raises", "image call %s, array call %s" % (kind, ka), rp)
    if not model or not scalar_stat_shape_ok:
        return
    # the driver receives a *given* scale statistic as a table keyed on the centred group data; two groups with the
    # same centred data but different given scales cannot be told apart by that protocol: no model query for them
    # (corrected false alarm: seed 3 once produced two channels whose masked pixels were both (-21, -1))
    cg = [tuple(v - sum(g) / F(len(g)) for v in g) for g in groups if g]
    if statkind_is_given(name, params) and any(cg[i] == cg[j] and scales[i] != scales[j]
                                                for i in range(len(cg)) for j in range(i)):
        ctx.count("model-skipped:ambiguous-given-scale-table")
        return
    # --- the Lean model on the same exact data
    statkind = {"normalize_var": "var"}.get(name, "given")
    if name == "normalize" and params.get("scale") is None:
        statkind = "one"
    sc = (" %d %s" % (len(scales), " ".join(fq(s) for s in scales))) if statkind == "given" else ""
    full_rows = [[F(v) for r in ch for v in r] for ch in spec["pixels"]]
    n = len(full_rows[0])
    data_s = " ".join(fq(v) for r in full_rows for v in r)

    def handler(rep, got=got, impl_reply=impl_reply):
        t = rep.split()
        if impl_reply != "ok":
            # compare error enums with the REPAIRED model; the coded model's IndexError is reported by the oracle
            return None if rep == impl_reply else "model(repaired) %r implementation %r" % (rep[:60], impl_reply)
        if t[0] != "ok":
            return "model %r, implementation returned values" % rep
        mv = [float(F(v)) for v in t[1:]]
        gv = got.ravel().tolist()
        if len(mv) != len(gv):
            return "model returns %d values, implementation %d" % (len(mv), len(gv))
        big = max([1.0] + [abs(v) for v in mv])
        bad = [k for k, (a, b) in enumerate(zip(gv, mv)) if not abs(a - b) <= tol * (1 + big)]
        return None if not bad else "value %d: model %r implementation %r" % (bad[0], mv[bad[0]], gv[bad[0]])
    if on_masked or (name == "normalize" and spec["kind"] == "MaskedImage"):
        run.ask("normimg " + statkind, "%s %d 1 %d %d %s %d %s%s" % (mode, int(err), c, n, data_s, len(flat_mask),
                                                                   " ".join(str(int(b)) for b in flat_mask), sc), handler, rp)
    elif name == "normalize":
        run.ask("norm " + statkind, "%s %d 1 %d %d %s%s" % (mode, int(err), c, n, data_s, sc), handler, rp)
    else:
        # normalize_std / norm / var: @ndfeature around the @imgfeature normalize on the raw array
        mb = [int(b) for b in flat_mask] if flat_mask is not None else []
        run.ask("normnd " + statkind, "%s %d 1 %d %d %s %d %d %s%s" % (
            mode, int(err), c, n, data_s, int(flat_mask is not None), len(mb), " ".join(map(str, mb)), sc), handler, rp)
    # the contract of the statistic, against the model's exact variance / sum of squares
    if name in ("normalize_std", "normalize_norm") and not on_masked:
        def contract(rep, scales=scales, which=name):
            t = rep.split()
            iV, iQ, iM = t.index("V"), t.index("Q"), t.index("M")
            exact = [float(F(v)) for v in (t[iV + 1:iQ] if which == "normalize_std" else t[iQ + 1:iM])]
            bad = [k for k, (s, v) in enumerate(zip(scales, exact)) if not close(s * s, v, abs(v), 1e-9)]
            return None if not bad else "contract sigma*sigma = %s fails for group %d: %r vs %r" % (
                "var" if which == "normalize_std" else "sumsq", bad[0], scales[bad[0]] ** 2, exact[bad[0]])
        run.ask("stats", "%s %d %d %s" % (mode, c, n, data_s), contract, rp)
    # buffer-level model: the input buffer is untouched and the result is a new buffer
    if spec["kind"] == "Image" and kind == "ok" and len(run.lines) % 3 == 0:
        def frame(rep):
            t = rep.split()
            return None if t[:3] == ["ok", "1", "1"] else "buffer model: %r" % rep[:60]
        run.ask("norms " + statkind, "%s %d 1 %d %d %s%s" % (mode, int(err), c, n, data_s, sc), frame, rp)


def corpus_cases():
    """hand-minimised cases kept from earlier findings (run first on every run)"""
    ones = lambda c, h, w: [[[1.0] * w for _ in range(h)] for _ in range(c)]  # noqa
    out = []
    for c in (1, 2, 3):
        for name in ("normalize_std", "normalize_norm", "normalize_var"):
            out.append({"feature": name, "params": {"mode": "all", "error_on_divide_by_zero": False}, "kind": "Image",
                        "dtype": "float64", "pixels": ones(c, 2, 2), "mask": None, "lms": []})
    out.append({"feature": "normalize", "params": {"mode": "all", "error_on_divide_by_zero": False,
                                                   "scale": {"kind": "scalar", "values": [0.0]}},
                "kind": "Image", "dtype": "float64", "pixels": [[[1.0, 2.0], [3.0, 5.0]]], "mask": None, "lms": []})
    out.append({"feature": "normalize_std", "params": {"mode": "per_channel", "error_on_divide_by_zero": False},
                "kind": "MaskedImage", "dtype": "float64", "pixels": [[[1.0, 1.0], [1.0, 1.0]], [[1.0, 2.0], [3.0, 5.0]]],
                "mask": [[True, False], [True, True]], "lms": [{"key": "g0", "cls": "PointCloud", "points": [[0.5, 1.0]]}]})
    return out


def explore(run, n_wrap, n_norm, model=True):
    rng = run.ctx.rng
    for spec in corpus_cases():
        normaliser_case(run, spec, model)
    for _ in range(n_wrap):
        wrapper_case(run, gen_wrapper_spec(rng), model)
    for i in range(n_norm):
        zero = [None, None, "all", "channel"][i % 4]
        normaliser_case(run, gen_normaliser_spec(rng, zero), model)


def search(ctx):
    """directed search after a broken tie: oracle only, many more cases, emphasis on the branches the wrappers and the
    normalisers decide (size-changing features, masks, landmark groups, zero scales)"""
    r = Run(ctx)
    before = ctx.evaluations
    rng = ctx.rng
    for _ in range(400):
        wrapper_case(r, gen_wrapper_spec(rng, ["daisy", "syn_subsample", "syn_crop", "syn_upsample", "syn_window", "compose",
                                               "gradient", "igo", "es", "gaussian_filter", "no_op", "sum_channels"]), model=False)
    for i in range(400):
        normaliser_case(r, gen_normaliser_spec(rng, [None, "all", "channel"][i % 3]), model=False)
    ctx.searched += ctx.evaluations - before
    return bool(ctx.failures)


def run(ctx):
    common.prepare_lean(ctx, PROP, IMPORTS, THEOREMS)
    have, missing = available_features()
    ctx.notes["features_covered"] = have + ["compose", "syn_subsample", "syn_crop", "syn_upsample", "syn_window"]
    ctx.notes["features_not_importable"] = missing
    r = Run(ctx)
    explore(r, ctx.n(500, 6000), ctx.n(300, 4000))
    r.settle()
    return ctx.finish(search)


def replay(ctx, path):
    data = json.load(open(path))
    print(json.dumps({k: v for k, v in data.items() if k != "replay"}, indent=1)[:2000])
    rp = data.get("replay") or {}
    spec = rp.get("spec") if isinstance(rp, dict) else None
    if spec is None:
        cases = data.get("broken_correspondence") or []
        spec = (cases[0].get("case") or {}).get("spec") if cases else None
    if spec is None:
        print("no recorded case: re-running the quick exploration with the recorded seed %r" % data.get("seed"))
        return run(common.Ctx(PROP, "quick", int(data.get("seed", 0))))
    print("re-running the recorded case: %s %r on a %s %s" % (spec["feature"], spec["params"], spec["kind"], spec["dtype"]))
    common.prepare_lean(ctx, PROP, IMPORTS, THEOREMS)
    r = Run(ctx)
    if spec["feature"] in NORMALISERS and "mode" in spec["params"] and spec["params"].get("error_on_divide_by_zero") is not None \
            and len(spec["pixels"][0]) * len(spec["pixels"][0][0]) <= 64:
        normaliser_case(r, spec)
    else:
        wrapper_case(r, spec)
    r.settle()
    return ctx.finish(search)
