"""C18 — features agree on arrays and images and keep annotations attached (DESIGN.md section 6, C18).

Parties of every case
  implementation : the exported features of menpo.feature (gradient, gaussian_filter, igo, double_igo, es, daisy,
                   no_op, sum_channels, normalize, normalize_std/norm/var), compositions of them, and synthetic
                   array-level features decorated with the real `ndfeature` / `winitfeature` (the decorators are
                   generic in the wrapped function, so is the model);
  oracle         : the property text on the real objects — same values for image and raw array, input digest
                   unchanged, same masked-or-not kind, landmarks/mask unchanged or rescaled with the shape,
                   zero mean, result = centred / statistic (numpy float64 recomputation), unit std / unit norm,
                   idempotence, zero scale refused or skipped, finite values;
  Lean model     : `rebuild` (mask resize in binary64), `rebuildCentres`, `normalizeV`, `normalizeImg`, `normalizeS`,
                   `gradient2` / `gradientFlat`, `igo2`, `es2`, `gauss2`, `noOpS`, `daisyShape`, `daisyPlumb`,
                   `sumChannels2` through the driver (exact rationals in, exact rationals out), the regenerated effect
                   table with its obligations, and the SOURCE TEXT of the feature code translated into Lean on every
                   run (harness/trans_c18.py -> Generated/C18Src.lean) with the equalities `translated = Core model`
                   (GenProps/C18Src.lean) and the property theorems restated for the translated code
                   (GenProps/C18SrcProps.lean).
"""
import json
import math
from fractions import Fraction as F

from . import common
from .common import fq, close

PROP = "C18"
INFO = dict(
    technique="Lean 4 proof (decorators ndfeature/imgfeature/winitfeature and rebuild_feature_image generically over "
              "every array-level feature; the size-changing branch in the code's own binary64 arithmetic, with the "
              "rounding function modelled over Q and its standard error model proved; gradient, no_op, IGO, ES, "
              "gaussian_filter and the DAISY size law inside the model; the normalisers over Q; invariants of arbitrary "
              "feature sequences by induction; buffer-level frame theorems over a hand-written allocation model, the clause 'never "
              "modifies its input' itself being decided by the oracle) + the SOURCE "
              "TEXT of the feature code translated into Lean on every run (harness/py2lean2.py + harness/py2lean2f.py + "
              "harness/trans_c18.py -> Generated/C18Src.lean: the three decorators ndfeature / imgfeature / winitfeature, "
              "rebuild_feature_image, rebuild_feature_image_with_centres, sample_mask_for_centres, lm_centres_correction, "
              "normalize with its default scale function, normalize_std / normalize_norm / normalize_var with the "
              "statistic each passes and the decorator each carries, gradient, gaussian_filter, igo, double_igo, es, no_op, "
              "sum_channels, the option plumbing of daisy up to the call of _daisy, and the decorator of every "
              "module-level feature) and proved equal, for all arguments, to the Core definitions the theorems are about "
              "(GenProps/C18Src.lean), with the property theorems restated for the translated code "
              "(GenProps/C18SrcProps.lean) + a table of "
              "observed effects of every exported feature regenerated from the live code on every run with decide "
              "obligations + model/implementation correspondence and an independent property oracle on every "
              "exported feature that imports in this environment",
    level_text="Theorems over an executable model of menpo/feature/base.py and menpo/feature/features.py: for EVERY "
               "array-level feature f the decorated call on an image returns exactly f(image.pixels) as pixels (and "
               "the same exception), independently of mask and landmarks, keeps the masked-or-not kind, returns mask and "
               "landmarks unchanged when the shape is kept and landmarks scaled by the shape ratio / mask resized when "
               "it is not - the resize modelled operation by operation in binary64 (rne over Q, |rne x - x| <= 2^-53 |x| "
               "proved): np.round(n/o*o) = n for all extents 0 < o, n < 2^40, the sampled index is the nearest source pixel for all "
               "extents 2 <= o, n < 2^20 (one of the two nearest at exact half-way positions), landmarks within 3*2^-53 "
               "relative of the exact rescaling, the ceil variant refuted by witness; any sequence of decorated "
               "features (feature of feature) gives the values of the same sequence on the raw array, keeps kind and "
               "landmark groups, and writes no buffer that existed before it. Kernels inside the model: gradient "
               "(np.gradient stencil, channel order n_dims*C, affine ramps -> constant slope, linearity, uint8/too-small "
               "refusals), no_op (a copy), IGO/ES as functions of the gradient under the square-root contract (layout, "
               "channel counts; cos^2+sin^2 = 1 incl. double angles, ES in the unit disc, NaN exactly at 0/0 - each AT A "
               "PIXEL WHERE the magnitude handed to the model is a non-negative square root of g_y^2+g_x^2: over Q that "
               "holds only where the sum is a rational square, so the same facts are proved over every linearly ordered "
               "field with Real.sqrt as a witness for every pixel, Props/C18Real.lean), gaussian_filter under the kernel contract (constants kept everywhere, affine ramps kept away from "
               "the borders), DAISY grid shape ceil((H-2r)/step). normalize = centred / statistic per channel or "
               "overall, zero mean in every branch, unit variance resp. unit norm and idempotence (also up to the sign "
               "of the scale) under the contract sigma*sigma = var resp. nu*nu = sum of squares (over Q satisfiable only "
               "for data whose variance / sum of squares is a rational square: see partial), a zero statistic "
               "(single-sample groups included) refused exactly when asked and skipped otherwise without ever dividing "
               "by zero (in exact arithmetic: on floats the zero test is rounding-dependent, recorded finding); `normalize` "
               "given a MaskedImage with a partial mask: masked pixels normalised among themselves, zeros outside, "
               "annotations kept - the two calling conventions then do NOT agree (recorded finding, known_findings.txt); the option plumbing of "
               "daisy (which rings / radius / sigmas / ring_radii reach _daisy, what is refused first) and sum_channels. "
               "Tied to /repo by (0) the source translation: the text of menpo/feature/base.py, features.py, "
               "visualize.py and predefined.py of the working tree is rewritten into Lean on every run and 31 equalities "
               "`translated = Core model` (genNdfeature_eq, genImgfeature_eq, genWinitfeature_eq, genRebuild_eq, "
               "genRebuildCentres_eq, genSampleMask_eq, genCentresCorrection_eq, genNormalizeRaw_stat / _default / _other, "
               "genNormalize_stat, genNormalizeStd_eq / Norm / Var, genNoOp_eq, genGradientRaw_eq, genGaussianFilterRaw_eq, "
               "genIgoRaw_eq, genDoubleIgo_eq, genEsRaw_eq, genSumChannelsRaw_eq, genDaisyRaw_eq, genDecorators_ok, …) are "
               "re-proved for all arguments, so the theorems are about what the source says now: the isinstance dispatch "
               "of the decorators, what is passed and what is rebuilt, the mask / landmark branches, the mode branches, "
               "the zero-scale test and its two outcomes, which statistic each normaliser passes, which decorator each "
               "feature carries (the normalisers built on normalize are @ndfeatures), the channel order of gradient, the "
               "slice layout of igo / es, the per-channel loop of gaussian_filter, daisy's overriding of rings / radius; "
               "(1) the regenerated effect table: every exported feature and seven compositions on live read-only "
               "Image/MaskedImage: same kind out, same landmark groups, no attribute of the input changed, every "
               "exported decorated feature known to the model; (2) running every exported feature and compositions on "
               "Image/MaskedImage x 1-4 channels x float32/float64 (integer dtypes for the normalisers) x masks x "
               "landmark groups x 2-D/3-D x C/Fortran/strided/read-only arrays x objects with a previous life, an "
               "extent sweep over (old, new) pairs classified exactly by what binary64 does with them, diffing "
               "kind/mask (every pixel)/landmarks/values against the Lean driver, with the oracle deciding the "
               "property on the real code.",
    level_note="Trusted: Lean kernel; axioms propext/Classical.choice/Quot.sound; Python harness; driver parser; the "
               "translator harness/py2lean2.py + py2lean2f.py and the C18 vocabulary harness/trans_c18.py + "
               "Core/C18Src.lean (one Lean operation per numpy / menpo expression, with that expression's own meaning: "
               "broadcasting, partial attribute access, slices with a step, slice assignment; `verbose` fixed to False). "
               "Vocabulary words with a hand-written meaning, tied by the correspondence only: asVector / fromVector "
               "(Image / MaskedImage.as_vector, from_vector), resizeMask (Image.resize -> rescale -> warp_to_shape, "
               "menpo/image/base.py), the shape check of the MaskedImage constructor (Err.maskShape), sampleMask; both "
               "ValueErrors of normalize (unknown mode, zero scale) are one enum value; the driver's table look-ups of a "
               "given statistic / magnitude default to 1 / 0 on a missed key.  The translation is VALUE-LEVEL: it does not "
               "see copy= flags, in-place vs rebinding or object identity (only no_op's `.copy()` is a typed word: "
               "dropping it makes the translated file ill-typed); which numpy expression allocates and which writes is "
               "ASSUMED by the hand-written Store model (normalizeS, noOpS, ndfeatureS, Frame) - the 'never modifies its "
               "input' clause is decided on the real code by the oracle's digests of pixels / mask / landmarks of "
               "read-only inputs and by the measured effect table, not by the translated obligations.  "
               "Contract parameters (not verified, checked numerically each run): np.std / np.linalg.norm / np.abs of a "
               "complex number return the non-negative square root of the exact variance / sum of squares / g_y^2+g_x^2; "
               "np.angle, sin, cos satisfy sin = g_x/|g|, cos = g_y/|g|, angle(0) = 0 and the double-angle identities; "
               "scipy's gaussian kernel is symmetric and sums to one (its weights are read off the public API each run "
               "and handed to the model); the DAISY descriptor values are the abstract array-level feature f "
               "(deterministic library code), only their grid shape is modelled. Modelled, not verified: float rounding "
               "of the feature VALUES (the model is exact arithmetic; the shape/sampling chain of the mask resize is "
               "modelled in binary64); scipy order-0 sampling = floor(x + 1/2) after clamping (mode 'nearest').",
    rule="a case = one feature (with drawn parameters) applied to one image (kind, dtype, channels, shape, mask, "
         "landmark groups, memory layout, previous life) and to its raw pixel array; distinct = distinct (feature, "
         "parameters, image); non-trivial = the image is not constant and carries a mask or landmarks, or the case "
         "exercises a zero-scale branch of a normaliser",
    partial=["DAISY descriptor VALUES (menpo/external/skimage/_daisy.py: orientation histograms, ring sampling, "
             "l1/l2/daisy normalisation) remain the abstract feature f of the wrapper theorems; its grid shape and "
             "channel count are modelled and compared on every case",
             "square roots and trigonometry are contract parameters: the model receives numpy's sqrt of its own exact "
             "variance / sum of squares / squared gradient magnitude and the gaussian weights scipy uses (symmetry and "
             "unit sum checked numerically on every run); feature values are compared to 1e-9 (float32: 2e-4)",
             "an axis of extent 1 (old or new) makes the coded mask resize sample at NaN/inf coordinates: shape and "
             "kind are proved and checked, the mask content on such an axis only by the uniform-neighbourhood oracle",
             "dsift / fast_dsift / vector_128_dsift / hellinger_vector_128_dsift (the only exported @winitfeature "
             "features) do not import here (cyvlfeat missing): winitfeature is proved generically and exercised "
             "with a synthetic window feature through the real decorator",
             "the theorems about the numerical kernels (and the translation equalities of gradient / igo / es) are "
             "stated for 2-D images, rectangular with at least one channel; their N-D variants on flat data (3-D "
             "gradient and gaussian_filter) are tied to them by a per-case equality check in the driver and to the "
             "code by the correspondence",
             "the unit-variance / unit-norm / idempotence theorems assume sigma*sigma = var resp. nu*nu = sum of squares "
             "for a statistic over Q, and gauss_const / gauss_ramp_interior assume a kernel summing to 1 exactly: over Q "
             "these hypotheses hold only for special data (variance a rational square; the examples use such rows) and "
             "for no float run (the harness checks the contracts to 1e-9 / 1e-12); they are true statements about the "
             "algebra of the code, not generalised to an ordered field (only the IGO / ES pixel facts were, "
             "Props/C18Real.lean); the clauses themselves are decided on the real code by the oracle",
             "the zero-scale clause is proved for exact arithmetic; on floats the code's `scale_factor == 0` is decided on "
             "rounded numbers: constant images of a value that is not exactly representable (k/255, 0.1) are generated "
             "on every run and normalize_norm's failure to refuse / skip them is a recorded finding (known_findings.txt)",
             "`normalize` given a MaskedImage with a partial mask does not agree with `normalize` on the raw array "
             "(statistics over the masked pixels only): judged by the oracle as the text states it, recorded as a known "
             "finding; normalizeImg_agrees_plain covers unmasked and all-true masks only",
             "group class / labels / edges of landmark groups surviving the rebuild are checked by the oracle only (the "
             "model carries key and points); the 'never modifies its input' theorems are about the hand-written Store "
             "model (which expression allocates is assumed, not translated)",
             "integer pixel dtypes: every feature is run on uint8 / int16 / int32 / int64 images and arrays under the "
             "oracle (both conventions agree, input untouched, annotations kept); gradient / igo / es / daisy refuse "
             "uint8 (TypeError, in both conventions: inside the model), igo / es / gaussian_filter write their result "
             "into an array of the input's integer dtype (truncated values): outside the exact model, oracle only"],
    assumptions=["numpy float64 arithmetic on small dyadic inputs is accurate to 1e-12 relative",
                 "which numpy expression allocates a new buffer and which writes in place is as the Store model says "
                 "(not visible to the value-level translation; watched by the digest oracle on read-only inputs)",
                 "features are deterministic functions of their input array",
                 "numpy's float64 division / multiplication / subtraction / addition round to nearest even (IEEE 754), "
                 "as the model's rne does; validated by the extent sweep on every run"],
    design_ref="DESIGN.md section 6, C18")
IMPORTS = ["MenpoModel.Props.C18", "MenpoModel.GenProps.C18"]
TARGETS = ["MenpoModel.Props.C18", "MenpoModel.Drive.C18", "MenpoModel.GenProps.C18"]
THEOREMS = [
    "MenpoModel.GenProps.C18.featureRows_ok", "MenpoModel.GenProps.C18.featureRows_cover",
    "MenpoModel.GenProps.C18.liveExported_known",
    "MenpoModel.C18.ndfeature_agrees", "MenpoModel.C18.ndfeature_error_agrees", "MenpoModel.C18.imgfeature_agrees",
    "MenpoModel.C18.winitfeature_agrees", "MenpoModel.C18.ndfeature_total",
    "MenpoModel.C18.feature_keeps_kind", "MenpoModel.C18.feature_same_size_keeps_annotations",
    "MenpoModel.C18.feature_new_size_rescales", "MenpoModel.C18.srcAxis_nearest", "MenpoModel.C18.srcAxis_same",
    "MenpoModel.C18.scaleLms_keys", "MenpoModel.C18.scaleLms_points",
    "MenpoModel.C18.winit_annotations", "MenpoModel.C18.winit_landmark_on_grid",
    "MenpoModel.C18.normalize_per_channel_spec", "MenpoModel.C18.normalize_all_spec",
    "MenpoModel.C18.normalize_zero_mean_per_channel", "MenpoModel.C18.normalize_zero_mean_all",
    "MenpoModel.C18.normalize_std_unit_all", "MenpoModel.C18.normalize_norm_unit_all",
    "MenpoModel.C18.normalize_std_unit_per_channel", "MenpoModel.C18.normalize_norm_unit_per_channel",
    "MenpoModel.C18.normalize_std_idempotent_all", "MenpoModel.C18.normalize_norm_idempotent_all",
    "MenpoModel.C18.normalize_std_idempotent_per_channel", "MenpoModel.C18.normalize_norm_idempotent_per_channel",
    "MenpoModel.C18.normalize_zero_scale_fixed", "MenpoModel.C18.normalize_skip_total",
    "MenpoModel.C18.normalize_never_nonfinite",
    "MenpoModel.C18.normalize_zero_scale_coded_refuted", "MenpoModel.C18.normalize_zero_scale_coded_all",
    "MenpoModel.C18.normalize_coded_eq_fixed",
    "MenpoModel.C18.normalizeImg_annotations", "MenpoModel.C18.normalizeImg_agrees_plain",
    "MenpoModel.C18.normalizeImg_masked", "MenpoModel.C18.normalizeNd_spec", "MenpoModel.C18.normalizeNd_array",
    "MenpoModel.C18.ndfeature_compose_pixels", "MenpoModel.C18.landmarks_compose_2d",
    "MenpoModel.C18.normalize_input_untouched", "MenpoModel.C18.wrapper_input_untouched",
    "MenpoModel.C18.normalizeS_frame",
    # Part D: the numerical kernels inside the model
    "MenpoModel.C18.gradient_errors", "MenpoModel.C18.gradient_channel_count", "MenpoModel.C18.gradient_channel_order",
    "MenpoModel.C18.gradient_shape", "MenpoModel.C18.gradient_on_image", "MenpoModel.C18.gradient_ramp",
    "MenpoModel.C18.gradient_linear", "MenpoModel.C18.gradient_stencil",
    "MenpoModel.C18.no_op_on_image", "MenpoModel.C18.no_op_copies", "MenpoModel.C18.noOpS_frame",
    "MenpoModel.C18.unitDir_unit", "MenpoModel.C18.unitDir_double_unit", "MenpoModel.C18.igo_layout",
    "MenpoModel.C18.igo_channel_count", "MenpoModel.C18.igo_error", "MenpoModel.C18.igo_pixel_unit",
    "MenpoModel.C18.igo_shape", "MenpoModel.C18.igo_on_image", "MenpoModel.C18.igo_es_refuse_non2d",
    "MenpoModel.C18.median_nonneg", "MenpoModel.C18.es_pixel_bounded", "MenpoModel.C18.es_nan_iff",
    "MenpoModel.C18.es_layout", "MenpoModel.C18.es_channel_count",
    "MenpoModel.C18.corr1_const", "MenpoModel.C18.corr1_affine_interior", "MenpoModel.C18.gauss_const",
    "MenpoModel.C18.gauss_ramp_interior", "MenpoModel.C18.gauss_shape", "MenpoModel.C18.gauss_on_image",
    "MenpoModel.C18.daisy_extent", "MenpoModel.C18.daisy_annotations",
    # Part E: feature of feature
    "MenpoModel.C18.ndfeature_ignores_annotations", "MenpoModel.C18.feature_seq_agrees", "MenpoModel.C18.feature_seq_kind_and_groups",
    "MenpoModel.C18.feature_seq_same_size", "MenpoModel.C18.feature_seq_input_untouched",
    "MenpoModel.C18.feature_seq_reads",
    # Part F: binary64
    "MenpoModel.C18.rne_rel_err", "MenpoModel.C18.scaledExtent_close", "MenpoModel.C18.tmplExt_round_exact",
    "MenpoModel.C18.rescale_variant_refuted", "MenpoModel.C18.posF_close", "MenpoModel.C18.srcF_near",
    "MenpoModel.C18.srcF_eq_spec", "MenpoModel.C18.srcF_tie", "MenpoModel.C18.resizeMask_2d",
    "MenpoModel.C18.resizeMask_2d_nearest",
    "MenpoModel.C18.landmark_scale_binary64",
    # Part G: normalisers on degenerate data, idempotence up to sign
    "MenpoModel.C18.normalize_single_sample_per_channel", "MenpoModel.C18.normalize_single_sample_all",
    "MenpoModel.C18.normalize_std_idempotent_up_to_sign", "MenpoModel.C18.normalize_norm_idempotent_up_to_sign",
    # Part H: the option plumbing of daisy, sum_channels (Props/C18Plumb.lean)
    "MenpoModel.C18.daisyLayout_length", "MenpoModel.C18.daisyLayout_get", "MenpoModel.C18.daisyLayout_last",
    "MenpoModel.C18.daisyPlumb_defaults", "MenpoModel.C18.daisyPlumb_ring_radii", "MenpoModel.C18.daisyPlumb_sigmas",
    "MenpoModel.C18.daisyPlumb_both", "MenpoModel.C18.daisyPlumb_refusals", "MenpoModel.C18.daisyPlumb_ok_complete",
    "MenpoModel.C18.sumChannels2_one_channel", "MenpoModel.C18.sumChannels2_all",
    # Part I: the IGO / ES pixel facts over any linearly ordered field, the reals as witness (Props/C18Real.lean)
    "MenpoModel.C18.unitDirK_unit", "MenpoModel.C18.unitDirK_double_unit", "MenpoModel.C18.esPixK_bounded",
    "MenpoModel.C18.esPixK_nan_iff", "MenpoModel.C18.unitDir_eq_unitDirK", "MenpoModel.C18.esPix_eq_esPixK",
    "MenpoModel.C18.realMag_spec", "MenpoModel.C18.igo_unit_real",
]

# the translated source = the Core model (GenProps/C18Src.lean; `Generated/C18Src.lean` is rewritten by every run)
SRC_IMPORT = "MenpoModel.GenProps.C18Src"
SRC_THEOREMS = ["MenpoModel.GenProps.C18Src." + t for t in (
    "genSampleMask_eq genCentresCorrection_eq genRebuild_eq genRebuildCentres_eq genNdfeature_eq genImgfeature_eq "
    "genWinitfeature_eq genNormalizeRaw_stat genNormalizeRaw_default genNormalizeRaw_other genNormalize_stat "
    "genNormalize_default genNormalize_on_array genNormalizeStd_eq genNormalizeNorm_eq genNormalizeVar_eq genNoOp_eq "
    "genGradientRaw_eq genGradient_eq genGaussianFilterRaw_eq genGaussianFilter_eq genDecorators_ok "
    "genGradient_on_array genIgoRaw_eq genIgo_eq genDoubleIgo_eq genEsRaw_eq genSumChannelsRaw_eq genSumChannels_eq "
    "genDaisyRaw_eq genDaisy_eq genDefaults_ok "
    # GenProps/C18SrcProps.lean: the property theorems restated for the translated code
    "src_ndfeature_agrees src_ndfeature_error_agrees src_imgfeature_agrees src_winitfeature_agrees "
    "src_feature_keeps_kind src_feature_same_size_keeps_annotations src_feature_new_size_rescales "
    "src_normalize_zero_scale src_normalize_skip_total src_normalize_never_nonfinite src_normalize_per_channel "
    "src_normalize_all src_normalize_annotations src_normalisers_agree src_normalisers_spec "
    "src_gradient_channel_order").split()]
SRC_IMPORTS = [SRC_IMPORT, "MenpoModel.GenProps.C18SrcProps"]
THEOREMS += SRC_THEOREMS

NORMALISERS = ("normalize", "normalize_std", "normalize_norm", "normalize_var")
UNAVAILABLE = ("dsift", "fast_dsift", "vector_128_dsift", "hellinger_vector_128_dsift")


# ------------------------------------------------------------------------------- features

def _synthetic():
    """array-level features decorated with the REAL decorators (generic f of the wrapper theorems)"""
    import numpy as np
    from menpo.feature.base import ndfeature, winitfeature

    @ndfeature
    def syn_subsample(pixels, sy=2, sx=2):
        return pixels[:, ::sy, ::sx] * 2.0 + 1.0

    @ndfeature
    def syn_crop(pixels, b=1):
        return pixels[:, b:-b, b:-b].copy()

    @ndfeature
    def syn_upsample(pixels, ky=2, kx=2):
        return np.repeat(np.repeat(pixels, ky, axis=1), kx, axis=2)

    @ndfeature
    def syn_resample(pixels, nh=2, nw=2):
        # index resampling to (nh, nw) by the exact integer rule (cheap stand-in for a size-changing feature:
        # the decorator only looks at the shape of what comes back)
        def idx(o, n):
            return [min(o - 1, (2 * i * (o - 1) + (n - 1)) // (2 * (n - 1))) if n > 1 else 0 for i in range(n)]
        return pixels[:, idx(pixels.shape[1], nh)][:, :, idx(pixels.shape[2], nw)] + 0.25

    @ndfeature
    def syn_subsample3(pixels, sz=1, sy=2, sx=1):
        return pixels[:, ::sz, ::sy, ::sx] * 0.5

    @winitfeature
    def syn_window(pixels, sv=2, sh=2, r0=1, c0=1):
        rows = np.arange(r0, pixels.shape[1], sv)
        cols = np.arange(c0, pixels.shape[2], sh)
        centres = np.stack(np.meshgrid(rows, cols, indexing="ij"), axis=-1)
        return pixels[:, centres[..., 0], centres[..., 1]] - 0.5, centres

    return dict(syn_subsample=syn_subsample, syn_crop=syn_crop, syn_upsample=syn_upsample, syn_window=syn_window,
                syn_resample=syn_resample, syn_subsample3=syn_subsample3)


_SYN = {}


def apply_feature(name, params, x):
    """call feature `name` (params: JSON-able dict) on an image or an ndarray through the public API"""
    import numpy as np
    import menpo.feature as mf
    if not _SYN:
        _SYN.update(_synthetic())
    p = dict(params)
    if name == "compose":
        for sub, sp in p["steps"]:
            x = apply_feature(sub, sp, x)
        return x
    if name in _SYN:
        return _SYN[name](x, **p)
    if name == "normalize":
        sc = p.pop("scale", None)
        if sc is not None:
            vals = np.array(sc["values"], dtype=float)
            shape0 = sc["kind"] == "scalar"

            def scale_func(_, axis=None, _v=vals, _s=shape0):
                return np.array(_v[0]) if _s else _v.copy()
            p["scale_func"] = scale_func
        return mf.normalize(x, **p)
    if name == "gaussian_filter":
        return mf.gaussian_filter(x, p["sigma"])
    return getattr(mf, name)(x, **p)


def available_features():
    import menpo.feature as mf
    have = [n for n in ("gradient", "gaussian_filter", "igo", "double_igo", "es", "daisy", "no_op", "sum_channels",
                        "normalize", "normalize_std", "normalize_norm", "normalize_var") if hasattr(mf, n)]
    missing = [n for n in UNAVAILABLE if not hasattr(mf, n)]
    return have, missing


# ------------------------------------------------------------------------------- case specs

def dy(rng, kmax=32, mexp=3):
    return rng.randint(-kmax, kmax) / float(2 ** rng.randint(0, mexp))


def gen_pixels(rng, c, h, w, flavour):
    """small dyadic pixel values; flavours: random | constant-channel | constant | ramp"""
    px = [[[dy(rng) for _ in range(w)] for _ in range(h)] for _ in range(c)]
    if flavour == "constant":
        v = dy(rng)
        px = [[[v] * w for _ in range(h)] for _ in range(c)]
    elif flavour == "constant-channel":
        k = rng.randrange(c)
        v = dy(rng)
        px[k] = [[v] * w for _ in range(h)]
    elif flavour == "tiny":
        # small but non-zero amplitude (exactly representable): the scale statistic is far below any "close to
        # zero" tolerance, yet it is not zero, so the data must still be normalised
        k = 2.0 ** -rng.choice([14, 30, 40])
        px = [[[(v if v != 0 else 1.0) * k for v in row] for row in ch] for ch in px]
    elif flavour == "ramp":
        a, b = dy(rng, 8, 2), dy(rng, 8, 2)
        px = [[[a * i + b * j + ch for j in range(w)] for i in range(h)] for ch in range(c)]
    return px


def gen_mask(rng, h, w, flavour):
    if flavour == "all-true":
        return [[True] * w for _ in range(h)]
    if flavour == "all-false":
        return [[False] * w for _ in range(h)]
    if flavour == "one":
        i, j = rng.randrange(h), rng.randrange(w)
        return [[(a, b) == (i, j) for b in range(w)] for a in range(h)]
    if flavour == "block":
        r0, r1 = sorted((rng.randint(0, h), rng.randint(0, h)))
        c0, c1 = sorted((rng.randint(0, w), rng.randint(0, w)))
        return [[(r0 <= i < max(r1, r0 + 1)) and (c0 <= j < max(c1, c0 + 1)) for j in range(w)] for i in range(h)]
    return [[rng.random() < 0.6 for _ in range(w)] for _ in range(h)]


def gen_lms(rng, h, w):
    """landmark groups; one point in four sits on a border (first / last row or column, the far corner of the extent
    `(h, w)`) or slightly outside the image (negative, beyond the last pixel): legal in menpo, and exactly where a
    'keep the landmarks inside' step would show"""
    def coord(n):
        r = rng.random()
        if r < 0.75:
            return rng.randint(0, 4 * (n - 1)) / 4.0
        return rng.choice([0.0, float(n - 1), float(n), n - 0.75, n - 0.25, -0.5, -1.25, n + 0.5, n + 2.0])
    groups = []
    for g in range(rng.choice([0, 1, 1, 2, 3])):
        n = rng.randint(1, 5)
        pts = [[coord(h), coord(w)] for _ in range(n)]
        groups.append({"key": "g%d" % g, "cls": rng.choice(["PointCloud", "PointUndirectedGraph", "Labelled"]),
                       "points": pts})
    return groups


def build_image(spec):
    """the image of a case spec.  Optional keys: "history" (a previous life of the object: copy | converted from the
    other kind | pickled), "readonly" (every buffer the caller owns is made read-only: a feature writing into its
    input then raises instead of passing unnoticed)"""
    import numpy as np
    from menpo.image import Image, MaskedImage
    from menpo.shape import PointCloud, PointUndirectedGraph, LabelledPointUndirectedGraph
    px = np.array(spec["pixels"], dtype=spec["dtype"])
    hist = spec.get("history")
    masked = spec["kind"] == "MaskedImage"
    if masked and hist == "converted":
        img = Image(px)                                   # born unmasked, landmarks attached, then given a mask
    elif (not masked) and hist == "converted":
        img = MaskedImage(px, mask=np.ones(px.shape[1:], dtype=bool))
    elif masked:
        img = MaskedImage(px, mask=np.array(spec["mask"], dtype=bool))
    else:
        img = Image(px)
    for g in spec["lms"]:
        pts = np.array(g["points"], dtype=float)
        n = len(pts)
        edges = np.array([[i, i + 1] for i in range(n - 1)], dtype=int).reshape(-1, 2)
        if g["cls"] == "PointCloud":
            sh = PointCloud(pts)
        elif g["cls"] == "PointUndirectedGraph":
            sh = PointUndirectedGraph.init_from_edges(pts, edges)
        else:
            adj = np.zeros((n, n), dtype=int)
            for a, b in edges:
                adj[a, b] = adj[b, a] = 1
            sh = LabelledPointUndirectedGraph.init_with_all_label(pts, adj)
        img.landmarks[g["key"]] = sh
    if hist == "converted":
        img = img.as_masked(mask=np.array(spec["mask"], dtype=bool)) if masked else img.as_unmasked()
    elif hist == "copy":
        img = img.copy()
    elif hist == "pickled":
        import pickle
        img = pickle.loads(pickle.dumps(img))
    if spec.get("readonly"):
        img.pixels.setflags(write=False)
        if masked:
            img.mask.pixels.setflags(write=False)
        for k in (img.landmarks.keys() if img.has_landmarks else []):
            img.landmarks[k].points.setflags(write=False)
    return img


def make_array(spec):
    """the raw pixel array of a case spec in the requested memory layout ("layout": C | F | strided) and
    writability ("readonly")"""
    import numpy as np
    arr = np.array(spec["pixels"], dtype=spec["dtype"])
    lay = spec.get("layout", "C")
    if lay == "F":
        arr = np.asfortranarray(arr)
    elif lay == "strided":
        big = np.zeros(tuple(2 * k for k in arr.shape), dtype=arr.dtype)
        view = big[tuple(slice(1, None, 2) for _ in arr.shape)]
        view[...] = arr
        arr = view
    if spec.get("readonly"):
        arr.setflags(write=False)
    return arr


def digest(img):
    """everything observable about an image's data, as comparable python values"""
    d = {"pixels": img.pixels.tobytes(), "dtype": str(img.pixels.dtype), "shape": tuple(img.pixels.shape)}
    if hasattr(img, "mask"):
        m = img.mask
        d["mask"] = (m.mask if hasattr(m, "mask") else m).tobytes()      # BooleanImage.mask is the array itself
    d["lms"] = lms_state(img)
    return d


def lms_state(img):
    out = []
    if img.has_landmarks:
        for k in img.landmarks.keys():
            g = img.landmarks[k]
            labels = tuple(sorted(getattr(g, "labels", []))) if hasattr(g, "labels") else ()
            edges = tuple(map(tuple, g.edges.tolist())) if hasattr(g, "edges") else ()
            out.append((k, type(g).__name__, g.points.tobytes(), labels, edges))
    return out


def daisy_effective(params):
    """(radius, rings) that reach `_daisy` by the documented overriding rules, None when the call is refused first
    (inconsistent lengths, empty ring_radii, unknown normalisation)"""
    sg, rr = params.get("sigmas"), params.get("ring_radii")
    if params.get("normalization") not in ("l1", "l2", "daisy", "off", None):
        return None
    if sg is not None and rr is not None and len(sg) - 1 != len(rr):
        return None
    if rr is not None and not rr:
        return None
    radius = rr[-1] if rr is not None else params["radius"]
    rings = len(sg) - 1 if sg is not None else (len(rr) if rr is not None else params["rings"])
    return radius, rings


class daisy_spy:
    """records what `menpo.feature.daisy` hands to `_daisy` (the function imports it from its module on every call)"""

    def __enter__(self):
        import importlib
        import inspect
        D = importlib.import_module("menpo.external.skimage._daisy")     # (the package re-exports the function under
        # the same name, so `import … as` would give the function)
        self.mod, self.orig, self.calls = D, D._daisy, []
        sig = inspect.signature(self.orig)

        def spy(*a, **kw):
            b = sig.bind(*a, **kw)
            self.calls.append({k: v for k, v in b.arguments.items() if k != "img"})
            return self.orig(*a, **kw)
        D._daisy = spy
        return self

    def __exit__(self, *exc):
        self.mod._daisy = self.orig
        return False


def min_size(name, params):
    if name == "daisy":
        eff = daisy_effective(params)
        return 2 * int(eff[0] if eff else params["radius"]) + 1
    if name == "syn_crop":
        return 2 * params["b"] + 1
    if name == "compose":
        return max(min_size(n, p) for n, p in params["steps"]) + 6
    if name in ("gradient", "igo", "double_igo", "es"):
        return 2
    if name == "syn_window":
        return 4
    return 1          # syn_resample, no_op, gaussian_filter, sum_channels, the normalisers


def gen_feature(rng, pool):
    """(name, params) drawn from the pool of feature families"""
    name = rng.choice(pool)
    if name == "gaussian_filter":
        return name, {"sigma": rng.choice([0.5, 1.0, 2.0, [1.0, 0.5]])}
    if name == "igo":
        return name, {"double_angles": rng.random() < 0.5}
    if name == "daisy":
        p = {"step": rng.randint(1, 4), "radius": rng.randint(1, 4), "rings": rng.randint(1, 2),
             "histograms": rng.randint(1, 3), "orientations": rng.randint(2, 4),
             "normalization": rng.choice(["l1", "l2", "daisy", None, "off"])}
        # the options that override rings / radius (and the refusals before `_daisy` runs)
        v = rng.choice(["default"] * 6 + ["sigmas", "radii", "both", "both-bad", "radii-empty", "bad-normalization"])
        if v in ("sigmas", "both", "both-bad"):
            p["sigmas"] = [rng.choice([0.5, 1.0, 1.5, 2.0]) for _ in range(rng.randint(1, 3))]
        if v == "radii":
            p["ring_radii"] = sorted(rng.sample([1, 2, 3, 4], rng.randint(1, 2)))
        if v == "both":
            k = len(p["sigmas"]) - 1
            p["ring_radii"] = sorted(rng.sample([1, 2, 3, 4], k))
        if v == "both-bad":
            p["ring_radii"] = sorted(rng.sample([1, 2, 3, 4], len(p["sigmas"]) % 3 + 1))
            if len(p["sigmas"]) - 1 == len(p["ring_radii"]):
                p["ring_radii"] = p["ring_radii"] + [4]
        if v == "radii-empty":
            p["ring_radii"] = []
        if v == "bad-normalization":
            p["normalization"] = "l3"
        return name, p
    if name == "sum_channels":
        return name, {"channels": None}
    if name in ("normalize_std", "normalize_norm", "normalize_var"):
        return name, {"mode": rng.choice(["all", "per_channel"]), "error_on_divide_by_zero": rng.random() < 0.5}
    if name == "normalize":
        return name, {"mode": rng.choice(["all", "per_channel"]), "error_on_divide_by_zero": rng.random() < 0.5,
                      "scale": None}
    if name == "syn_subsample":
        return name, {"sy": rng.randint(1, 3), "sx": rng.randint(1, 3)}
    if name == "syn_crop":
        return name, {"b": rng.randint(1, 2)}
    if name == "syn_upsample":
        return name, {"ky": rng.randint(1, 3), "kx": rng.randint(1, 2)}
    if name == "syn_window":
        return name, {"sv": rng.randint(1, 3), "sh": rng.randint(1, 3), "r0": rng.randint(0, 2), "c0": rng.randint(0, 2)}
    if name == "compose":
        inner = ["gradient", "gaussian_filter", "igo", "es", "no_op", "sum_channels", "normalize_std", "normalize_norm",
                 "daisy", "syn_subsample", "syn_crop"]
        steps = []
        for _ in range(rng.randint(2, 3)):
            n, p = gen_feature(rng, inner)
            if n in ("normalize_std", "normalize_norm"):
                p["error_on_divide_by_zero"] = False
                p["mode"] = "per_channel"
            if n == "daisy":
                p.update(radius=rng.randint(1, 2), step=rng.randint(1, 2), rings=1, histograms=1, orientations=2)
            steps.append([n, p])
        return name, {"steps": steps}
    return name, {}


WRAP_POOL = ["gradient", "gaussian_filter", "igo", "double_igo", "es", "daisy", "daisy", "no_op", "sum_channels",
             "normalize_std", "normalize_norm", "normalize_var", "normalize", "compose", "compose",
             "syn_subsample", "syn_crop", "syn_upsample", "syn_window"]


def gen_options(rng):
    """memory layout of the raw array, writability, previous life of the image / the feature"""
    return {"layout": rng.choice(["C", "C", "F", "strided"]), "readonly": rng.random() < 0.3,
            "history": rng.choice([None, None, "copy", "converted", "pickled", "called_before"])}


def gen_wrapper_spec(rng, pool=WRAP_POOL):
    name, params = gen_feature(rng, pool)
    lo = min_size(name, params)
    if lo < 2 and rng.random() < 0.7:
        lo = 2                                             # otherwise: images one pixel wide / high
    h, w = lo + rng.randint(0, 9), lo + rng.randint(0, 9)
    if lo == 1:
        h, w = rng.choice([(1, w), (h, 1), (1, 1), (h, w)])
    if name == "daisy" and rng.random() < 0.15:
        h = lo                                         # output extent 1: the degenerate mask axis
    c = rng.randint(1, 4)
    if name == "sum_channels" and rng.random() < 0.5:
        params = {"channels": [rng.randrange(c) for _ in range(rng.randint(1, 3))]}
    flavour = rng.choice(["random", "random", "random", "ramp", "constant-channel"])
    if name in NORMALISERS or name == "compose":
        flavour = rng.choice(["random", "random", "ramp"])
        params = dict(params)
        if name in NORMALISERS:
            params["error_on_divide_by_zero"] = True
    kind = rng.choice(["Image", "MaskedImage", "MaskedImage"])
    dtype = rng.choice(["float64"] * 5 + ["float32"] * 3 + ["uint8", "int16", "int32", "int64"])
    px = gen_pixels(rng, c, h, w, flavour)
    if not dtype.startswith("float"):
        px = integer_pixels(px, dtype)
    spec = {"feature": name, "params": params, "kind": kind, "dtype": dtype,
            "pixels": px,
            "mask": gen_mask(rng, h, w, rng.choice(["random", "random", "block", "all-true", "all-false"]))
            if kind == "MaskedImage" else None,
            "lms": gen_lms(rng, h, w)}
    spec.update(gen_options(rng))
    return spec


def integer_pixels(px, dtype):
    """the same (dyadic) pixels as whole numbers that the integer dtype holds exactly; uint8 needs non-negative values"""
    return [[[float(abs(int(v * 8)) % 200 if dtype == "uint8" else int(v * 8)) for v in row] for row in ch] for ch in px]


VOLUME_POOL = ["gradient", "gradient", "gaussian_filter", "no_op", "normalize_std", "normalize_norm", "normalize_var",
               "syn_subsample3", "syn_subsample3", "igo", "es"]


def gen_volume_spec(rng):
    """3-D images (C, Z, Y, X): the features that accept them, the size-changing decorator branch in three
    dimensions, and the features that refuse them (igo / es: ValueError in both conventions)"""
    name = rng.choice(VOLUME_POOL)
    params = {}
    if name == "gaussian_filter":
        params = {"sigma": rng.choice([0.5, 1.0])}
    elif name in ("normalize_std", "normalize_norm", "normalize_var"):
        params = {"mode": rng.choice(["all", "per_channel"]), "error_on_divide_by_zero": True}
    elif name == "syn_subsample3":
        params = {"sz": rng.randint(1, 2), "sy": rng.randint(1, 3), "sx": rng.randint(1, 2)}
        if params["sz"] == params["sy"] == params["sx"] == 1:
            params["sy"] = 2
    d, h, w = rng.randint(2, 5), rng.randint(2, 5), rng.randint(2, 4)
    c = rng.randint(1, 2)
    kind = rng.choice(["Image", "MaskedImage", "MaskedImage"])
    px = [[[[dy(rng) for _ in range(w)] for _ in range(h)] for _ in range(d)] for _ in range(c)]
    mask = [[[rng.random() < 0.6 for _ in range(w)] for _ in range(h)] for _ in range(d)] if kind == "MaskedImage" else None
    lms = []
    for g in range(rng.choice([0, 1, 2])):
        pts = [[rng.randint(0, 4 * (d - 1)) / 4.0, rng.randint(0, 4 * (h - 1)) / 4.0, rng.randint(0, 4 * (w - 1)) / 4.0]
               for _ in range(rng.randint(1, 4))]
        lms.append({"key": "g%d" % g, "cls": "PointCloud", "points": pts})
    spec = {"feature": name, "params": params, "kind": kind, "dtype": rng.choice(["float64", "float64", "float32"]),
            "pixels": px, "mask": mask, "lms": lms}
    spec.update(gen_options(rng))
    return spec


_PAIRS = {}


def extent_pairs(lo=2, hi=64):
    """(old, new) extent pairs by what the binary64 chain of `resize` does with them, enumerated exactly:
    over / under : float(old) * (float(new) / float(old)) lands above / below the integer `new`
    tie          : some new index is sampled exactly half-way between two old indices
    """
    if not _PAIRS:
        over, under, tie = [], [], []
        for o in range(lo, hi + 1):
            for n in range(lo, hi + 1):
                if n == o:
                    continue
                t = float(o) * (float(n) / float(o))
                if t > n:
                    over.append((o, n))
                elif t < n:
                    under.append((o, n))
                if any((2 * i * (o - 1) + (n - 1)) % (2 * (n - 1)) == 0 for i in range(1, n - 1)):
                    tie.append((o, n))
        _PAIRS.update(over=over, under=under, tie=tie)
    return _PAIRS


def gen_sweep_spec(rng, cls):
    """extent sweep: the synthetic index-resampling feature (real @ndfeature) on a small image whose one axis goes
    through an (old, new) extent pair of class `cls` in {over, under, tie, one, random}"""
    if cls in ("over", "under", "tie"):
        o, n = rng.choice(extent_pairs()[cls])
    elif cls == "one":
        o, n = rng.choice([(1, rng.randint(1, 6)), (rng.randint(2, 9), 1), (1, 1), (2, 1), (1, 2)])
    else:
        o, n = rng.randint(2, 40), rng.randint(2, 40)
    o2 = rng.randint(2, 4)
    n2 = o2 if rng.random() < 0.5 else rng.choice([k for k in (1, 2, 3, 4, 5, 7) if k != o2 and (k > 1 or cls == "one")])
    if (o, o2) == (n, n2):
        n2 = o2 + 1
    axis = rng.randrange(2)
    (h, w), (nh, nw) = ((o, o2), (n, n2)) if axis == 0 else ((o2, o), (n2, n))
    c = rng.randint(1, 2)
    kind = rng.choice(["MaskedImage", "MaskedImage", "MaskedImage", "Image"])
    return {"feature": "syn_resample", "params": {"nh": nh, "nw": nw}, "kind": kind,
            "dtype": rng.choice(["float64", "float64", "float32"]),
            "pixels": gen_pixels(rng, c, h, w, "random"),
            "mask": gen_mask(rng, h, w, rng.choice(["random", "random", "random", "block", "all-true"]))
            if kind == "MaskedImage" else None,
            "lms": gen_lms(rng, h, w), "sweep": cls}


def gen_normaliser_spec(rng, zero=None):
    """normaliser case on a small image; `zero`: None | 'all' | 'channel' forces a zero statistic"""
    name = rng.choice(["normalize_std", "normalize_norm", "normalize_var", "normalize", "normalize"])
    mode = rng.choice(["all", "per_channel"])
    c = rng.randint(1, 4)
    h, w = rng.randint(1, 6), rng.randint(1, 6)
    flavour = "random"
    if zero == "all":
        flavour = "constant"
    elif zero == "channel":
        flavour, mode = "constant-channel", "per_channel"
    elif rng.random() < 0.2:
        flavour = "tiny"
    elif rng.random() < 0.12:
        flavour = "nondyadic-constant"
    params = {"mode": mode, "error_on_divide_by_zero": rng.random() < 0.5}
    kind = rng.choice(["Image", "Image", "MaskedImage"])
    if name == "normalize":
        r = rng.random()
        if r < 0.35:
            params["scale"] = None
        else:
            n = 1 if mode == "all" else c
            vals = [rng.choice([0.5, 2.0, 4.0, -2.0, 0.25]) for _ in range(n)]
            if zero is not None:
                vals[rng.randrange(n)] = 0.0
            params["scale"] = {"kind": "scalar" if (mode == "all" and rng.random() < 0.5) else "array", "values": vals}
            flavour = "random"
    mask = None
    if kind == "MaskedImage":
        mask = gen_mask(rng, h, w, rng.choice(["random", "block", "all-true", "one"]))
        if sum(map(sum, mask)) < 1:
            mask = [[True] * w for _ in range(h)]
    dtype = rng.choice(["float64", "float64", "float32", "float64", "int64", "int32", "uint8", "int16"])
    if flavour == "nondyadic-constant":
        # ordinary grey levels: a constant channel whose value is NOT exactly representable (k/255, 0.1): mean and
        # centring round, so "constant => statistic == 0" is no longer exact in floating point
        name = rng.choice(["normalize_std", "normalize_norm", "normalize_norm", "normalize_var"])
        dtype, kind, mask = "float64", "Image", None
        params = {"mode": mode, "error_on_divide_by_zero": rng.random() < 0.5}
        h, w = rng.randint(2, 8), rng.randint(2, 8)
        vals = [rng.choice([rng.randint(1, 254) / 255.0, 0.1, 0.3, 1.0 / 3.0]) for _ in range(c)]
        if mode == "all":
            vals = [vals[0]] * c
        px = [[[v] * w for _ in range(h)] for v in vals]
    else:
        px = gen_pixels(rng, c, h, w, flavour)
    if not dtype.startswith("float"):
        # integer pixels (the normalisers promote to float64); uint8 needs non-negative values
        px = integer_pixels(px, dtype)
    spec = {"feature": name, "params": params, "kind": kind, "dtype": dtype,
            "pixels": px, "mask": mask, "lms": gen_lms(rng, max(h, 2), max(w, 2))}
    spec.update(gen_options(rng))
    if spec["history"] == "called_before":
        spec["history"] = None
    if flavour == "nondyadic-constant":
        spec["flavour"] = flavour
    return spec


# ------------------------------------------------------------------------------- oracle helpers

def tol_of(dtype):
    return 2e-4 if dtype == "float32" else 1e-9          # integer pixels are promoted to float64


def agree_tol(spec):
    """'the same values' for the two calling conventions: identical up to the summation order of reductions, which
    may differ between a contiguous image buffer and a Fortran-ordered / strided raw array (float32: ~1e-7)"""
    return 1e-6 if spec["dtype"] == "float32" and spec.get("layout", "C") != "C" else 1e-12


def arr_close(a, b, tol):
    import numpy as np
    a, b = np.asarray(a, dtype=float), np.asarray(b, dtype=float)
    if a.shape != b.shape:
        return False
    both_nan = np.isnan(a) & np.isnan(b)
    scale = max(1.0, float(np.nanmax(np.abs(b))) if b.size and not np.all(np.isnan(b)) else 1.0)
    with np.errstate(invalid="ignore"):
        ok = np.abs(a - b) <= tol * (1 + scale)
    return bool(np.all(ok | both_nan | ((a == b))))


def mask_window_ok(old, new):
    """'mask rescaled to the new size', convention-free and for any number of dimensions: wherever the old mask is
    constant on the whole neighbourhood that any reasonable resampling convention (index-based, extent-based by centres
    or corners, +-1/2 pixel) could sample from, the new mask must have that value.  Returns (ok, first offending pixel)."""
    import itertools

    def window(i, n_new, n_old):
        if n_new <= 1 or n_old <= 1:
            return 0, n_old - 1
        p = i * (n_old - 1) / float(n_new - 1)          # index-based (what Image.rescale does)
        q = (i + 0.5) * n_old / float(n_new) - 0.5      # extent-based, pixel centres
        r = i * n_old / float(n_new)                    # extent-based, pixel corners (the landmarks' own convention)
        lo = int(math.floor(min(p, q, r) - 0.5))
        hi = int(math.ceil(max(p, q, r) + 0.5))
        return max(lo, 0), min(hi, n_old - 1)
    wins = [[window(i, n_new, n_old) for i in range(n_new)] for n_new, n_old in zip(new.shape, old.shape)]
    for idx in itertools.product(*[range(k) for k in new.shape]):
        blk = old[tuple(slice(wins[a][i][0], wins[a][i][1] + 1) for a, i in enumerate(idx))]
        if blk.all() and not new[idx]:
            return False, idx
        if (not blk.any()) and new[idx]:
            return False, idx
    return True, None


def exact_stats(rows):
    """rows: list of lists of Fractions (one group per row) -> per group (mean, var of centred, sumsq of centred)"""
    out = []
    for r in rows:
        n = len(r)
        m = sum(r) / n
        cen = [v - m for v in r]
        ss = sum(v * v for v in cen)
        out.append((m, ss / n, ss))
    return out


# ------------------------------------------------------------------------------- the run

class Run:
    def __init__(self, ctx):
        self.ctx = ctx
        self.lines = []
        self.pending = {}

    def ask(self, op, args, handler, replay):
        cid = "q%d" % len(self.lines)
        self.lines.append("%s %s %s" % (cid, op, args))
        self.pending[cid] = (op, handler, replay)

    def settle(self):
        if not self.lines:
            return
        model = common.run_driver(PROP, self.lines)
        for cid, (op, handler, rp) in self.pending.items():
            rep = model[cid]
            if rep.startswith("bad-op"):
                raise common.Infra("driver rejected %s: %s" % (op, self.lines[int(cid[1:])][:300]))
            msg = handler(rep)
            if msg:
                self.ctx.mismatch(op, msg, rp)
        self.lines, self.pending = [], {}


def fmt_lms_for_model(lms_specs, intern):
    toks = [str(len(lms_specs))]
    for g in lms_specs:
        toks.append(str(intern.setdefault(g["key"], len(intern))))
        toks.append(str(len(g["points"])))
        for p in g["points"]:
            toks += [fq(v) for v in p]
    return " ".join(toks)


def result_points(out):
    pts = []
    if out.has_landmarks:
        for k in out.landmarks.keys():
            pts += [float(v) for v in out.landmarks[k].points.ravel()]
    return pts


def annotation_spec(img, kind):
    """the part of a case spec `check_annotations` needs, read off an (intermediate) image"""
    lms = []
    if img.has_landmarks:
        for k in img.landmarks.keys():
            lms.append({"key": k, "cls": type(img.landmarks[k]).__name__, "points": img.landmarks[k].points.tolist()})
    return {"kind": kind, "mask": img.mask.mask.tolist() if kind == "MaskedImage" else None, "lms": lms}


def check_annotations(run, spec, img, out, site, rp, model=True, mask_content=True):
    """kind / landmarks / mask of a decorated feature's result (oracle + model query)"""
    import numpy as np
    from menpo.image import Image, MaskedImage
    ctx = run.ctx
    old_shape, new_shape = tuple(img.shape), tuple(out.shape)
    masked = spec["kind"] == "MaskedImage"
    ok_kind = isinstance(out, MaskedImage) if masked else (isinstance(out, Image) and not isinstance(out, MaskedImage))
    ctx.check(ok_kind, site + ".kind", "kind-changed",
              "feature of a %s returned a %s" % (spec["kind"], type(out).__name__), rp)
    if not ok_kind:
        return
    # landmarks
    want_keys = [g["key"] for g in spec["lms"]]
    got_keys = list(out.landmarks.keys()) if out.has_landmarks else []
    if not ctx.check(sorted(got_keys) == sorted(want_keys), site + ".landmarks", "groups-lost",
                     "landmark groups %r became %r" % (want_keys, got_keys), rp):
        return
    if got_keys != want_keys:       # the ORDER of the groups is not named by the property: an observation, not a failure
        ctx.mismatch("landmark-order", "landmark groups %r came back in the order %r" % (want_keys, got_keys), rp)
    sf = np.array(new_shape, dtype=float) / np.array(old_shape, dtype=float)
    for g in spec["lms"]:
        src = img.landmarks[g["key"]]
        res = out.landmarks[g["key"]]
        want = src.points * sf if new_shape != old_shape else src.points
        same_cls = type(res) is type(src)
        same_labels = (not hasattr(src, "labels")) or sorted(res.labels) == sorted(src.labels)
        ctx.check(same_cls and same_labels, site + ".landmarks", "group-class-or-labels-changed",
                  "group %s: %s -> %s" % (g["key"], type(src).__name__, type(res).__name__), rp)
        if new_shape == old_shape:
            ctx.check(bool(np.array_equal(res.points, want)), site + ".landmarks", "moved-though-size-kept",
                      "size-keeping feature moved the landmarks of group %s: %r -> %r" % (
                          g["key"], src.points.tolist(), res.points.tolist()), rp)
        else:
            ctx.check(res.points.shape == want.shape and bool(np.allclose(res.points, want, rtol=0, atol=1e-9 * (1 + np.abs(want).max()))),
                      site + ".landmarks", "not-rescaled-with-shape",
                      "shape %r -> %r but landmarks of group %s are %r, rescaled with the shape they are %r" % (
                          old_shape, new_shape, g["key"], res.points.tolist(), want.tolist()), rp)
    # mask
    if masked:
        old_m, new_m = img.mask.mask, out.mask.mask
        if not ctx.check(tuple(new_m.shape) == new_shape, site + ".mask", "mask-shape",
                         "mask shape %r for pixels of shape %r" % (tuple(new_m.shape), new_shape), rp):
            return
        if new_shape == old_shape:
            ctx.check(bool(np.array_equal(old_m, new_m)), site + ".mask", "changed-though-size-kept",
                      "size-keeping feature changed the mask", rp)
        elif mask_content:
            ok, where = mask_window_ok(old_m, new_m)
            ctx.check(ok, site + ".mask", "not-rescaled-with-shape",
                      "mask pixel %r of the %r result contradicts the %r input mask (constant neighbourhood)" % (
                          where, new_shape, old_shape), rp)
    if not model:
        return
    intern = {}
    if len(new_shape) != len(old_shape):
        return
    bits = [int(b) for b in np.array(spec["mask"], dtype=bool).ravel()] if spec["mask"] is not None else []
    args = "%d %d %s %s %d %s %s" % (int(masked), len(old_shape), " ".join(map(str, old_shape)),
                                     " ".join(map(str, new_shape)), len(bits), " ".join(map(str, bits)),
                                     fmt_lms_for_model(spec["lms"], intern))
    got_pts = result_points(out)
    got_mask = [int(b) for b in out.mask.mask.ravel()] if masked else []

    def handler(rep, got_pts=got_pts, got_mask=got_mask, masked=masked):
        t = rep.split()
        if t[0] != "ok":
            return "model %r, implementation returned a %s" % (rep, "masked" if masked else "plain")
        if t[1] != ("masked" if masked else "plain"):
            return "model kind %s" % t[1]
        iM, iL = t.index("M"), t.index("L")
        mbits = t[iM + 1:iL]
        if masked:
            if [int(x) for x in t[3:iM]] != list(new_shape):
                return "model mask shape %r vs %r" % (t[3:iM], new_shape)
            if len(mbits) != len(got_mask):
                return "model mask has %d pixels, implementation %d" % (len(mbits), len(got_mask))
            for k, (mb, gb) in enumerate(zip(mbits, got_mask)):
                if mb in ("0", "1") and int(mb) != gb:
                    return "mask pixel %d: model %s implementation %d" % (k, mb, gb)
        mp = [float(F(x)) for x in t[iL + 1:]]
        if len(mp) != len(got_pts) or not all(close(a, b, abs(b)) for a, b in zip(got_pts, mp)):
            return "landmarks: model %r implementation %r" % (mp, got_pts)
        return None
    run.ask("rebuild", args, handler, rp)


def grad_frac(ch):
    """np.gradient(edge_order=1) of one 2-D channel in exact arithmetic: (d/daxis0, d/daxis1) as lists of rows"""
    h, w = len(ch), len(ch[0])

    def g1(x):
        n = len(x)
        return [x[1] - x[0] if i == 0 else (x[n - 1] - x[n - 2] if i == n - 1 else (x[i + 1] - x[i - 1]) / 2)
                for i in range(n)]
    gx = [g1(row) for row in ch]
    cols = [g1([ch[i][j] for i in range(h)]) for j in range(w)]
    gy = [[cols[j][i] for j in range(w)] for i in range(h)]
    return gy, gx


def gaussian_kernel(sigma):
    """the weights scipy's gaussian_filter correlates with along one axis (public API only: the response to a unit
    impulse): (w0, [w1, w2, …]); None when the axis is skipped"""
    import numpy as np
    from scipy.ndimage import gaussian_filter1d
    if sigma <= 1e-15:
        return None
    r = int(4.0 * float(sigma) + 0.5)
    imp = np.zeros(2 * r + 1)
    imp[r] = 1.0
    k = gaussian_filter1d(imp, sigma, mode="constant")
    return float(k[r]), [float(v) for v in k[r + 1:]], [float(v) for v in k[:r][::-1]]


KERNEL_FEATURES = ("gradient", "igo", "double_igo", "es", "gaussian_filter", "no_op")


def kernel_model_query(run, spec, out, rp):
    """the numerical kernels inside the model: same exact input to the driver, values compared"""
    import numpy as np
    ctx = run.ctx
    name, params = spec["feature"], spec["params"]
    px = spec["pixels"]
    c, h, w = len(px), len(px[0]), len(px[0][0])
    tol = tol_of(spec["dtype"])
    data_s = "%d %d %d %s" % (c, h, w, " ".join(fq(v) for ch in px for row in ch for v in row))
    got = np.asarray(out.pixels, dtype=float).ravel().tolist()

    def values_handler(rep, skip=0):
        t = rep.split()
        if t[0] != "ok":
            return "model %r, implementation returned values" % rep[:60]
        vals = t[1 + skip:]
        if len(vals) != len(got):
            return "model returns %d values, implementation %d" % (len(vals), len(got))
        big = max([1.0] + [abs(float(F(v))) for v in vals if v != "nan"])
        for k, (mv, gv) in enumerate(zip(vals, got)):
            if mv == "nan":
                if not math.isnan(gv):
                    return "value %d: model 0/0 (nan), implementation %r" % (k, gv)
            elif not abs(float(F(mv)) - gv) <= tol * (1 + big):
                return "value %d: model %r implementation %r" % (k, float(F(mv)), gv)
        return None

    ctx.count("kernel-model:" + name)
    if name == "gradient":
        def handler(rep):
            t = rep.split()
            if t[:2] == ["ok", "F"] and t[2] != "1":
                return "the N-D (flat) and the 2-D gradient of the model disagree"
            return values_handler(rep, skip=3)
        run.ask("grad", "0 " + data_s, handler, rp)
    elif name == "no_op":
        def handler(rep):
            t = rep.split()
            if t[:3] != ["ok", "1", "1"]:
                return "buffer model: %r" % rep[:40]
            return values_handler(rep, skip=2)
        run.ask("noops", "%d %d %s" % (c, h * w, " ".join(fq(v) for ch in px for row in ch for v in row)), handler, rp)
    elif name in ("igo", "double_igo", "es"):
        # the contract parameter: |g| as numpy's float64 square root of the exact g_y^2 + g_x^2
        table = {}
        for ch in px:
            gy, gx = grad_frac([[F(v) for v in row] for row in ch])
            for ry, rx in zip(gy, gx):
                for a, b in zip(ry, rx):
                    table[(a, b)] = math.sqrt(float(a * a + b * b))
        # contract check: mag^2 = gy^2 + gx^2 to 1e-12 relative
        for (a, b), m in table.items():
            if not close(m * m, float(a * a + b * b), float(a * a + b * b), 1e-12):
                raise common.Infra("sqrt contract fails numerically for (%s, %s)" % (a, b))
        tab_s = "%d %s" % (len(table), " ".join("%s %s %s" % (fq(float(a)), fq(float(b)), fq(m)) for (a, b), m in table.items()))
        if name == "es":
            run.ask("es", data_s + " " + tab_s, values_handler, rp)
        else:
            dbl = name == "double_igo" or bool(params.get("double_angles"))
            run.ask("igo", "%d %s %s" % (int(dbl), data_s, tab_s), values_handler, rp)
    elif name == "gaussian_filter":
        sg = params["sigma"]
        sig = list(sg) if isinstance(sg, (list, tuple)) else [sg, sg]
        ks = []
        for sgm in sig:
            k = gaussian_kernel(sgm)
            if k is None:
                ks.append("0")
                continue
            w0, right, left = k
            if right != left:
                return ctx.mismatch("gauss", "scipy's gaussian kernel for sigma=%r is not symmetric: %r vs %r" % (sgm, left, right), rp)
            if not abs(w0 + 2 * sum(right) - 1.0) <= 1e-12:
                return ctx.mismatch("gauss", "scipy's gaussian kernel for sigma=%r sums to %r" % (sgm, w0 + 2 * sum(right)), rp)
            ks.append("1 %s %d %s" % (fq(w0), len(right), " ".join(fq(v) for v in right)))

        def handler(rep):
            t = rep.split()
            if t[:2] != ["ok", "T"]:
                return "model %r" % rep[:60]
            if t[t.index("F") + 1] != "1":
                return "the N-D (flat) and the 2-D gaussian filter of the model disagree"
            iv = t.index("V")
            return values_handler("ok " + " ".join(t[iv + 1:]))
        run.ask("gauss", data_s + " " + " ".join(ks), handler, rp)


def sum_channels_query(run, spec, out, rp):
    """sum_channels against the model's `sumChannels2` (exact)"""
    import numpy as np
    px = spec["pixels"]
    c, h, w = len(px), len(px[0]), len(px[0][0])
    ch = spec["params"].get("channels")
    tol = tol_of(spec["dtype"])
    got = np.asarray(out.pixels, dtype=float).ravel().tolist()
    run.ctx.count("kernel-model:sum_channels")

    def handler(rep):
        t = rep.split()
        if t[0] != "ok" or len(t) - 1 != len(got):
            return "model %r (%d values), implementation %d values" % (rep[:40], len(t) - 1, len(got))
        big = max([1.0] + [abs(v) for v in got])
        bad = [i for i, (mv, gv) in enumerate(zip(t[1:], got)) if not abs(float(F(mv)) - gv) <= tol * (1 + big)]
        return None if not bad else "value %d: model %r implementation %r" % (bad[0], float(F(t[1 + bad[0]])), got[bad[0]])
    run.ask("sumch", "%d %d %d %s %s" % (c, h, w, " ".join(fq(v) for chn in px for row in chn for v in row),
                                         "0" if ch is None else "1 %d %s" % (len(ch), " ".join(map(str, ch)))), handler, rp)


def daisy_plumb_query(run, spec, calls, n_img_calls, exc_img, exc_arr, rp):
    """what `menpo.feature.daisy` handed to `_daisy` in the two calling conventions (recorded by `daisy_spy`) against the
    model's `daisyPlumb` (= the translated option plumbing): overriding of rings / radius by sigmas / ring_radii, the
    default layouts, `normalization=None`, and the refusals before `_daisy` runs"""
    p = spec["params"]
    ctx = run.ctx
    nz = p.get("normalization")
    nz_tok = "none" if nz is None else (nz if nz in ("l1", "l2", "daisy", "off") else "other")

    def opt(l):
        return "0" if l is None else "1 %d %s" % (len(l), " ".join(fq(float(v)) for v in l))
    args = "%d %s %d %d %d %s %s %s" % (p["step"], fq(float(p["radius"])), p["rings"], p["histograms"], p["orientations"],
                                      nz_tok, opt(p.get("sigmas")), opt(p.get("ring_radii")))
    ctx.count("daisy-options:%s%s%s" % ("sigmas+" if p.get("sigmas") is not None else "",
                                       "ring_radii+" if p.get("ring_radii") is not None else "",
                                       "refused" if daisy_effective(p) is None else "accepted"))
    img_calls, arr_calls = calls[:n_img_calls], calls[n_img_calls:]

    def handler(rep):
        t = rep.split()
        if t[0] == "err":
            want = {"value": "ValueError", "index": "IndexError"}.get(t[1], t[1])
            for who, e, cs in (("image", exc_img, img_calls), ("array", exc_arr, arr_calls)):
                if cs:
                    return "model refuses the options (%s) but the %s call reached _daisy with %r" % (rep, who, cs[0])
                if e is None or type(e).__name__ != want:
                    return "model: %s before _daisy; %s call: %s" % (want, who, "returned" if e is None else type(e).__name__)
            return None
        if t[0] != "ok":
            return "model %r" % rep[:60]
        iS, iR = t.index("S"), t.index("R")
        m = {"step": int(t[1]), "radius": float(F(t[2])), "rings": int(t[3]), "histograms": int(t[4]),
             "orientations": int(t[5]), "normalization": t[6],
             "sigmas": [float(F(v)) for v in t[iS + 2:iR]], "ring_radii": [float(F(v)) for v in t[iR + 2:]]}
        for who, cs in (("image", img_calls), ("array", arr_calls)):
            if len(cs) != 1:
                return "the %s call reached _daisy %d times (model: once, with %r)" % (who, len(cs), m)
            kw = cs[0]
            for k in ("step", "rings", "histograms", "orientations"):
                if int(kw[k]) != m[k]:
                    return "%s call: _daisy got %s=%r, model %r" % (who, k, kw[k], m[k])
            if kw["normalization"] != m["normalization"]:
                return "%s call: _daisy got normalization=%r, model %r" % (who, kw["normalization"], m["normalization"])
            if not close(float(kw["radius"]), m["radius"], abs(m["radius"])):
                return "%s call: _daisy got radius=%r, model %r" % (who, kw["radius"], m["radius"])
            for k in ("sigmas", "ring_radii"):
                got = [float(v) for v in kw[k]]
                if len(got) != len(m[k]) or not all(close(a, b, abs(b)) for a, b in zip(got, m[k])):
                    return "%s call: _daisy got %s=%r, model %r" % (who, k, got, m[k])
        return None
    run.ask("daisyplumb", args, handler, rp)


def volume_gradient_query(run, spec, out, rp):
    """gradient of a 3-D image against the N-D (flat) gradient of the model"""
    import numpy as np
    arr = np.array(spec["pixels"], dtype=float)
    tol = tol_of(spec["dtype"])
    got = np.asarray(out.pixels, dtype=float).ravel().tolist()
    shape = arr.shape[1:]
    run.ctx.count("kernel-model:gradient-3d")

    def handler(rep):
        t = rep.split()
        if t[0] != "ok" or len(t) - 1 != len(got):
            return "model %r (%d values), implementation %d values" % (rep[:40], len(t) - 1, len(got))
        bad = [k for k, (mv, gv) in enumerate(zip(t[1:], got)) if not abs(float(F(mv)) - gv) <= tol * (1 + abs(gv))]
        return None if not bad else "value %d: model %s implementation %r" % (bad[0], t[1 + bad[0]], got[bad[0]])
    run.ask("gradnd", "%d %s %d %s" % (len(shape), " ".join(map(str, shape)), arr.shape[0],
                                       " ".join(fq(float(v)) for v in arr.ravel())), handler, rp)


def volume_gaussian_query(run, spec, out, rp):
    """gaussian_filter of a 3-D image against the N-D (flat) filter of the model (same kernel along every axis)"""
    import numpy as np
    arr = np.array(spec["pixels"], dtype=float)
    tol = tol_of(spec["dtype"])
    got = np.asarray(out.pixels, dtype=float).ravel().tolist()
    shape = arr.shape[1:]
    k = gaussian_kernel(spec["params"]["sigma"])
    if k is None or k[1] != k[2] or not abs(k[0] + 2 * sum(k[1]) - 1.0) <= 1e-12:
        return run.ctx.mismatch("gaussnd", "scipy's gaussian kernel is not symmetric with unit sum: %r" % (k,), rp)
    ks = "1 %s %d %s" % (fq(k[0]), len(k[1]), " ".join(fq(v) for v in k[1]))
    run.ctx.count("kernel-model:gaussian_filter-3d")

    def handler(rep):
        t = rep.split()
        if t[0] != "ok" or len(t) - 1 != len(got):
            return "model %r (%d values), implementation %d values" % (rep[:40], len(t) - 1, len(got))
        big = max([1.0] + [abs(v) for v in got])
        bad = [i for i, (mv, gv) in enumerate(zip(t[1:], got)) if not abs(float(F(mv)) - gv) <= tol * (1 + big)]
        return None if not bad else "value %d: model %r implementation %r" % (bad[0], float(F(t[1 + bad[0]])), got[bad[0]])
    run.ask("gaussnd", "%d %s %d %s %s" % (len(shape), " ".join(map(str, shape)), arr.shape[0],
                                         " ".join(fq(float(v)) for v in arr.ravel()), " ".join([ks] * len(shape))), handler, rp)


def wrapper_case(run, spec, model=True):
    """one decorated feature on one image and on its raw array"""
    import numpy as np
    ctx = run.ctx
    name, params = spec["feature"], spec["params"]
    site = "C18/%s" % (name if name != "compose" else "compose")
    rp = {"spec": spec, "call": "harness.c18.apply_feature(%r, %r, harness.c18.build_image(spec))" % (name, params)}
    img = build_image(spec)
    arr = make_array(spec)
    before_img, before_arr = digest(img), arr.tobytes()
    nonconst = len(np.unique(arr)) > 1
    for opt in ("history", "layout", "readonly"):
        if spec.get(opt):
            ctx.count("%s:%s" % (opt, spec[opt]))
    if arr.ndim != 3:
        ctx.count("ndim:%d" % (arr.ndim - 1))
    if spec.get("history") == "called_before":
        # the feature has a previous life: it has just been used on another image of the same shape
        other = dict(spec, pixels=(np.array(spec["pixels"]) * 2 + 1).tolist(), history=None, readonly=False)
        try:
            apply_feature(name, params, build_image(other))
            apply_feature(name, params, make_array(other))
        except Exception:  # noqa
            pass
    ctx.case((name, json.dumps(spec, sort_keys=True)), nontrivial=nonconst and (bool(spec["lms"]) or spec["kind"] == "MaskedImage"),
             sample={"feature": name, "params": params, "kind": spec["kind"], "dtype": spec["dtype"],
                     "shape": list(arr.shape), "n_groups": len(spec["lms"])})
    ctx.count("feature:" + name)
    ctx.count("kind:%s/%s" % (spec["kind"], spec["dtype"]))
    ctx.count("channels:%d" % arr.shape[0])
    if name == "compose":
        ctx.count("compose:" + "+".join(n for n, _ in params["steps"]))
    exc_img = exc_arr = out = out_arr = None
    spy = daisy_spy() if name == "daisy" else None
    if spy:
        spy.__enter__()
    try:
        try:
            out = apply_feature(name, params, img)
        except Exception as e:  # noqa
            exc_img = e
        n_img_calls = len(spy.calls) if spy else 0
        try:
            out_arr = apply_feature(name, params, arr)
        except Exception as e:  # noqa
            exc_arr = e
    finally:
        if spy:
            spy.__exit__()
    if spy and model:
        daisy_plumb_query(run, spec, spy.calls, n_img_calls, exc_img, exc_arr, rp)
    # input untouched (both conventions), whatever happened
    ctx.check(digest(img) == before_img, site + ".input", "image-modified",
              "the input image (pixels / mask / landmarks) was modified by the call", rp)
    ctx.check(arr.tobytes() == before_arr, site + ".input", "array-modified",
              "the input array was modified by the call", rp)
    for who, e in (("image", exc_img), ("array", exc_arr)):
        if spec.get("readonly") and e is not None and "read-only" in str(e):
            ctx.fail(site + ".input", "writes-read-only-input",
                     "the feature tried to write into its read-only input %s: %s: %s" % (who, type(e).__name__, e), rp)
            return
    if exc_img is not None or exc_arr is not None:
        below = [o for o in (out, out_arr) if o is not None and 0 in tuple(getattr(o, "pixels", o).shape)]
        if below:     # a composition shrank the image below the next feature's minimum size: outside the quantifier
            ctx.count("below-minimum-size")
            return
        same = exc_img is not None and exc_arr is not None and type(exc_img) is type(exc_arr)
        ctx.count("raised:%s" % type(exc_img or exc_arr).__name__)
        if model and same and name in ("gradient", "igo", "double_igo", "es") and arr.ndim == 3:
            # the refusals of the gradient are inside the model: uint8 pixels (TypeError), fewer than two samples
            # along an axis (np.gradient's ValueError); igo / es pass them on
            want = {"TypeError": "err type", "ValueError": "err small"}.get(type(exc_img).__name__)
            px = spec["pixels"]
            ctx.count("kernel-model:%s-refusal" % name)

            def handler(rep, want=want):
                return None if rep == want else "model %r, implementation raised %s" % (rep[:40], type(exc_img).__name__)
            run.ask("grad", "%d %d %d %d %s" % (int(spec["dtype"] == "uint8"), len(px), len(px[0]), len(px[0][0]),
                                                " ".join(fq(v) for ch in px for row in ch for v in row)), handler, rp)
        if model and same and name in ("igo", "es") and arr.ndim == 4:
            ctx.count("kernel-model:%s-not-2d" % name)

            def handler(rep):
                return None if rep == "err not2d | err not2d" and type(exc_img).__name__ == "ValueError" else \
                    "model %r, implementation raised %s" % (rep, type(exc_img).__name__)
            run.ask("notwod", "%d" % (arr.ndim - 1), handler, rp)
        ctx.check(same, site + ".agree", "one-convention-raises",
                  "image call: %s; array call: %s" % (
                      "%s: %s" % (type(exc_img).__name__, exc_img) if exc_img is not None else "returned",
                      "%s: %s" % (type(exc_arr).__name__, exc_arr) if exc_arr is not None else "returned"), rp)
        return
    if 0 in tuple(getattr(out_arr, "shape", ())) or 0 in tuple(getattr(getattr(out, "pixels", None), "shape", ())):
        ctx.count("below-minimum-size")      # empty feature image: the input is below the feature's minimum size
        return
    # same values
    if not ctx.check(isinstance(out_arr, np.ndarray) and hasattr(out, "pixels"), site + ".agree", "wrong-return-type",
                     "array call returned %s, image call %s" % (type(out_arr).__name__, type(out).__name__), rp):
        return
    masked_direct = name == "normalize" and spec["kind"] == "MaskedImage" and not all(map(all, spec["mask"]))
    if not masked_direct:
        ctx.check(arr_close(out.pixels, out_arr, agree_tol(spec)), site + ".agree", "values-differ",
                  "feature(image).pixels differs from feature(image.pixels) (max abs diff %s)" % (
                      float(np.nanmax(np.abs(np.asarray(out.pixels, float) - np.asarray(out_arr, float))))
                      if out.pixels.shape == out_arr.shape else "shape %r vs %r" % (out.pixels.shape, out_arr.shape)), rp)
        if out.pixels.dtype != out_arr.dtype:      # the text says "the same values", not the same dtype: an observation
            ctx.mismatch("dtype", "dtype %s (image call) vs %s (array call)" % (out.pixels.dtype, out_arr.dtype), rp)
    else:
        # `normalize` given a MaskedImage with a partial mask: the text's clause is judged as it stands (same values as
        # on the raw array of the same data); the code normalises over the masked pixels only: a recorded finding
        ctx.check(arr_close(out.pixels, out_arr, agree_tol(spec)), site + ".agree", "masked-image-normalised-over-mask-only",
                  "normalize(MaskedImage with a partial mask).pixels differs from normalize(image.pixels): the "
                  "statistics are taken over the masked pixels only", rp)
    ctx.count("size:" + ("changed" if tuple(out.shape) != tuple(img.shape) else "kept"))
    exact_in = spec["dtype"].startswith("float") or name in ("gradient", "no_op")   # integer pixels: igo / es /
    # gaussian_filter write their result into an array of the input's integer dtype (truncated): oracle only
    if model and name in KERNEL_FEATURES and arr.ndim == 3 and arr.size <= 200 and exact_in:
        kernel_model_query(run, spec, out, rp)
    elif model and name == "sum_channels" and arr.ndim == 3 and arr.size <= 300:
        sum_channels_query(run, spec, out, rp)
    elif model and name == "gradient" and arr.ndim == 4 and arr.size <= 200:
        volume_gradient_query(run, spec, out, rp)
    elif model and name == "gaussian_filter" and arr.ndim == 4 and arr.size <= 250:
        volume_gaussian_query(run, spec, out, rp)
    elif model and name == "daisy":
        # the size law of the descriptor grid (the descriptor values stay abstract)
        got_shape = [int(v) for v in out.pixels.shape]

        def handler(rep, got_shape=got_shape):
            return None if rep.split() == ["ok"] + [str(v) for v in got_shape] else \
                "daisy output shape: model %r implementation %r" % (rep, got_shape)
        ctx.count("kernel-model:daisy-shape")
        eff_radius, eff_rings = daisy_effective(params)      # what the options make of radius / rings
        run.ask("daisyshape", "%d %d %d %d %d %d %d" % (arr.shape[1], arr.shape[2], eff_radius, params["step"],
                                                       eff_rings, params["histograms"], params["orientations"]),
                handler, rp)
    if name == "syn_window":
        check_window(run, spec, img, out, site, rp, model)
    elif name == "compose":
        # every step is a decorated call on the previous feature image: annotations are checked step by step
        # (a mask resized twice is not the mask resized once), the landmarks also end to end
        cur, n_changes = img, 0
        for sub, sp in params["steps"]:
            nxt = apply_feature(sub, sp, cur)
            n_changes += tuple(nxt.shape) != tuple(cur.shape)
            step_kind = "MaskedImage" if hasattr(cur, "mask") else "Image"
            check_annotations(run, annotation_spec(cur, step_kind), cur, nxt, site, rp, model)
            cur = nxt
        check_annotations(run, spec, img, out, site, rp, model=False, mask_content=n_changes <= 1)
    else:
        check_annotations(run, spec, img, out, site, rp, model)


def check_window(run, spec, img, out, site, rp, model=True):
    """@winitfeature: landmarks land on the grid of window centres, mask sampled at the centres"""
    import numpy as np
    from menpo.image import Image, MaskedImage
    ctx = run.ctx
    p = spec["params"]
    rows = list(range(p["r0"], img.shape[0], p["sv"]))
    cols = list(range(p["c0"], img.shape[1], p["sh"]))
    masked = spec["kind"] == "MaskedImage"
    ok_kind = isinstance(out, MaskedImage) if masked else (isinstance(out, Image) and not isinstance(out, MaskedImage))
    if not ctx.check(ok_kind, site + ".kind", "kind-changed", "window feature of a %s returned a %s" % (
            spec["kind"], type(out).__name__), rp):
        return
    step_v = p["sv"] if len(rows) > 1 else rows[0]     # single row / column: the code takes the centre itself as step
    step_h = p["sh"] if len(cols) > 1 else cols[0]
    degenerate = step_v == 0 or step_h == 0       # single centre at 0: the code divides by zero
    axes = [k for k, n in enumerate((len(rows), len(cols))) if n > 1]   # axes on which the grid defines a scale
    want_keys = [g["key"] for g in spec["lms"]]
    got_keys = list(out.landmarks.keys()) if out.has_landmarks else []
    if not ctx.check(sorted(got_keys) == sorted(want_keys), site + ".landmarks", "groups-lost", "%r -> %r" % (want_keys, got_keys), rp):
        return
    if not degenerate:
        for g in spec["lms"]:
            src, res = img.landmarks[g["key"]].points, out.landmarks[g["key"]].points
            want = (src - np.array([rows[0], cols[0]])) / np.array([step_v, step_h], dtype=float)
            ctx.check(bool(np.allclose(res[:, axes], want[:, axes], rtol=0, atol=1e-9 * (1 + np.abs(want).max()))), site + ".landmarks",
                      "not-on-centre-grid", "landmarks %r, on the grid of window centres they are %r" % (
                          res.tolist(), want.tolist()), rp)
    if masked:
        want_m = img.mask.mask[np.ix_(rows, cols)]
        ctx.check(bool(np.array_equal(out.mask.mask, want_m)), site + ".mask", "not-sampled-at-centres",
                  "mask of the window feature is not the input mask at the window centres", rp)
    if not model or degenerate:
        return
    intern = {}
    bits = [int(b) for row in (spec["mask"] or []) for b in row]
    cs = " ".join("%d %d" % (r, c) for r in rows for c in cols)
    args = "%d %d %d %d %s %d %d %s %s" % (int(masked), img.shape[0], img.shape[1], len(bits), " ".join(map(str, bits)),
                                          len(rows), len(cols), cs, fmt_lms_for_model(spec["lms"], intern))
    got_pts = result_points(out)
    got_mask = [int(b) for b in out.mask.mask.ravel()] if masked else []

    def handler(rep):
        t = rep.split()
        if t[0] != "ok" or t[1] != ("masked" if masked else "plain"):
            return "model %r" % rep[:80]
        iM, iL = t.index("M"), t.index("L")
        if masked and [int(x) for x in t[iM + 1:iL]] != got_mask:
            return "mask: model %r implementation %r" % (t[iM + 1:iL], got_mask)
        mp = [float(F(x)) for x in t[iL + 1:]]
        if len(mp) != len(got_pts) or not all(close(a, b, abs(b)) for a, b in zip(got_pts, mp)):
            return "landmarks: model %r implementation %r" % (mp, got_pts)
        return None
    run.ask("winit", args, handler, rp)


def call_outcome(fn):
    """('ok', value) | ('ValueError', e) | ('IndexError', e) | (other exception name, e)"""
    import warnings
    try:
        with warnings.catch_warnings():
            warnings.simplefilter("ignore")
            return "ok", fn()
    except Exception as e:  # noqa
        return type(e).__name__, e


def statkind_is_given(name, params):
    return not (name == "normalize_var" or (name == "normalize" and params.get("scale") is None))


def nondyadic_constant_case(run, spec):
    """a constant channel of a value that is not exactly representable: every scale statistic is zero (the data is
    constant), so the text asks for a refusal resp. a skipped, finite, zero-mean result; the code decides with
    `scale_factor == 0` on ROUNDED numbers.  Oracle only (the exact model has no rounding)."""
    import numpy as np
    ctx = run.ctx
    name, params = spec["feature"], spec["params"]
    mode, err = params["mode"], params["error_on_divide_by_zero"]
    site = "C18/%s.zero_scale/rounding" % name
    rp = {"spec": spec, "call": "harness.c18.apply_feature(%r, %r, harness.c18.build_image(spec))" % (name, params)}
    img = build_image(spec)
    before = digest(img)
    ctx.case((name, json.dumps(spec, sort_keys=True)), nontrivial=True,
             sample={"feature": name, "params": params, "kind": spec["kind"], "dtype": spec["dtype"],
                     "flavour": "nondyadic-constant"})
    ctx.count("feature:" + name)
    ctx.count("normaliser:nondyadic-constant/%s/%s" % (mode, "refuse" if err else "skip"))
    kind, out = call_outcome(lambda: apply_feature(name, params, img))
    ctx.check(digest(img) == before, "C18/%s.input" % name, "image-modified", "the input image was modified by the call", rp)
    if err:
        ok = kind == "ValueError"
        what = "a constant image (%r) has zero scale, error_on_divide_by_zero=True: expected a refusal, got %s" % (
            spec["pixels"][0][0][0], "a result" if kind == "ok" else kind)
    else:
        ok = kind == "ok" and bool(np.all(np.isfinite(out.pixels))) and bool(np.all(np.abs(out.pixels) <= 1e-9))
        what = "a constant image (%r) has zero scale, skipping requested: expected the centred (zero) data, got %s" % (
            spec["pixels"][0][0][0], kind if kind != "ok" else "values up to %r" % float(np.abs(out.pixels).max()))
    ctx.count("nondyadic-constant:%s" % ("as-the-text-asks" if ok else "zero-scale-missed"))
    ctx.check(ok, site, "float-statistic-not-exactly-zero", what, rp)


def normaliser_case(run, spec, model=True):
    """normalize / normalize_std / normalize_norm / normalize_var: the numeric clauses and the zero-scale branches"""
    import numpy as np
    if spec.get("flavour") == "nondyadic-constant":
        return nondyadic_constant_case(run, spec)
    ctx = run.ctx
    name, params = spec["feature"], spec["params"]
    mode, err = params["mode"], params["error_on_divide_by_zero"]
    site = "C18/%s" % name
    rp = {"spec": spec, "call": "harness.c18.apply_feature(%r, %r, harness.c18.build_image(spec))" % (name, params)}
    tol = tol_of(spec["dtype"])
    img = build_image(spec)
    arr = make_array(spec)
    c = arr.shape[0]
    before = digest(img)
    for opt in ("history", "layout", "readonly"):
        if spec.get(opt):
            ctx.count("%s:%s" % (opt, spec[opt]))
    # the data the statistics are taken over: every pixel, or the masked pixels when `normalize` itself gets a MaskedImage
    partial_mask = spec["kind"] == "MaskedImage" and not all(map(all, spec["mask"]))
    on_masked = name == "normalize" and partial_mask
    flat_mask = [b for row in spec["mask"] for b in row] if spec["kind"] == "MaskedImage" else None
    rows = [[F(v) for r in ch for v in r] for ch in spec["pixels"]]
    if on_masked:
        rows = [[v for v, b in zip(r, flat_mask) if b] for r in rows]
    groups = [sum(rows, [])] if mode == "all" else rows
    stats = exact_stats(groups)
    # the statistic each group is divided by (exact where rational)
    if name == "normalize_var":
        scales = [float(v) for (_, v, _) in stats]
    elif name == "normalize_std":
        scales = [math.sqrt(v) for (_, v, _) in stats]
    elif name == "normalize_norm":
        scales = [math.sqrt(q) for (_, _, q) in stats]
    elif params.get("scale") is None:
        scales = [1.0] * len(groups)
    else:
        scales = list(params["scale"]["values"])
    zero = [s == 0 for s in scales]
    scalar_stat_shape_ok = not (name == "normalize" and params.get("scale") is not None and mode == "per_channel"
                                and params["scale"]["kind"] == "scalar")
    ctx.case((name, json.dumps(spec, sort_keys=True)), nontrivial=True,
             sample={"feature": name, "params": params, "kind": spec["kind"], "dtype": spec["dtype"],
                     "shape": list(arr.shape), "zero_scale_groups": sum(zero)})
    ctx.count("feature:" + name)
    ctx.count("normaliser:%s/%s/%s" % (mode, "refuse" if err else "skip", "zero" if any(zero) else "nonzero"))
    ctx.count("kind:%s/%s" % (spec["kind"], spec["dtype"]))
    kind, out = call_outcome(lambda: apply_feature(name, params, img))
    ctx.check(digest(img) == before, site + ".input", "image-modified", "the input image was modified by the call", rp)
    branch = "%s-%s" % (mode, "refuse" if err else "skip")
    # --- zero scale: refused when asked, skipped when asked
    if any(zero) and err:
        ctx.check(kind == "ValueError", site + ".zero_scale/" + branch, "not-refused",
                  "zero scale with error_on_divide_by_zero=True: expected ValueError, got %s" % (
                      kind if kind != "ok" else "a result"), rp)
        impl_reply = "err zero" if kind == "ValueError" else ("err index" if kind == "IndexError" else kind)
    else:
        if kind != "ok":
            ctx.fail(site + ".zero_scale/" + branch if any(zero) else site + ".call",
                     "raises-" + kind,
                     "%s(mode=%r, error_on_divide_by_zero=%r)%s raised %s: %s" % (
                         name, mode, err, " with a zero scale (skipping requested)" if any(zero) else "", kind, out), rp)
            impl_reply = "err index" if kind == "IndexError" else ("err zero" if kind == "ValueError" else kind)
        else:
            impl_reply = "ok"
    got = None
    if kind == "ok":
        got = np.asarray(out.pixels, dtype=float)
        data = got.reshape(c, -1)
        if on_masked:
            data = data[:, np.array(flat_mask)]
            outside = got.reshape(c, -1)[:, ~np.array(flat_mask)]
        ctx.check(bool(np.all(np.isfinite(got))), site + ".finite", "non-finite", "the result contains inf/nan", rp)
        # expected = centred / statistic, skipped groups only centred (float64 recomputation from the exact input)
        x = np.array([[float(v) for v in r] for r in rows])
        gdata = data.reshape(1, -1) if mode == "all" else data
        gx = x.reshape(1, -1) if mode == "all" else x
        for gi in range(len(groups)):
            cen = gx[gi] - gx[gi].mean()
            want = cen if zero[gi] else cen / scales[gi]
            big = max(1.0, float(np.abs(want).max()))
            ctx.check(abs(float(gdata[gi].mean())) <= tol * (1 + big), site + ".zero_mean/" + mode, "mean-not-zero",
                      "mean of the normalised %s is %r" % ("image" if mode == "all" else "channel %d" % gi, float(gdata[gi].mean())), rp)
            scaled_ok = bool(np.all(np.abs(gdata[gi] - want) <= tol * (1 + big)))
            if zero[gi]:
                # a skipped group: the text asks for "skipped rather than non-finite" (judged by the finiteness check
                # above); THAT it equals the centred data exactly is what the code does: an observation
                if not scaled_ok:
                    ctx.mismatch("skipped-group", "skipped (zero scale) %s is not the centred data: got %r want %r" % (
                        "image" if mode == "all" else "channel %d" % gi, gdata[gi][:6].tolist(), want[:6].tolist()), rp)
            else:
                ctx.check(scaled_ok, site + ".scale/" + mode, "not-centred-over-statistic",
                          "%s is not (data - mean) / statistic: got %r want %r" % (
                              "image" if mode == "all" else "channel %d" % gi, gdata[gi][:6].tolist(), want[:6].tolist()), rp)
            if not zero[gi] and name == "normalize_std":
                ctx.check(close(float(gdata[gi].std()), 1.0, 1.0, tol), site + ".unit/" + mode, "std-not-one",
                          "standard deviation after normalize_std is %r" % float(gdata[gi].std()), rp)
            if not zero[gi] and name == "normalize_norm":
                ctx.check(close(float(np.linalg.norm(gdata[gi])), 1.0, 1.0, tol), site + ".unit/" + mode, "norm-not-one",
                          "norm after normalize_norm is %r" % float(np.linalg.norm(gdata[gi])), rp)
        # idempotence of the two unit normalisers
        if name in ("normalize_std", "normalize_norm") and not any(zero):
            k2, out2 = call_outcome(lambda: apply_feature(name, params, out))
            ok2 = k2 == "ok" and arr_close(out2.pixels, out.pixels, 10 * tol)
            ctx.check(ok2, site + ".idempotent/" + mode, "second-application-changes",
                      "applying %s a second time %s" % (name, "raised " + k2 if k2 != "ok" else "changed the pixels"), rp)
        # raw-array convention
        ka, out_a = call_outcome(lambda: apply_feature(name, params, arr))
        if not on_masked:
            ctx.check(ka == "ok" and arr_close(out_a, out.pixels, agree_tol(spec)), site + ".agree", "values-differ",
                      "feature(image).pixels differs from feature(image.pixels)%s" % ("" if ka == "ok" else " (array call raised %s)" % ka), rp)
        else:
            # the text's clause as it stands: same values as on the raw array of the same data (recorded finding: the
            # code takes the statistics over the masked pixels only)
            ctx.check(ka == "ok" and arr_close(out_a, out.pixels, agree_tol(spec)), site + ".agree",
                      "masked-image-normalised-over-mask-only",
                      "normalize(MaskedImage with a partial mask).pixels differs from normalize(image.pixels): the "
                      "statistics are taken over the masked pixels only", rp)
            # what the code does instead (zeros outside the mask, the masked pixels normalised among themselves) is not
            # stated by the property: observations for the correspondence, not failures
            if not bool(np.all(outside == 0)):
                ctx.mismatch("normalize-masked", "pixels outside the mask are not zero after normalize on a MaskedImage", rp)
            marr = np.array([[float(v) for v in r] for r in rows], dtype=spec["dtype"]).reshape(c, 1, -1)
            km, out_m = call_outcome(lambda: apply_feature(name, params, marr))
            if not (km == "ok" and arr_close(np.asarray(out_m).reshape(c, -1), data, 1e-12)):
                ctx.mismatch("normalize-masked", "normalize(masked image) on its masked pixels differs from "
                                                 "normalize(array of the masked pixels)", rp)
        # annotations (size is kept)
        spec_for_ann = spec
        check_annotations(run, spec_for_ann, img, out, site, rp, model=False)
    else:
        ka, _ = call_outcome(lambda: apply_feature(name, params, arr if not on_masked else
                                                    np.array([[float(v) for v in r] for r in rows], dtype=spec["dtype"]).reshape(c, 1, -1)))
        ctx.check(ka == kind, site + ".agree", "one-convention-raises", "image call %s, array call %s" % (kind, ka), rp)
    if not model or not scalar_stat_shape_ok:
        return
    # the driver receives a *given* scale statistic as a table keyed on the centred group data; two groups with the
    # same centred data but different given scales cannot be told apart by that protocol: no model query for them
    # (corrected false alarm: seed 3 once produced two channels whose masked pixels were both (-21, -1))
    cg = [tuple(v - sum(g) / F(len(g)) for v in g) for g in groups if g]
    if statkind_is_given(name, params) and any(cg[i] == cg[j] and scales[i] != scales[j]
                                                for i in range(len(cg)) for j in range(i)):
        ctx.count("model-skipped:ambiguous-given-scale-table")
        return
    # --- the Lean model on the same exact data
    statkind = {"normalize_var": "var"}.get(name, "given")
    if name == "normalize" and params.get("scale") is None:
        statkind = "one"
    sc = (" %d %s" % (len(scales), " ".join(fq(s) for s in scales))) if statkind == "given" else ""
    full_rows = [[F(v) for r in ch for v in r] for ch in spec["pixels"]]
    n = len(full_rows[0])
    data_s = " ".join(fq(v) for r in full_rows for v in r)

    def handler(rep, got=got, impl_reply=impl_reply):
        t = rep.split()
        if impl_reply != "ok":
            # compare error enums with the REPAIRED model; the coded model's IndexError is reported by the oracle
            return None if rep == impl_reply else "model(repaired) %r implementation %r" % (rep[:60], impl_reply)
        if t[0] != "ok":
            return "model %r, implementation returned values" % rep
        mv = [float(F(v)) for v in t[1:]]
        gv = got.ravel().tolist()
        if len(mv) != len(gv):
            return "model returns %d values, implementation %d" % (len(mv), len(gv))
        big = max([1.0] + [abs(v) for v in mv])
        bad = [k for k, (a, b) in enumerate(zip(gv, mv)) if not abs(a - b) <= tol * (1 + big)]
        return None if not bad else "value %d: model %r implementation %r" % (bad[0], mv[bad[0]], gv[bad[0]])
    if on_masked or (name == "normalize" and spec["kind"] == "MaskedImage"):
        run.ask("normimg " + statkind, "%s %d 1 %d %d %s %d %s%s" % (mode, int(err), c, n, data_s, len(flat_mask),
                                                                   " ".join(str(int(b)) for b in flat_mask), sc), handler, rp)
    elif name == "normalize":
        run.ask("norm " + statkind, "%s %d 1 %d %d %s%s" % (mode, int(err), c, n, data_s, sc), handler, rp)
    else:
        # normalize_std / norm / var: @ndfeature around the @imgfeature normalize on the raw array
        mb = [int(b) for b in flat_mask] if flat_mask is not None else []
        run.ask("normnd " + statkind, "%s %d 1 %d %d %s %d %d %s%s" % (
            mode, int(err), c, n, data_s, int(flat_mask is not None), len(mb), " ".join(map(str, mb)), sc), handler, rp)
    # the contract of the statistic, against the model's exact variance / sum of squares
    if name in ("normalize_std", "normalize_norm") and not on_masked:
        def contract(rep, scales=scales, which=name):
            t = rep.split()
            iV, iQ, iM = t.index("V"), t.index("Q"), t.index("M")
            exact = [float(F(v)) for v in (t[iV + 1:iQ] if which == "normalize_std" else t[iQ + 1:iM])]
            bad = [k for k, (s, v) in enumerate(zip(scales, exact)) if not close(s * s, v, abs(v), 1e-9)]
            return None if not bad else "contract sigma*sigma = %s fails for group %d: %r vs %r" % (
                "var" if which == "normalize_std" else "sumsq", bad[0], scales[bad[0]] ** 2, exact[bad[0]])
        run.ask("stats", "%s %d %d %s" % (mode, c, n, data_s), contract, rp)
    # buffer-level model: the input buffer is untouched and the result is a new buffer
    if spec["kind"] == "Image" and kind == "ok" and len(run.lines) % 3 == 0:
        def frame(rep):
            t = rep.split()
            return None if t[:3] == ["ok", "1", "1"] else "buffer model: %r" % rep[:60]
        run.ask("norms " + statkind, "%s %d 1 %d %d %s%s" % (mode, int(err), c, n, data_s, sc), frame, rp)


# ------------------------------------------------------------------------------- regenerated effect table

TABLE_FEATURES = [("gradient", {}), ("gaussian_filter", {"sigma": 1.0}), ("igo", {"double_angles": False}),
                  ("double_igo", {}), ("es", {}),
                  ("daisy", {"step": 2, "radius": 2, "rings": 1, "histograms": 2, "orientations": 3, "normalization": "l1"}),
                  ("no_op", {}), ("normalize", {"mode": "per_channel", "error_on_divide_by_zero": True, "scale": None}),
                  ("normalize_std", {"mode": "all", "error_on_divide_by_zero": True}),
                  ("normalize_norm", {"mode": "per_channel", "error_on_divide_by_zero": False}),
                  ("normalize_var", {"mode": "all", "error_on_divide_by_zero": False}), ("sum_channels", {"channels": None})]
TABLE_COMPOSITIONS = [("gradient", "normalize_std"), ("daisy", "gaussian_filter"), ("igo", "daisy"), ("no_op", "es"),
                      ("normalize", "double_igo"), ("gaussian_filter", "normalize_norm"), ("es", "gradient")]


def table_image(kind):
    """a fixed small image with a mask and two landmark groups; every buffer the caller owns is made READ-ONLY, so a
    feature writing into its input raises instead of passing unnoticed"""
    rng = common.random.Random(1802)
    spec = {"kind": kind, "dtype": "float64", "pixels": gen_pixels(rng, 2, 12, 11, "random"),
            "mask": gen_mask(rng, 12, 11, "random") if kind == "MaskedImage" else None,
            "lms": [{"key": "g0", "cls": "PointCloud", "points": [[1.0, 2.5], [7.25, 3.0], [10.0, 9.5]]},
                    {"key": "g1", "cls": "PointUndirectedGraph", "points": [[0.0, 0.0], [11.0, 10.0]]}]}
    img = build_image(spec)
    img.pixels.setflags(write=False)
    if kind == "MaskedImage":
        img.mask.pixels.setflags(write=False)
    for k in img.landmarks.keys():
        img.landmarks[k].points.setflags(write=False)
    return img


def feature_table():
    """rows (feature, input kind, returned, output kind, attribute writes, shares pixels/mask/landmarks, keys kept),
    measured on live images through the public API"""
    import warnings
    import numpy as np
    from menpo.image import Image, MaskedImage
    have, _ = available_features()
    param = dict(TABLE_FEATURES)

    def kind_of(o):
        return "masked" if type(o) is MaskedImage else ("plain" if type(o) is Image else "other")
    rows = []
    todo = [(n, [(n, param[n])]) for n, _ in TABLE_FEATURES if n in have]
    todo += [("%s>%s" % (a, b), [(a, param[a]), (b, param[b])]) for a, b in TABLE_COMPOSITIONS if a in have and b in have]
    for label, steps in todo:
        for kind in ("Image", "MaskedImage"):
            img = table_image(kind)
            holder = {}

            def act():
                x = img
                for n, p in steps:
                    x = apply_feature(n, p, x)
                holder["out"] = x
            with warnings.catch_warnings():
                warnings.simplefilter("ignore")
                writes = common.attr_writes(img, act)
            out = holder.get("out")
            row = {"feature": label, "inKind": kind_of(img), "returned": out is not None and hasattr(out, "pixels"),
                   "outKind": "other", "writes": writes, "sharesPixels": False, "sharesMask": False,
                   "sharesLandmarks": False, "keysKept": False}
            if row["returned"]:
                row["outKind"] = kind_of(out)
                row["sharesPixels"] = bool(np.shares_memory(out.pixels, img.pixels))
                if hasattr(out, "mask") and hasattr(img, "mask"):
                    row["sharesMask"] = bool(np.shares_memory(out.mask.pixels, img.mask.pixels))
                ok = out.has_landmarks and list(out.landmarks.keys()) == list(img.landmarks.keys())
                if ok:
                    ok = all(type(out.landmarks[k]) is type(img.landmarks[k]) for k in img.landmarks.keys())
                    row["sharesLandmarks"] = any(bool(np.shares_memory(out.landmarks[k].points, img.landmarks[k].points))
                                                 for k in img.landmarks.keys())
                row["keysKept"] = bool(ok)
            rows.append(row)
    return rows


def lean_row(r):
    b = lambda v: "true" if v else "false"  # noqa
    return '⟨"%s", .%s, %s, .%s, [%s], %s, %s, %s, %s⟩' % (
        r["feature"], r["inKind"], b(r["returned"]), r["outKind"], ", ".join('"%s"' % a for a in r["writes"]),
        b(r["sharesPixels"]), b(r["sharesMask"]), b(r["sharesLandmarks"]), b(r["keysKept"]))


def live_exported():
    """names of the decorated features menpo.feature exports on this tree (functions carrying `__wrapped__`, and
    partial applications of such)"""
    import functools
    import menpo.feature as mf
    out = []
    for n in sorted(dir(mf)):
        o = getattr(mf, n)
        if n.startswith("_") or not callable(o):
            continue
        if hasattr(o, "__wrapped__") or (isinstance(o, functools.partial) and hasattr(o.func, "__wrapped__")):
            out.append(n)
    return out


def generated(ctx):
    rows = feature_table()
    live = live_exported()
    gen = ("/- REGENERATED by harness/c18.py from the live menpo features on every run: one row per exported feature (and per\n"
           "   listed composition) and image kind, measured on an image whose buffers are read-only.  Do not edit. -/\n"
           "import MenpoModel.Core.C18Table\n\nnamespace MenpoModel.Generated.C18\nopen MenpoModel.C18\n\n"
           "def featureRows : List FeatRow :=\n  [%s]\n\n"
           "/-- the decorated features exported by menpo.feature on this tree -/\n"
           "def liveExported : List String :=\n  [%s]\n\nend MenpoModel.Generated.C18\n" % (
               ",\n   ".join(lean_row(r) for r in rows), ", ".join('"%s"' % n for n in live)))
    ctx.notes["feature_effect_table_rows"] = len(rows)
    ctx.notes["live_exported_features"] = live
    ok = common.build_generated(ctx, {"MenpoModel/Generated/C18Table.lean": gen},
                                ["MenpoModel.Generated.C18Table", "MenpoModel.GenProps.C18"], 0)
    # the three obligations over the regenerated table are listed in THEOREMS (axiom-audited like every other theorem),
    # so they are counted there and not a second time as generated obligations
    ctx.notes["regenerated_obligations_among_theorems"] = [t for t in THEOREMS if ".GenProps." in t]
    if not ok and ctx.broken_obligations:
        bad = [r for r in rows if not (r["returned"] and r["outKind"] == r["inKind"] and not r["writes"] and r["keysKept"])]
        ctx.broken_obligations[-1]["obligation"] = "MenpoModel.GenProps.C18.featureRows_ok / featureRows_cover / liveExported_known"
        ctx.broken_obligations[-1]["live_exported"] = live
        ctx.broken_obligations[-1]["offending_rows"] = bad[:10]
        ctx.broken_obligations[-1]["expected"] = ("every exported feature measured on Image and MaskedImage; each call "
                                                  "returns an image of the input's kind with the same landmark groups "
                                                  "and writes no attribute of the input")
    return ok


def broken_theorems(errors, rel):
    """names of the theorems of lean/<rel> in which the build reported an error (`file:line:col: error`)"""
    import os
    import re
    try:
        text = open(os.path.join(common.LEAN, rel)).read().splitlines()
    except OSError:
        return []
    out = []
    for e in errors:
        m = re.search(re.escape(rel) + r":(\d+):", e)
        if not m:
            continue
        for ln in range(min(int(m.group(1)), len(text)) - 1, -1, -1):
            t = re.match(r"\s*theorem\s+(\S+)", text[ln])
            if t:
                if t.group(1) not in out:
                    out.append(t.group(1))
                break
    return out


def generated_source(ctx):
    """the SOURCE TEXT of the feature code (decorators, rebuild functions, normalize and the normalisers, gradient,
    gaussian_filter, igo, es, no_op, sum_channels, double_igo, the option plumbing of daisy) translated into
    `Generated/C18Src.lean` (harness/trans_c18.py) and proved equal to the Core model (`GenProps/C18Src.lean`).
    An untranslatable function, a translated file that no longer elaborates or an equality that no longer proves is a
    BROKEN OBLIGATION (then: directed search), never an infrastructure error."""
    from . import trans_c18
    n0 = len(ctx.broken_obligations)
    try:
        files, why = trans_c18.generated_files()
    except Exception as e:      # the functions themselves are gone / moved: the tie is broken, not the harness
        files, why = None, ["%s: %s" % (type(e).__name__, e)]
    ctx.notes["source_translation"] = ("%d definitions translated from the source text of the working tree" % trans_c18.N_DEFS
                                       if not why else "untranslatable: " + "; ".join(why))
    if files is None:
        ctx.broken_obligations.append({"targets": list(trans_c18.GEN_TARGETS), "errors": why, "output_tail": ""})
        ok = False
    else:
        ok = common.build_generated(ctx, files, trans_c18.GEN_TARGETS, 0)
    if not ok:
        # the equalities are not audited on this run: they still count as (generated) obligations, one of them broken
        ctx.gen_obligations += len(SRC_THEOREMS)
        if len(ctx.broken_obligations) > n0:
            b = ctx.broken_obligations[-1]
            names = broken_theorems(b.get("errors", []), "MenpoModel/GenProps/C18Src.lean")
            b["obligation"] = ("translated source = Core model: " + (", ".join(names) if names else
                               "the translated definitions no longer elaborate / are untranslatable"))
            if why:
                b["untranslatable"] = why
            ctx._c18_broken_src = names or ["*"]
    return ok


def corpus_cases():
    """hand-minimised cases kept from earlier findings (run first on every run)"""
    ones = lambda c, h, w: [[[1.0] * w for _ in range(h)] for _ in range(c)]  # noqa
    out = []
    for c in (1, 2, 3):
        for name in ("normalize_std", "normalize_norm", "normalize_var"):
            out.append({"feature": name, "params": {"mode": "all", "error_on_divide_by_zero": False}, "kind": "Image",
                        "dtype": "float64", "pixels": ones(c, 2, 2), "mask": None, "lms": []})
    out.append({"feature": "normalize", "params": {"mode": "all", "error_on_divide_by_zero": False,
                                                   "scale": {"kind": "scalar", "values": [0.0]}},
                "kind": "Image", "dtype": "float64", "pixels": [[[1.0, 2.0], [3.0, 5.0]]], "mask": None, "lms": []})
    out.append({"feature": "normalize_std", "params": {"mode": "per_channel", "error_on_divide_by_zero": False},
                "kind": "MaskedImage", "dtype": "float64", "pixels": [[[1.0, 1.0], [1.0, 1.0]], [[1.0, 2.0], [3.0, 5.0]]],
                "mask": [[True, False], [True, True]], "lms": [{"key": "g0", "cls": "PointCloud", "points": [[0.5, 1.0]]}]})
    return out


SWEEP = ["over"] * 4 + ["under"] * 2 + ["tie"] * 2 + ["one", "random"]


def boolean_case(run, rng):
    """BooleanImage inputs are outside the property's quantifier (Image and MaskedImage), except for one clause that
    holds for every input: the feature must not modify it.  (Observed, not judged: `normalize` returns a BooleanImage —
    the normalised values converted back to booleans —, the @ndfeature features a MaskedImage whose mask is the input;
    gradient / igo / es / daisy raise TypeError on boolean pixels.)"""
    import numpy as np
    from menpo.image import BooleanImage
    ctx = run.ctx
    name, params = gen_feature(rng, ["normalize", "normalize_std", "normalize_norm", "normalize_var", "no_op",
                                     "gaussian_filter", "gradient", "igo", "es", "sum_channels"])
    if name in NORMALISERS:
        params = dict(params, error_on_divide_by_zero=False)
    h, w = rng.randint(2, 6), rng.randint(2, 6)
    bits = gen_mask(rng, h, w, rng.choice(["random", "random", "block", "all-true", "one"]))
    img = BooleanImage(np.array(bits, dtype=bool))
    img.landmarks["g0"] = build_image({"kind": "Image", "dtype": "float64", "pixels": [[[0.0] * w] * h], "mask": None,
                                       "lms": [{"key": "g0", "cls": "PointCloud", "points": [[0.0, 1.0]]}]}).landmarks["g0"]
    before = digest(img)
    rp = {"boolean_image": bits, "call": "menpo.feature.%s(BooleanImage(bits), **%r)" % (name, params)}
    ctx.case(("boolean", name, json.dumps([bits, params], sort_keys=True)), nontrivial=False,
             sample={"feature": name, "params": params, "kind": "BooleanImage", "shape": [h, w]})
    kind, out = call_outcome(lambda: apply_feature(name, params, img))
    ctx.count("boolean:%s->%s" % (name, type(out).__name__ if kind == "ok" else kind))
    ctx.check(digest(img) == before, "C18/%s.input" % name, "image-modified",
              "the input BooleanImage (pixels / landmarks) was modified by the call", rp)


def typed_cases():
    """pixel dtypes the features refuse: gradient / igo / es of a uint8 image raise TypeError in both conventions"""
    out = []
    for name, params in (("gradient", {}), ("igo", {"double_angles": False}), ("es", {})):
        for kind in ("Image", "MaskedImage"):
            out.append({"feature": name, "params": params, "kind": kind, "dtype": "uint8",
                        "pixels": [[[1.0, 2.0, 4.0], [7.0, 3.0, 0.0], [5.0, 5.0, 9.0]]],
                        "mask": [[True, False, True], [True, True, True], [False, True, True]] if kind == "MaskedImage" else None,
                        "lms": [{"key": "g0", "cls": "PointCloud", "points": [[0.5, 1.0], [2.0, 2.0]]}]})
    return out


def explore(run, n_wrap, n_norm, n_sweep=0, model=True):
    rng = run.ctx.rng
    for spec in corpus_cases():
        normaliser_case(run, spec, model)
    for i in range(n_sweep):
        spec = gen_sweep_spec(rng, SWEEP[i % len(SWEEP)])
        run.ctx.count("sweep:" + spec["sweep"])
        wrapper_case(run, spec, model)
    for spec in typed_cases():
        wrapper_case(run, spec, model)
    for _ in range(n_wrap // 8):
        wrapper_case(run, gen_volume_spec(rng), model)
    for _ in range(n_wrap // 16):
        boolean_case(run, rng)
    for _ in range(n_wrap):
        wrapper_case(run, gen_wrapper_spec(rng), model)
    for i in range(n_norm):
        zero = [None, None, "all", "channel"][i % 4]
        normaliser_case(run, gen_normaliser_spec(rng, zero), model)


SEARCH_FOCUS = [("Daisy", ["daisy"]), ("Gradient", ["gradient", "igo", "es", "daisy"]), ("Igo", ["igo", "double_igo"]),
                ("Es", ["es"]), ("Gaussian", ["gaussian_filter"]), ("NoOp", ["no_op"]), ("SumChannels", ["sum_channels"]),
                ("Rebuild", ["daisy", "syn_subsample", "syn_crop", "syn_upsample", "syn_window"]),
                ("Ndfeature", ["daisy", "syn_subsample", "gradient", "no_op", "sum_channels"]),
                ("Winit", ["syn_window"]), ("Centres", ["syn_window"]), ("SampleMask", ["syn_window"]),
                ("Imgfeature", ["normalize"]), ("Normalize", ["normalize", "normalize_std", "normalize_norm", "normalize_var"]),
                ("Decorators", ["normalize", "normalize_std", "normalize_norm", "normalize_var"]),
                ("Defaults", ["normalize", "normalize_std", "daisy", "igo"])]


def search(ctx):
    """directed search after a broken tie: oracle only, many more cases, emphasis on the branches the wrappers and the
    normalisers decide (size-changing features, masks, landmark groups, zero scales) — and first of all on the features
    whose translated source no longer equals the model (the names of the broken equalities say which)"""
    r = Run(ctx)
    before = ctx.evaluations
    rng = ctx.rng
    broken = getattr(ctx, "_c18_broken_src", None) or []
    focus = sorted({f for key, feats in SEARCH_FOCUS for f in feats if any(key in n for n in broken)})
    if focus:
        ctx.notes["search_focus"] = focus
        wrap = [f for f in focus if f not in NORMALISERS] or ["daisy"]
        for i in range(300):
            if any(f in NORMALISERS for f in focus) and i % 2 == 0:
                normaliser_case(r, gen_normaliser_spec(rng, [None, "all", "channel"][i % 3]), model=False)
            else:
                wrapper_case(r, gen_wrapper_spec(rng, wrap), model=False)
    for _ in range(400):
        wrapper_case(r, gen_wrapper_spec(rng, ["daisy", "syn_subsample", "syn_crop", "syn_upsample", "syn_window", "compose",
                                               "gradient", "igo", "es", "gaussian_filter", "no_op", "sum_channels"]), model=False)
    for i in range(400):
        normaliser_case(r, gen_normaliser_spec(rng, [None, "all", "channel"][i % 3]), model=False)
    for i in range(400):
        wrapper_case(r, gen_sweep_spec(rng, SWEEP[i % len(SWEEP)]), model=False)
    ctx.searched += ctx.evaluations - before
    return bool(ctx.failures)


def run(ctx):
    ok_table = generated(ctx)
    ok_src = generated_source(ctx)
    # audit what builds: a broken regenerated obligation is followed by the oracle's directed search, not by exit 2
    imports = [IMPORTS[0]] + ([IMPORTS[1]] if ok_table else []) + (SRC_IMPORTS if ok_src else [])
    theorems = [t for t in THEOREMS if (".GenProps.C18Src." not in t or ok_src)
                and (".GenProps.C18." not in t or ok_table)]
    targets = ["MenpoModel.Props.C18", "MenpoModel.Drive.C18"] + imports[1:]
    common.prepare_lean(ctx, PROP, imports, theorems, targets=targets)
    have, missing = available_features()
    ctx.notes["features_covered"] = have + ["compose", "syn_subsample", "syn_crop", "syn_upsample", "syn_window"]
    ctx.notes["features_not_importable"] = missing
    r = Run(ctx)
    explore(r, ctx.n(500, 6000), ctx.n(300, 4000), ctx.n(260, 2600))
    r.settle()
    return ctx.finish(search)


def replay(ctx, path):
    data = json.load(open(path))
    print(json.dumps({k: v for k, v in data.items() if k != "replay"}, indent=1)[:2000])
    rp = data.get("replay") or {}
    spec = rp.get("spec") if isinstance(rp, dict) else None
    if spec is None:
        cases = data.get("broken_correspondence") or []
        spec = (cases[0].get("case") or {}).get("spec") if cases else None
    if spec is None:
        print("no recorded case: re-running the quick exploration with the recorded seed %r" % data.get("seed"))
        return run(common.Ctx(PROP, "quick", int(data.get("seed", 0))))
    print("re-running the recorded case: %s %r on a %s %s" % (spec["feature"], spec["params"], spec["kind"], spec["dtype"]))
    common.prepare_lean(ctx, PROP, IMPORTS[:1], [t for t in THEOREMS if ".GenProps." not in t])
    r = Run(ctx)
    flat2d = not isinstance(spec["pixels"][0][0][0], list)
    if spec["feature"] in NORMALISERS and "mode" in spec["params"] and spec["params"].get("error_on_divide_by_zero") is not None \
            and flat2d and len(spec["pixels"][0]) * len(spec["pixels"][0][0]) <= 64:
        normaliser_case(r, spec)
    else:
        wrapper_case(r, spec)
    r.settle()
    return ctx.finish(search)
