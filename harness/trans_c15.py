"""C15 — the source-text tie (harness/py2lean2.py is the translator; this file is the C15 vocabulary and wiring).

On every run the SOURCE TEXT of the current working tree is translated into Lean:

  Generated/C15Src.lean      menpo/shape/labelled.py: `labels`, `_verify_all_labels_masked`, `__init__`, `copy`,
                             `_new_group_with_only_labels`, `with_labels`, `without_labels`, `get_label`, `add_label`,
                             `remove_label`, `indices_to_masks`, `init_from_indices_mapping`, `init_with_all_label`;
                             menpo/shape/graph.py: `PointUndirectedGraph.from_mask`;
                             menpo/landmark/labels/base.py: `validate_input`, `connectivity_from_array`,
                             `connectivity_from_range`, `pcloud_and_lgroup_from_ranges`, `labeller_func`'s `wrapper`,
                             `labeller`
  Generated/C15SrcLab.lean   every labelling function exported by menpo.landmark (faces, eyes, hands, poses, cars,
                             tongue): its body — `np.arange` / `np.array` / `np.hstack` index tables, connectivity calls,
                             the mapping, which points are handed to which constructor — becomes a Lean function of the
                             input points

`GenProps/C15Src.lean` (hand-written) proves each translated function of the first file equal to the Core definition the
property theorems are about, for all arguments.  `GenProps/C15SrcLab.lean` (written here, because the set of labellers is
read from the live module) proves for each labeller: it commutes with every map of the points (by unfolding),
it refuses every other size (by unfolding), on the index-encoding probe it returns the table PROBED from the live function
(`decide +kernel` — two independent extractions agree) and therefore, on EVERY input, what `Labeller.apply` of the probed
table returns.

The vocabulary (what each Python expression means) is Core/C15Src.lean.  A source that no longer fits the vocabulary
(`Untranslatable`) becomes a stub whose obligation cannot be proved: a broken obligation, never a crash.
"""
import ast
import copy as _copy
import json
import os
import types

from .py2lean2 import Rules2, Translator2, _Ctx, Untranslatable, source_ast, match, _pat  # noqa: F401

GEN_SRC = os.path.join("MenpoModel", "Generated", "C15Src.lean")
GEN_LAB = os.path.join("MenpoModel", "Generated", "C15SrcLab.lean")
PROPS_LAB = os.path.join("MenpoModel", "GenProps", "C15SrcLab.lean")
TARGETS_SRC = ["MenpoModel.Generated.C15Src", "MenpoModel.GenProps.C15Src"]
TARGETS_LAB = ["MenpoModel.Generated.C15SrcLab", "MenpoModel.GenProps.C15SrcLab"]


# =====================================================================================================================
# generic extensions of Translator2 (kept here so that py2lean2.py, which other builders edit, is left alone)
# =====================================================================================================================

def _norm_kw(node):
    """sort the keyword arguments of every call so that their order does not matter for matching"""
    for n in ast.walk(node):
        if isinstance(n, ast.Call) and n.keywords:
            n.keywords.sort(key=lambda k: (k.arg is None, k.arg or ""))
    return node


class Rules15(Rules2):
    """Rules2 plus
      * expr rules may carry a 4th element: the template to use where a monadic value cannot be hoisted (inside a
        comprehension whose own test guards the operation);
      * stmt rules may carry a 4th element "bind": the receiver's new value is monadic;
      * `skip`: statement patterns that are dropped (imports are always dropped);
      * `end` may mention python variables by name (`{self}` = the current lean name of `self`);
      * `truth`: template wrapped around a bare name / attribute / call used as a condition."""

    def __init__(self, expr=(), stmt=(), skip=(), truth="(PyTruth.truth {e})", iter_="(PyIter.iter {e})",
                 top_bind=False, **kw):
        self.expr_alt = [(r[3] if len(r) > 3 else None) for r in expr]
        self.stmt_flag = [(s[3] if len(s) > 3 else "") for s in stmt]
        Rules2.__init__(self, expr=[r[:3] for r in expr], stmt=[s[:3] for s in stmt], **kw)
        self.skip = [_norm_kw(_pat(p, "stmt")) for p in skip]
        self.truth = truth
        self.iter_ = iter_
        self.top_bind = top_bind     # outside loops write `Except.bind m fun x => k` instead of a `match`
        for p, _t, _f in self.expr:
            _norm_kw(p)
        for p, _r, _t in self.stmt:
            _norm_kw(p)


class T15(Translator2):
    def __init__(self, rules):
        Translator2.__init__(self, rules)
        self._pending = []
        self._nohoist = 0
        self._tmp = 0
        self._fn_stack = []        # the live function objects being translated (innermost last): callee resolution
        self._end_stack = []       # value of falling off the end / bare return of an inlined helper
        self.inlined = []          # names of the helper functions that were inlined at a call site

    # ------------------------------------------------------------------------------------------ expressions
    def expr(self, node, scope):
        if isinstance(node, ast.Call) and isinstance(node.func, ast.Name) and node.func.id == "__iter__":
            return self.r.iter_.format(e=self.pure(node.args[0], scope)), ""
        if isinstance(node, ast.Call) and isinstance(node.func, ast.Name) and node.func.id == "__truth__":
            return self.r.truth.format(e=self.pure(node.args[0], scope)), ""
        for i, (pat, tmpl, flag) in enumerate(self.r.expr):
            env = {}
            if match(pat, node, env):
                self.used_rules.add(i)
                if flag == "bind" and (self._nohoist or not self._pending) and self.r.expr_alt[i] is not None:
                    tmpl, flag = self.r.expr_alt[i], ""
                return tmpl.format(**{k: self.pure(v, scope) for k, v in env.items()}), flag
        if isinstance(node, ast.Constant) and isinstance(node.value, str):
            return json.dumps(node.value, ensure_ascii=False), ""
        if isinstance(node, ast.ListComp) and self.r.ret != "{e}":
            try:
                return self.comprehension(node, scope, "list"), ""
            except Untranslatable as e1:
                if "hoisted" not in str(e1):
                    raise
                m = self.monadic_list_comprehension(node, scope)
                if m is None:
                    raise
                return m, "bind"
        if isinstance(node, ast.JoinedStr):
            return "()", ""         # an f-string is only ever a message: the unit value, as `"..".format(..)`
        if isinstance(node, ast.Call):
            g = self._resolve_callee(node, scope)
            if g is not None:
                return self._inline(g[0], g[1], node, scope)
        if isinstance(node, ast.UnaryOp) and isinstance(node.op, ast.Not):
            return "(!" + self.pure(self._truthy(node.operand), scope) + ")", ""
        if isinstance(node, ast.BoolOp):
            self._nohoist += 1          # short circuit: the later operands may not be evaluated at all
            try:
                op = " && " if isinstance(node.op, ast.And) else " || "
                return "(" + op.join(self.pure(self._truthy(v), scope) for v in node.values) + ")", ""
            finally:
                self._nohoist -= 1
        if isinstance(node, ast.IfExp):
            self._nohoist += 1
            try:
                return Translator2.expr(self, node, scope)
            finally:
                self._nohoist -= 1
        return Translator2.expr(self, node, scope)

    @staticmethod
    def _truthy(node):
        """a bare name / attribute / call in a boolean position gets the truth-value wrapper"""
        if isinstance(node, (ast.Name, ast.Attribute, ast.Call, ast.Subscript)):
            if isinstance(node, ast.Call) and isinstance(node.func, ast.Name) and node.func.id in (
                    "isinstance", "any", "all", "__truth__"):
                return node
            if isinstance(node, ast.Call) and isinstance(node.func, ast.Attribute) and node.func.attr in ("any", "all"):
                return node
            return ast.Call(func=ast.Name(id="__truth__", ctx=ast.Load()), args=[node], keywords=[])
        return node

    # ------------------------------------------------------------------------------------------ helper inlining
    INLINE_MODULES = ("menpo.shape.labelled", "menpo.landmark.labels")
    MAX_INLINE_DEPTH = 3

    def _resolve_callee(self, node, scope):
        """(python function, receiver expression or None) for a call of a module-level helper / a method of the same
        class that no rule knows: such a call is translated by inlining the helper's own source text"""
        if not self._fn_stack:
            return None
        fn = self._fn_stack[-1]
        g, recv = None, None
        if isinstance(node.func, ast.Name) and node.func.id not in scope:
            g = getattr(fn, "__globals__", {}).get(node.func.id)
        elif isinstance(node.func, ast.Attribute) and isinstance(node.func.value, ast.Name) \
                and node.func.value.id in ("self", "cls") and "." in getattr(fn, "__qualname__", ""):
            owner = getattr(fn, "__globals__", {}).get(fn.__qualname__.split(".")[0])
            g = getattr(owner, node.func.attr, None) if owner is not None else None
            g = getattr(g, "__func__", g)
            recv = node.func.value
        if not isinstance(g, types.FunctionType) or not str(g.__module__).startswith(self.INLINE_MODULES):
            return None
        if g in self._fn_stack or len(self._fn_stack) > self.MAX_INLINE_DEPTH:
            return None
        return g, recv

    def _inline(self, g, recv, call, scope):
        """the body of helper `g` as a term at its call site: parameters become `let`s of the (translated) arguments"""
        node, _src = source_ast(g)
        node = self._prepare(node)
        a = node.args
        if a.vararg or a.kwarg or a.kwonlyargs or a.posonlyargs:
            raise Untranslatable("helper %s has a signature that cannot be inlined" % node.name)
        params = [x.arg for x in a.args]
        given = ([recv] if recv is not None else []) + list(call.args)
        if any(isinstance(x, ast.Starred) for x in given) or len(given) > len(params):
            raise Untranslatable("call shape of helper %s" % node.name)
        bound = dict(zip(params, given))
        for kw in call.keywords:
            if kw.arg is None or kw.arg not in params or kw.arg in bound:
                raise Untranslatable("call shape of helper %s" % node.name)
            bound[kw.arg] = kw.value
        dflt = dict(zip(params[len(params) - len(a.defaults):], a.defaults))
        sc = {"\0caller%d" % i: v for i, v in enumerate(scope.values())}     # reserve the caller's lean names
        lets = []
        for p_ in params:
            src_node = bound.get(p_, dflt.get(p_))
            if src_node is None:
                raise Untranslatable("helper %s called without its parameter %s" % (node.name, p_))
            val = self.pure(src_node, scope)
            new = self.fresh(p_, sc)
            sc[p_] = new
            lets.append("  let %s := %s" % (new, val))       # same column as the body: a line break ends the `let`
        pure_mode = self.r.ret == "{e}"
        self._fn_stack.append(g)
        self._end_stack.append(None if pure_mode else ".ok ()")
        saved = self._pending
        self._pending = []
        try:
            body = self.block(list(node.body), sc, 1, self.top_ctx())
        finally:
            self._pending = saved
            self._end_stack.pop()
            self._fn_stack.pop()
        self.inlined.append(node.name)
        text = "".join(l + "\n" for l in lets) + body
        # `inlined` is the identity on `Except Err _`: it only tells Lean the type of the helper's `.ok` / `.error`
        return ("(" + text + ")", "") if pure_mode else ("(inlined (" + text + "))", "bind")

    def _prepare(self, node):
        """keyword order normalised, simple aliases (`d = self._labels_to_masks`) replaced by what they stand for"""
        node = _norm_kw(_copy.deepcopy(node))
        return self._inline_aliases(node)

    def _inline_aliases(self, node):
        stores = {}
        for n in ast.walk(node):
            if isinstance(n, ast.Name) and isinstance(n.ctx, (ast.Store, ast.Del)):
                stores[n.id] = stores.get(n.id, 0) + 1
        params = {x.arg for x in node.args.posonlyargs + node.args.args + node.args.kwonlyargs}
        rebound = set()          # receivers of in-place statements (value model: the receiver is re-bound)
        for st_ in ast.walk(node):
            if isinstance(st_, ast.stmt):
                for pat, recv, _t in self.r.stmt:
                    env = {}
                    if match(pat, st_, env):
                        if isinstance(env.get(recv), ast.Name):
                            rebound.add(env[recv].id)
                        break
        alias = {}
        # an attribute that the function itself stores to (`self.attr = ...`) may be re-bound between the alias and its
        # use: Python's local would keep the old object, the substituted text would read the new one — no alias then
        stored_attrs = {n.attr for n in ast.walk(node) if isinstance(n, ast.Attribute) and isinstance(n.ctx, (ast.Store, ast.Del))}

        def chain_attrs(e):
            out = set()
            while isinstance(e, ast.Attribute):
                out.add(e.attr)
                e = e.value
            return out

        def root(e):
            while isinstance(e, ast.Attribute):
                e = e.value
            return e

        class Drop(ast.NodeTransformer):
            def visit_Assign(self_, st):
                if (len(st.targets) == 1 and isinstance(st.targets[0], ast.Name) and isinstance(st.value, ast.Attribute)
                        and isinstance(root(st.value), ast.Name)):
                    x, r = st.targets[0].id, root(st.value).id
                    r_ok = r not in stores or (stores.get(r) == 1 and r not in params and st in node.body and any(
                        isinstance(b, ast.Assign) and len(b.targets) == 1 and isinstance(b.targets[0], ast.Name)
                        and b.targets[0].id == r for b in node.body[:node.body.index(st)]))
                    if stores.get(x, 0) == 1 and x not in params and x not in alias and r not in rebound \
                            and r_ok and x != r and not (chain_attrs(st.value) & stored_attrs):
                        alias[x] = st.value
                        return None
                return self_.generic_visit(st)

        class Subst(ast.NodeTransformer):
            def visit_Name(self_, n):
                if isinstance(n.ctx, ast.Load) and n.id in alias:
                    return _copy.deepcopy(alias[n.id])
                return n
        node = Drop().visit(node)
        if alias:
            node = Subst().visit(node)
            ast.fix_missing_locations(node)
        return node

    def pure(self, node, scope):
        e, flag = self.expr(node, scope)
        if flag == "bind":
            if not self._pending or self._nohoist:
                raise Untranslatable("an operation that may raise where it cannot be hoisted: `%s`" % ast.unparse(node))
            tmp = "tmp%d" % self._tmp
            self._tmp += 1
            self._pending[-1].append((e, tmp))
            return tmp
        return e

    def comprehension(self, node, scope, kind):
        node = _copy.copy(node)
        g = _copy.copy(node.generators[0])
        g.iter = ast.Call(func=ast.Name(id="__iter__", ctx=ast.Load()), args=[g.iter], keywords=[])
        node.generators = [g] + list(node.generators[1:])
        self._nohoist += 1
        try:
            return Translator2.comprehension(self, node, scope, kind)
        finally:
            self._nohoist -= 1

    def monadic_list_comprehension(self, node, scope):
        """`[E for t in IT]` whose element E may raise: `List.mapM (fun it => … .ok E) IT` (stops at the first raise, as
        the comprehension does); None when the comprehension has a filter or several generators"""
        if len(node.generators) != 1 or node.generators[0].ifs or node.generators[0].is_async:
            return None
        g = node.generators[0]
        it = self.pure(ast.Call(func=ast.Name(id="__iter__", ctx=ast.Load()), args=[g.iter], keywords=[]), scope)
        item = self.fresh("it", scope)
        sc = dict(scope)
        sc["\0tmp" + item] = item
        lines, sc = self.bind_target(g.target, item, sc)
        saved_p, saved_n = self._pending, self._nohoist
        self._pending, self._nohoist = [[]], 0
        try:
            elt = self.pure(node.elt, sc)
            pend = self._pending.pop()
        finally:
            self._pending, self._nohoist = saved_p, saved_n
        text = ".ok (%s)" % elt
        for e, tmp in reversed(pend):
            text = "(Except.bind %s fun %s => %s)" % (e, tmp, text)
        return "(List.mapM (fun %s => %s; %s) %s)" % (item, "; ".join(lines), text, it)

    def loop(self, st, rest, scope, ind, ctx):
        st = _copy.copy(st)
        st.iter = ast.Call(func=ast.Name(id="__iter__", ctx=ast.Load()), args=[st.iter], keywords=[])
        return Translator2.loop(self, st, rest, scope, ind, ctx)

    # ------------------------------------------------------------------------------------------ statements
    def may_raise(self, st):
        """does the statement match a monadic stmt rule, or contain an expression matched by a monadic expr rule"""
        for i, (pat, _recv, _t) in enumerate(self.r.stmt):
            if self.r.stmt_flag[i] == "bind" and match(pat, st, {}):
                return True
        for n in ast.walk(st):
            if isinstance(n, ast.expr):
                hit = False
                for pat, _t, flag in self.r.expr:
                    if match(pat, n, {}):
                        if flag == "bind":
                            return True
                        hit = True
                        break
                if not hit and isinstance(n, ast.Call) and self.r.ret != "{e}" and self._resolve_callee(n, {}) is not None:
                    return True
        return False

    def _has(self, stmts, kinds, into_loops):
        for st in stmts:
            if isinstance(st, kinds):
                return True
            if ast.Raise in (kinds if isinstance(kinds, tuple) else (kinds,)) and not isinstance(st, (ast.If, ast.For)) \
                    and self.may_raise(st):
                return True
            if isinstance(st, ast.If):
                if ast.Raise in (kinds if isinstance(kinds, tuple) else (kinds,)) and self.may_raise(ast.Expr(value=st.test)):
                    return True
                if self._has(st.body, kinds, into_loops) or self._has(st.orelse, kinds, into_loops):
                    return True
            if isinstance(st, ast.For) and into_loops and self._has(st.body, kinds, into_loops):
                return True
        return False

    def _unwrap(self, m, x, k, scope, ind, ctx):
        """`match m with | .error e => <exit with that error> | .ok x => k` (k is already indented text)"""
        pad = "  " * ind
        if self.r.top_bind and ctx.brk is None:
            return "%s(Except.bind %s fun %s =>\n%s)" % (pad, m, x, k)
        ex = ctx.exit(".error err", scope, 0).strip()
        return "%s(match %s with\n%s| .error err => %s\n%s| .ok %s =>\n%s)" % (pad, m, pad, ex, pad, x, k)

    def block(self, stmts, scope, ind, ctx):
        self._pending.append([])
        try:
            text = self._block1(stmts, scope, ind, ctx)
        finally:
            pend = self._pending.pop()
        for e, tmp in reversed(pend):
            text = self._unwrap(e, tmp, text, scope, ind, ctx)
        return text

    def _block1(self, stmts, scope, ind, ctx):
        pad = "  " * ind
        if not stmts:
            return ctx.end(scope, ind)
        st, rest = stmts[0], stmts[1:]
        if isinstance(st, (ast.Import, ast.ImportFrom)):
            return self.block(rest, scope, ind, ctx)
        for pat in self.r.skip:
            if match(pat, st, {}):
                return self.block(rest, scope, ind, ctx)
        if isinstance(st, ast.Return) and st.value is None:
            return ctx.exit(self._end_text(scope), scope, ind)
        if isinstance(st, ast.If):
            c = self.pure(self._truthy(st.test), scope)
            a = self.block(list(st.body) + rest, dict(scope), ind + 1, ctx)
            b = self.block(list(st.orelse) + rest, dict(scope), ind + 1, ctx)
            return "%sif %s then\n%s\n%selse\n%s" % (pad, c, a, pad, b)
        for i, (pat, recv, tmpl) in enumerate(self.r.stmt):
            env = {}
            if match(pat, st, env):
                self.used_rules.add(("s", i))
                target = env[recv]
                if not isinstance(target, ast.Name):
                    raise Untranslatable("in-place statement on a non-variable: `%s`" % ast.unparse(st))
                val = tmpl.format(**{k: self.pure(v, scope) for k, v in env.items()})
                new = self.fresh(target.id, scope)
                sc = dict(scope)
                sc[target.id] = new
                if self.r.stmt_flag[i] == "bind":
                    return self._unwrap(val, new, self.block(rest, sc, ind + 1, ctx), scope, ind, ctx)
                return "%slet %s := %s\n%s" % (pad, new, val, self.block(rest, sc, ind, ctx))
        if isinstance(st, ast.Assign) and len(st.targets) == 1:
            e, flag = self.expr(st.value, scope)
            if flag == "bind":
                if isinstance(st.targets[0], ast.Name):
                    new = self.fresh(st.targets[0].id, scope)
                    sc = dict(scope)
                    sc[st.targets[0].id] = new
                    return self._unwrap(e, new, self.block(rest, sc, ind + 1, ctx), scope, ind, ctx)
                tmp = "tmp%d" % self._tmp
                self._tmp += 1
                lines, sc = self.bind_target(st.targets[0], tmp, scope)
                k = "".join("  " * (ind + 1) + l + "\n" for l in lines) + self.block(rest, sc, ind + 1, ctx)
                return self._unwrap(e, tmp, k, scope, ind, ctx)
            lines, sc = self.bind_target(st.targets[0], e, scope)
            return "".join(pad + l + "\n" for l in lines) + self.block(rest, sc, ind, ctx)
        return Translator2.block(self, stmts, scope, ind, ctx)

    def _end_text(self, scope):
        if self._end_stack:
            if self._end_stack[-1] is None:
                raise Untranslatable("a helper without a value is used as a value")
            return self._end_stack[-1]
        if self.r.end is None:
            raise Untranslatable("control reaches the end of the function without return/raise")
        d = {k: v for k, v in scope.items() if k.isidentifier()}
        try:
            return self.r.end.format(**d)
        except (KeyError, IndexError) as e:
            raise Untranslatable("the value of falling off the end needs the python variable %s" % e)

    def top_ctx(self):
        return _Ctx(exit_=lambda v, s, i: "  " * i + v, end=lambda scope, ind: "  " * ind + self._end_text(scope))

    def function_node(self, node, arg_names, ind=2, allow_unused=()):
        node = self._prepare(node)
        a = node.args
        params = [x.arg for x in a.posonlyargs + a.args + a.kwonlyargs]
        if a.vararg:
            params.append(a.vararg.arg)
        if a.kwarg:
            params.append(a.kwarg.arg)
        mentioned = {n.id for st in node.body for n in ast.walk(st) if isinstance(n, ast.Name)}
        for p in params:
            if p not in arg_names and not (p in allow_unused and p not in mentioned):
                raise Untranslatable("signature of %s changed: %s" % (node.name, ast.unparse(node.args)))
        for p in arg_names:
            if p not in params:
                raise Untranslatable("signature of %s changed: no parameter %r" % (node.name, p))
        self._tmp = 0
        return self.block(list(node.body), dict(arg_names), ind, self.top_ctx())

    def function(self, fn, arg_names, ind=2, allow_unused=()):
        node, _src = source_ast(fn)
        self._fn_stack.append(fn)
        try:
            return self.function_node(node, arg_names, ind, allow_unused)
        finally:
            self._fn_stack.pop()


def defaults_of(fn):
    """{parameter: lean text of its default} for the boolean / None defaults of `fn`"""
    node, _ = source_ast(fn)
    a = node.args
    pos = a.posonlyargs + a.args
    out = {}
    for p, d in list(zip(pos[len(pos) - len(a.defaults):], a.defaults)) + \
            [(p, d) for p, d in zip(a.kwonlyargs, a.kw_defaults) if d is not None]:
        if isinstance(d, ast.Constant) and d.value in (True, False, None):
            out[p.arg] = {True: "true", False: "false", None: "none"}[d.value]
        else:
            out[p.arg] = None
    return out


# =====================================================================================================================
# part 1: menpo/shape/labelled.py, PointUndirectedGraph.from_mask, menpo/landmark/labels/base.py
# =====================================================================================================================

RAISES = {"ValueError": ".error .value", "KeyError": ".error .key", "IndexError": ".error .index",
          "LabellingError": ".error .labelling", "TypeError": ".error .type", "AssertionError": ".error .value"}


def _need(d, fn_name, *keys):
    for k in keys:
        if d.get(k) is None:
            raise Untranslatable("default of `%s` of %s is not a boolean constant any more" % (k, fn_name))
    return d


def labelled_rules(extra_expr=(), extra_stmt=(), end=None):
    """the vocabulary of menpo/shape/labelled.py (and graph.py's from_mask)"""
    from menpo.shape import LabelledPointUndirectedGraph as L, PointUndirectedGraph as PU
    di = _need(defaults_of(L.__init__), "LabelledPointUndirectedGraph.__init__", "copy", "skip_checks")
    dm = _need(defaults_of(L.init_from_indices_mapping.__func__), "init_from_indices_mapping", "copy")
    if L.from_mask is not PU.from_mask:
        raise Untranslatable("LabelledPointUndirectedGraph overrides from_mask")
    expr = list(extra_expr) + [
        ("$s._labels_to_masks[$k]", "(ODict.get (ODict.mk {s}.labels) {k})", "bind",
         "(ODict.getD (ODict.mk {s}.labels) {k} [])"),
        ("$s._labels_to_masks", "(ODict.mk {s}.labels)"),
        ("$s.labels", "(labels_prop {s})"),
        ("list($d.keys())", "(ODict.keys {d})"),
        ("list($d.values())", "(ODict.values {d})"),
        ("$d.items()", "(ODict.items {d})"),
        ("$s.n_points", "{s}.pts.length"),
        ("$s.points", "{s}.pts"),
        ("$s.adjacency_matrix", "(adjOf {s})"),
        ("isinstance($x, str)", "(PyArg.isStr {x})"),
        ("isinstance($x, OrderedDict)", "true"),
        ("len($x)", "(List.length {x})"),
        ("set($a).difference($b)", "(pySetDiff {a} {b})", "bind"),
        ("np.sum($m, axis=0) > 0", "(npSumGt0 {m})"),
        ("np.sum($m, axis=0) == 0", "(npSumEq0 {m})"),
        ("np.any($x)", "(NpMask.any {x})"),
        ("np.all($x)", "(NpMask.all {x})"),
        ("np.nonzero($x)", "()"),
        ("$k not in $c", "(!(PyHas.has {c} {k}))"),
        ("$k in $c", "(PyHas.has {c} {k})"),
        ("OrderedDict(zip($a, $b))", "(ODict.zip (PyIter.iter {a}) {b})"),
        ("OrderedDict()", "ODict.empty"),
        ("OrderedDict($x)", "(ODict.ofPairs {x})"),
        ("np.zeros($n, dtype=bool)", "(List.replicate {n} false)"),
        ("np.ones($n, dtype=bool)", "(List.replicate {n} true)"),
        ("Copyable.copy($s)", "{s}"),
        ("self.copy()", "(copy_ s)"),
        ("$m.copy()", "{m}"),
        ("np.vstack($x).shape[1]", "(vstackWidth {x})", "bind"),
        ("$p.shape[0]", "(PyShape.shape0 {p})", "bind", "(PyShape.shape0D {p})"),
        ("$a.shape[1]", "(Adj.shape1 {a})"),
        ("np.array($x)", "{x}"),
        ("_convert_edges_to_symmetric_adjacency_matrix($a, $n)", "(convertEdges {a} {n})", "bind"),
        ("indices_to_masks($m, $n)", "(indices_to_masks {m} {n})", "bind"),
        ("LabelledPointUndirectedGraph($p, $a, $d, copy=$c, skip_checks=$k)", "(lpug_init {p} {a} {d} {c} {k})", "bind"),
        ("LabelledPointUndirectedGraph($p, $a, $d, copy=$c)", "(lpug_init {p} {a} {d} {c} %s)" % di["skip_checks"], "bind"),
        ("LabelledPointUndirectedGraph($p, $a, $d)", "(lpug_init {p} {a} {d} %s %s)" % (di["copy"], di["skip_checks"]),
         "bind"),
        ("PointUndirectedGraph($p, $a, copy=$c, skip_checks=$k)", "(puInit {p} {a} {k})", "bind"),
        ("_mask_adjacency_matrix_and_points($m, $a, $p)", "(maskAdjPts {m} {a} {p})"),
        ("$s.from_mask($m)", "(from_mask {s} {m})", "bind"),
        ("PointUndirectedGraph.from_mask($s, $m)", "(from_mask {s} {m})", "bind"),
        ("$s._new_group_with_only_labels($x)", "(new_group_with_only_labels {s} {x})", "bind"),
        ("$m[$i]", "(maskIndex {m} {i})"),
    ]
    stmt = list(extra_stmt) + [
        ("$m[$i] = True", "m", "(setTrueAt {m} {i})", "bind"),
        ("$g._labels_to_masks[$k] = $v", "g", "{{ {g} with labels := setLabel {g}.labels {k} {v} }}"),
        ("$g._labels_to_masks = $v", "g", "{{ {g} with labels := (ODict.items {v}) }}"),
        ("$g._labels_to_masks.pop($k)", "g", "(popLabel {g} {k})", "bind"),
        ("$g._verify_all_labels_masked()", "g", "(verify_all_labels_masked {g})", "bind"),
        ("PointUndirectedGraph.__init__($g, $p, $a, copy=$c, skip_checks=$k)", "g", "(puInit {p} {a} {k})", "bind"),
        ("$d[$k] = $v", "d", "(ODict.set {d} {k} {v})"),
    ]
    _ = dm
    return Rules15(expr=expr, stmt=stmt, ret=".ok ({e})", raise_by=dict(RAISES), raise_=None, end=end)


def base_rules(extra_expr=(), extra_stmt=(), end=None, ret=".ok ({e})"):
    """the vocabulary of menpo/landmark/labels/base.py: a point cloud is the list of its points"""
    from menpo.landmark.labels import base as B
    from menpo.shape import LabelledPointUndirectedGraph as L
    dc = _need(defaults_of(B.connectivity_from_array), "connectivity_from_array", "close_loop")
    dm = _need(defaults_of(L.init_from_indices_mapping.__func__), "init_from_indices_mapping", "copy")
    expr = list(extra_expr) + [
        ("$p.n_points", "(List.length {p})"),
        ("$p.points", "{p}"),
        ("$s.format($a, $b)", "()"),
        ("list(zip($a, $b))", "(List.zip {a} {b})"),
        ("$a[1:]", "(List.drop 1 {a})"),
        ("$a[-1]", "(pyLast {a})", "bind"),
        ("$a[0]", "(pyHead {a})", "bind"),
        ("np.asarray($x)", "{x}"),
        ("np.arange(*$t)", "(arange {t}.1 {t}.2)"),
        ("np.vstack($x)", "(List.flatten {x})"),
        ("OrderedDict()", "ODict.empty"),
        ("connectivity_from_array($a, close_loop=$c)", "(connectivity_from_array {a} {c})", "bind"),
        ("connectivity_from_array($a)", "(connectivity_from_array {a} %s)" % dc["close_loop"], "bind"),
        ("connectivity_from_range($t, close_loop=$c)", "(connectivity_from_range {t} {c})", "bind"),
        ("$d.items()", "(ODict.items {d})"),
        ("LabelledPointUndirectedGraph.init_from_indices_mapping($p, $c, $m)",
         "(init_from_indices_mapping {p} (Adj.edgeList {c}) {m} %s)" % dm["copy"], "bind"),
    ]
    stmt = list(extra_stmt) + [
        ("$c.append($x)", "c", "({c} ++ [{x}])"),
        ("$d[$k] = $v", "d", "(ODict.set {d} {k} {v})"),
    ]
    return Rules15(expr=expr, stmt=stmt, ret=ret, raise_by=dict(RAISES), raise_=None, end=end)


def part1_items():
    """[(lean signature ending in `:=`, thunk -> body, stub body)] in definition order"""
    from menpo.shape import LabelledPointUndirectedGraph as L, PointUndirectedGraph as PU
    from menpo.shape import labelled as LM
    from menpo.landmark.labels import base as B
    G = "{α : Type}"
    items = []

    def add(sig, fn, args, rules, stub, allow_unused=()):
        def thunk():
            return T15(rules()).function(fn, args, ind=1, allow_unused=allow_unused)
        items.append(("def %s :=" % sig, thunk, "  " + stub))

    err = ".error .type"
    add("labels_prop %s (s : LGraph α) : List String" % G, L.labels.fget, {"self": "s"},
        lambda: Rules15(expr=[("list($s._labels_to_masks.keys())", "(ODict.keys (ODict.mk {s}.labels))")], ret="{e}",
                        raise_=None), "[]")
    add("verify_all_labels_masked %s (s : LGraph α) : Except Err (LGraph α)" % G, L._verify_all_labels_masked,
        {"self": "s"}, lambda: labelled_rules(end=".ok {self}"), err)
    add("from_mask %s (s : LGraph α) (mask : NpMask) : Except Err (LGraph α)" % G, PU.from_mask,
        {"self": "s", "mask": "mask"}, labelled_rules, err)
    add("lpug_init %s (points : List α) (adjacency_matrix : Adj) (labels_to_masks : ODict (List Bool)) "
        "(copy skip_checks : Bool) : Except Err (LGraph α)" % G, L.__init__,
        {"self": "(LGraph.mk [] [] [])", "points": "points", "adjacency_matrix": "adjacency_matrix",
         "labels_to_masks": "labels_to_masks", "copy": "copy", "skip_checks": "skip_checks"},
        lambda: labelled_rules(end=".ok {self}"), err)
    add("copy_ %s (s : LGraph α) : LGraph α" % G, L.copy, {"self": "s"},
        lambda: Rules15(expr=[("Copyable.copy($s)", "{s}"), ("$s._labels_to_masks.items()", "{s}.labels"),
                              ("$m.copy()", "{m}")],
                        stmt=[("$g._labels_to_masks[$k] = $v", "g", "{{ {g} with labels := setLabel {g}.labels {k} {v} }}")],
                        ret="{e}", raise_=None), "{ s with labels := [] }")
    add("new_group_with_only_labels %s (s : LGraph α) (labels : PyArg) : Except Err (LGraph α)" % G,
        L._new_group_with_only_labels, {"self": "s", "labels": "labels"}, labelled_rules, err)
    add("with_labels %s (s : LGraph α) (labels : PyArg) : Except Err (LGraph α)" % G, L.with_labels,
        {"self": "s", "labels": "labels"}, lambda: labelled_rules(extra_expr=[("[$x]", "(PyArg.wrap {x})")]), err)
    add("without_labels %s (s : LGraph α) (labels : PyArg) : Except Err (LGraph α)" % G, L.without_labels,
        {"self": "s", "labels": "labels"},
        lambda: labelled_rules(extra_expr=[
            ("[$x]", "(PyArg.wrap {x})"),
            ("$s._new_group_with_only_labels($x)", "(new_group_with_only_labels {s} (PyArg.list {x}))", "bind")]), err)
    add("get_label %s (s : LGraph α) (label : String) : Except Err (LGraph α)" % G, L.get_label,
        {"self": "s", "label": "label"}, labelled_rules, err)
    add("add_label %s (s : LGraph α) (label : String) (indices : List Int) : Except Err (LGraph α)" % G, L.add_label,
        {"self": "s", "label": "label", "indices": "indices"}, labelled_rules, err)
    add("remove_label %s (s : LGraph α) (label : String) : Except Err (LGraph α)" % G, L.remove_label,
        {"self": "s", "label": "label"}, labelled_rules, err)
    add("indices_to_masks (labels_to_indices : ODict (List Int)) (n_points : Nat) : Except Err (ODict (List Bool))",
        LM.indices_to_masks, {"labels_to_indices": "labels_to_indices", "n_points": "n_points"},
        lambda: labelled_rules(extra_expr=[("$d[$k]", "(ODict.getD {d} {k} [])")]), err)
    add("init_from_indices_mapping %s (points : List α) (adjacency : Adj) (labels_to_indices : ODict (List Int)) "
        "(copy : Bool) : Except Err (LGraph α)" % G, L.init_from_indices_mapping.__func__,
        {"points": "points", "adjacency": "adjacency", "labels_to_indices": "labels_to_indices", "copy": "copy"},
        labelled_rules, err, allow_unused=("cls",))
    add("init_with_all_label %s (points : List α) (adjacency_matrix : Adj) (copy : Bool) : Except Err (LGraph α)" % G,
        L.init_with_all_label.__func__,
        {"points": "points", "adjacency_matrix": "adjacency_matrix", "copy": "copy"}, labelled_rules, err,
        allow_unused=("cls",))
    add("init_from_edges %s (points : List α) (edges : Adj) (labels_to_masks : ODict (List Bool)) "
        "(copy skip_checks : Bool) : Except Err (LGraph α)" % G, L.init_from_edges.__func__,
        {"cls": "()", "points": "points", "edges": "edges", "labels_to_masks": "labels_to_masks", "copy": "copy",
         "skip_checks": "skip_checks"},
        lambda: labelled_rules(extra_expr=[("cls($p, $a, $d, copy=$c, skip_checks=$k)",
                                            "(lpug_init {p} {a} {d} {c} {k})", "bind")]), err)
    add("n_labels %s (s : LGraph α) : Nat" % G, L.n_labels.fget, {"self": "s"},
        lambda: Rules15(expr=[("len($s.labels)", "(List.length (labels_prop {s}))")], ret="{e}", raise_=None), "0")
    # ---- menpo/landmark/labels/base.py
    add("validate_input %s (pcloud : List α) (n_expected_points : Nat) : Except Err Unit" % G, B.validate_input,
        {"pcloud": "pcloud", "n_expected_points": "n_expected_points"}, lambda: base_rules(end=".ok ()"), err)
    add("connectivity_from_array (array : List Int) (close_loop : Bool) : Except Err (List (Int × Int))",
        B.connectivity_from_array, {"array": "array", "close_loop": "close_loop"}, base_rules, err)
    add("connectivity_from_range (range_tuple : Int × Int) (close_loop : Bool) : Except Err (List (Int × Int))",
        B.connectivity_from_range, {"range_tuple": "range_tuple", "close_loop": "close_loop"}, base_rules, err)
    add("pcloud_and_lgroup_from_ranges %s (pointcloud : List α) (labels_to_ranges : ODict (Int × Int × Bool)) : "
        "Except Err (LGraph α × ODict (List Int))" % G, B.pcloud_and_lgroup_from_ranges,
        {"pointcloud": "pointcloud", "labels_to_ranges": "labels_to_ranges"},
        lambda: base_rules(extra_expr=[("$t[:-1]", "({t}.1, {t}.2.1)"), ("$t[-1]", "{t}.2.2")]), err)
    add("labeller %s (landmarkable : Manager α) (group : Option String) (label_func : LabFunc) : "
        "Except Err (Manager α)" % G, B.labeller,
        {"landmarkable": "landmarkable", "group": "group", "label_func": "label_func"},
        lambda: Rules15(expr=[("$m.landmarks[$k]", "(Manager.getItem {m} {k})", "bind"),
                              ("label_func($x)", "(callOnGroup label_func {x})", "bind"),
                              ("$f.group_label", "{f}.groupLabel")],
                        stmt=[("$m.landmarks[$k] = $v", "m", "(Manager.setItem {m} {k} {v})", "bind")],
                        ret=".ok ({e})", raise_by=dict(RAISES), raise_=None), err)
    # ---- `labeller_func`'s wrapper (a nested def)
    def wrapper_thunk():
        node, _ = source_ast(B.labeller_func)
        inner = None
        for n in ast.walk(node):
            if isinstance(n, ast.FunctionDef) and n.name == "wrapper":
                inner = n
        if inner is None:
            raise Untranslatable("labeller_func has no nested def `wrapper` any more")
        dflt = {a.arg: d for a, d in zip(inner.args.args[len(inner.args.args) - len(inner.args.defaults):],
                                         inner.args.defaults)}
        d = dflt.get("return_mapping")
        if not (isinstance(d, ast.Constant) and d.value is False):
            raise Untranslatable("the default of `return_mapping` is not False any more")
        r = Rules15(expr=[("isinstance($x, np.ndarray)", "(InArg.isArray {x})"),
                          ("PointCloud($x, copy=False)", "(InArg.toCloud {x})"),
                          ("labelling_method($x)", "(methodOn method {x})", "bind")],
                    ret=".ok (ToWrapOut.conv ({e}))", raise_by=dict(RAISES), raise_=None)
        return T15(r).function_node(inner, {"x": "x", "return_mapping": "return_mapping"}, ind=1)
    items.append(("def wrapper %s (method : List α → Except Err (Obj α × ODict (List Int))) (x : InArg α) "
                  "(return_mapping : Bool) : Except Err (Obj α × Option (ODict (List Int))) :=" % G, wrapper_thunk,
                  "  " + err))
    return items


HEADER_SRC = """/- TRANSLATED by harness/trans_c15.py (harness/py2lean2.py) from the SOURCE TEXT of the current working tree on every
   run of `./check C15`; do not edit.  menpo/shape/labelled.py (LabelledPointUndirectedGraph.labels,
   _verify_all_labels_masked, __init__, copy, _new_group_with_only_labels, with_labels, without_labels, get_label,
   add_label, remove_label, init_from_indices_mapping, init_with_all_label; indices_to_masks),
   menpo/shape/graph.py (PointUndirectedGraph.from_mask), menpo/landmark/labels/base.py (validate_input,
   connectivity_from_array, connectivity_from_range, pcloud_and_lgroup_from_ranges).
   GenProps/C15Src.lean proves each definition equal to the Core definition the C15 theorems are about. -/
import MenpoModel.Core.C15Src

set_option linter.unusedVariables false

namespace MenpoModel.C15.SrcGen
open MenpoModel.C15 MenpoModel.C15.Src
"""

FOOTER_SRC = """/-- a labelling function calling another one on its own point cloud: `other(pcloud)` -/
def callPlain {α : Type} (method : List α → Except Err (Obj α × ODict (List Int))) (x : List α) : Except Err (Obj α) :=
  match wrapper method (.obj ⟨.pointcloud, { pts := x, edges := [], labels := [] }⟩) false with
  | .error e => .error e
  | .ok r => .ok r.1

/-- `other(pcloud, return_mapping=True)` -/
def callWithMapping {α : Type} (method : List α → Except Err (Obj α × ODict (List Int))) (x : List α) :
    Except Err (Obj α × ODict (List Int)) :=
  match wrapper method (.obj ⟨.pointcloud, { pts := x, edges := [], labels := [] }⟩) true with
  | .error e => .error e
  | .ok (o, some m) => .ok (o, m)
  | .ok (_, none) => .error .type

end MenpoModel.C15.SrcGen
"""


def translate_part1():
    """(lean text, [reasons])"""
    from .py2lean2 import translate_or_stub
    try:
        items = part1_items()
    except Untranslatable as e:
        return HEADER_SRC + "\n/- UNTRANSLATABLE (vocabulary): %s -/\n" % str(e).replace("-/", "- /") + FOOTER_SRC, [str(e)]
    return translate_or_stub(items, HEADER_SRC, FOOTER_SRC)


if __name__ == "__main__":
    import sys
    text, why = translate_part1()
    print(text)
    print(why, file=sys.stderr)


# =====================================================================================================================
# part 2: the labelling functions of menpo.landmark (bodies = index tables written with numpy)
# =====================================================================================================================

class TLab(T15):
    """T15 plus `np.hstack(<tuple or list>)`: scalars among the elements are one-element arrays"""

    def expr(self, node, scope):
        if (isinstance(node, ast.Call) and isinstance(node.func, ast.Attribute) and node.func.attr == "hstack"
                and isinstance(node.func.value, ast.Name) and node.func.value.id == "np" and len(node.args) == 1
                and not node.keywords and isinstance(node.args[0], (ast.Tuple, ast.List))):
            parts = []
            for e in node.args[0].elts:
                if isinstance(e, ast.Constant) and isinstance(e.value, int) and not isinstance(e.value, bool):
                    parts.append("[(%d)]" % e.value)
                else:
                    parts.append(self.pure(e, scope))
            return "(" + " ++ ".join(parts) + ")" if parts else "[]", ""
        if isinstance(node, ast.Tuple) and all(isinstance(e, ast.Constant) and isinstance(e.value, str) for e in node.elts) \
                and len(node.elts) != 2:
            # a tuple of label names (`closed_labels=("torso",)`, `()`) is only ever a collection to test membership in
            return "([" + ", ".join(json.dumps(e.value, ensure_ascii=False) for e in node.elts) + "] : List String)", ""
        return T15.expr(self, node, scope)


def live_labellers():
    from . import extract_c15
    fs = extract_c15.live_labellers()
    return {n: f for n, f in fs.items() if n not in extract_c15.BBOX}


def lab_rules(names, helpers):
    """vocabulary of a labelling function; `names`: the live labellers (calls to them go through the wrapper),
    `helpers`: {python name: lean name} of the zero-argument helper functions translated alongside"""
    from menpo.landmark.labels import base as B
    from menpo.shape import LabelledPointUndirectedGraph as L
    dc = _need(defaults_of(B.connectivity_from_array), "connectivity_from_array", "close_loop")
    dr = _need(defaults_of(B.connectivity_from_range), "connectivity_from_range", "close_loop")
    dm = _need(defaults_of(L.init_from_indices_mapping.__func__), "init_from_indices_mapping", "copy")
    expr = []
    for n in names:
        expr.append(("%s($x, return_mapping=True)" % n, "(callWithMapping (@%s _) {x})" % n, "bind"))
        expr.append(("%s($x)" % n, "(callPlain (@%s _) {x})" % n, "bind"))
    for py, ln in helpers.items():
        expr.append(("%s()" % py, ln, "bind"))
    expr += [
        ("$a[::-1]", "(List.reverse {a})"),
        ("$a[1:]", "(List.drop 1 {a})"),
        ("$a[:-$k]", "(dropLastN {k} {a})"),
        ("$a[:$k]", "(List.take {k} {a})"),
        ("$a[$k:]", "(List.drop {k} {a})"),
        ("$p.points[$i]", "(takePts (HasPoints.points {p}) {i})", "bind"),
        ("$p.points", "(HasPoints.points {p})"),
        ("$p.n_points", "(List.length (HasPoints.points {p}))"),
        ("$p.edges", "(objEdges {p})"),
        ("np.arange(*$t)", "(arange {t}.1 {t}.2)"),
        ("np.arange($a, $b)", "(arange {a} {b})"),
        ("np.arange($n)", "(arange 0 {n})"),
        ("np.array(range($a, $b))", "(arange {a} {b})"),
        ("np.array($x)", "{x}"),
        ("np.asarray($x)", "{x}"),
        ("$x.tolist()", "{x}"),
        ("np.vstack($x)", "(List.flatten {x})"),
        ("np.roll($a, $k)", "(npRoll {a} {k})"),
        ("list(zip($a, $b))", "(List.zip {a} {b})"),
        ("connectivity_from_array($a, close_loop=$c)", "(connectivity_from_array {a} {c})", "bind"),
        ("connectivity_from_array($a)", "(connectivity_from_array {a} %s)" % dc["close_loop"], "bind"),
        ("connectivity_from_range($t, close_loop=$c)", "(connectivity_from_range {t} {c})", "bind"),
        ("connectivity_from_range($t)", "(connectivity_from_range {t} %s)" % dr["close_loop"], "bind"),
        ("pcloud_and_lgroup_from_ranges($p, $d)", "(rangesObj (pcloud_and_lgroup_from_ranges {p} {d}))", "bind"),
        ("LabelledPointUndirectedGraph.init_from_indices_mapping($p, $c, $m)",
         "(lgraphObj (init_from_indices_mapping {p} (Adj.edgeList {c}) {m} %s))" % dm["copy"], "bind"),
        ("TriMesh($p, copy=False, trilist=$t)", "(triMesh {p} {t})"),
        ("TriMesh($p, trilist=$t)", "(triMesh {p} {t})"),
        ("$g.from_vector($v)", "(objFromVector {g} {v})", "bind"),
        ("OrderedDict()", "ODict.empty"),
        ("OrderedDict($x)", "(ODict.ofPairs {x})"),
        ("$d.items()", "(ODict.items {d})"),
        ("$k in $c", "(List.contains {c} {k})"),
        ("$k not in $c", "(!(List.contains {c} {k}))"),
        ("$d[$k]", "(ODict.get {d} {k})", "bind"),
    ]
    stmt = [
        ("validate_input($p, $n)", "p", "(validated (validate_input {p} {n}) {p})", "bind"),
        ("$c.append($x)", "c", "({c} ++ [{x}])"),
        ("$d[$k] = $v", "d", "(ODict.set {d} {k} {v})"),
    ]
    return Rules15(expr=expr, stmt=stmt, ret=".ok ({e})", raise_by=dict(RAISES), raise_=None, top_bind=True,
                   binop={ast.Add: "({a} ++ {b})"})


def _calls(fn):
    node, _ = source_ast(fn)
    return {n.func.id for st in node.body for n in ast.walk(st)
            if isinstance(n, ast.Call) and isinstance(n.func, ast.Name)}


def lab_plan():
    """(ordered labeller names (callees first), {name: [labellers it calls]}, {python helper name: (lean name, fn)})"""
    fs = live_labellers()
    deps, helpers = {}, {}
    known = {"validate_input", "connectivity_from_array", "connectivity_from_range", "pcloud_and_lgroup_from_ranges",
             "TriMesh", "OrderedDict", "list", "zip", "range", "len"}
    for n, f in fs.items():
        inner = getattr(f, "__wrapped__", f)
        try:
            cs = _calls(inner)
        except (Untranslatable, OSError, TypeError, SyntaxError):
            cs = set()
        deps[n] = sorted(c for c in cs if c in fs and c != n)
        for c in cs:
            if c in fs or c in known:
                continue
            g = getattr(inner, "__globals__", {}).get(c)
            if callable(g) and getattr(g, "__module__", "").startswith("menpo.landmark.labels") \
                    and not isinstance(g, type):
                try:
                    gn, _ = source_ast(g)
                    if gn.args.args or gn.args.vararg or gn.args.kwarg or gn.args.kwonlyargs:
                        continue        # a helper with parameters is inlined at its call sites (T15._inline)
                except (Untranslatable, OSError, TypeError, SyntaxError):
                    continue
                helpers[c] = ("h" + c if c.startswith("_") else "h_" + c, g)
    order, seen = [], set()

    def visit(n, stack=()):
        if n in seen or n in stack:
            return
        for d in deps[n]:
            visit(d, stack + (n,))
        seen.add(n)
        order.append(n)
    for n in sorted(fs):
        visit(n)
    return order, deps, helpers


HEADER_LAB = """/- TRANSLATED by harness/trans_c15.py (harness/py2lean2.py) from the SOURCE TEXT of every labelling function the
   live menpo.landmark module exports (menpo/landmark/labels/**) on every run of `./check C15`; do not edit.
   The body of each function — its `np.arange` / `np.array` / `np.hstack` index tables, its connectivity calls, its
   mapping, which points go to which constructor — as a function of the input points.  GenProps/C15SrcLab.lean proves
   each equal, on EVERY input, to `Labeller.apply` of the table PROBED from the live function. -/
import MenpoModel.Generated.C15Src

set_option linter.unusedVariables false
set_option maxRecDepth 4096

namespace MenpoModel.C15.SrcLab
open MenpoModel.C15 MenpoModel.C15.Src MenpoModel.C15.SrcGen
"""
FOOTER_LAB = "end MenpoModel.C15.SrcLab\n"
LAB_SIG = "def %s {α : Type} (pcloud : List α) : Except Err (Obj α × ODict (List Int)) :="
LAB_STUB = "  .error .type"


def _safe(thunk):
    def run():
        try:
            return thunk()
        except Untranslatable:
            raise
        except (OSError, TypeError, SyntaxError, AttributeError, KeyError, IndexError) as e:
            raise Untranslatable("%s: %s" % (type(e).__name__, e))
    return run


def translate_labellers():
    """(lean text, [reasons], plan)"""
    from .py2lean2 import translate_or_stub
    fs = live_labellers()
    order, deps, helpers = lab_plan()
    hl = {py: ln for py, (ln, _g) in helpers.items()}
    items = []
    for py, (ln, g) in sorted(helpers.items()):
        def thunk(g=g):
            node, _ = source_ast(g)
            if node.args.args or node.args.vararg or node.args.kwarg or node.args.kwonlyargs:
                raise Untranslatable("helper %s takes arguments" % node.name)
            return TLab(lab_rules(order, {})).function(g, {}, ind=1)
        items.append(("def %s : Except Err (List Int × List (Int × Int)) :=" % ln, _safe(thunk), LAB_STUB))
    for n in order:
        def thunk(n=n):
            inner = getattr(fs[n], "__wrapped__", None)
            if inner is None:
                raise Untranslatable("%s is not wrapped by labeller_func" % n)
            return TLab(lab_rules(order, hl)).function(inner, {"pcloud": "pcloud"}, ind=1)
        items.append((LAB_SIG % n, _safe(thunk), LAB_STUB))
    text, reasons = translate_or_stub(items, HEADER_LAB, FOOTER_LAB)
    return text, reasons, (order, deps, helpers)


N_PROBE_FILES = 6
PROPS_DIR = os.path.join("MenpoModel", "GenProps")
LAB_PRELUDE = """set_option linter.unusedSimpArgs false
set_option linter.unusedVariables false
set_option maxRecDepth 8192

namespace MenpoModel.C15.GenProps.SrcLab
open MenpoModel.C15 MenpoModel.C15.Src MenpoModel.C15.SrcGen MenpoModel.C15.GenProps.Src
"""


def lab_targets():
    return (["MenpoModel.Generated.C15SrcLab", "MenpoModel.GenProps.C15SrcLabNat"] +
            ["MenpoModel.GenProps.C15SrcLabP%d" % k for k in range(N_PROBE_FILES)] + ["MenpoModel.GenProps.C15SrcLab"])


def lab_props(plan, idx):
    from . import extract_c15
    return _lab_props(plan, idx, extract_c15)


def _lab_props(plan, idx, extract_c15):
    """({file relative to lean/: text}, [obligation names]) — `idx`: [(name, group_label, probed table)] of
    extract_c15.tables().  The kernel evaluations (`probe_`) are spread over N_PROBE_FILES modules that lake builds in
    parallel; `nat_` / `wrong_` live in one module, `src_` in the last one."""
    order, deps, _helpers = plan
    n_of = {n: t["n"] for n, _gl, t in idx}
    cost = {n: (len(t["ind"]) + 1) * (len(t["edges"]) + 20) for n, _gl, t in idx}
    nat = ["""/- Obligations over the SOURCE-TEXT translation of the labelling functions (written by harness/trans_c15.py, because
   the set of labellers is read from the live module; the proofs are the same lines for every labeller):
     nat_   the translated body commutes with every map of the points (unfold + the `…_map` lemmas of the vocabulary);
     wrong_ it refuses every input of another size with `LabellingError` (unfold). -/
import MenpoModel.Generated.C15SrcLab
import MenpoModel.GenProps.C15Src

""" + LAB_PRELUDE]
    probes = [["""/- Obligations over the SOURCE-TEXT translation of the labelling functions (written by harness/trans_c15.py):
     probe_ on the index-encoding probe the translated source returns what the table PROBED from the live function says
            (`decide +kernel`): two independent extractions agree. -/
import MenpoModel.Generated.C15SrcLab
import MenpoModel.Generated.C15Labellers
import MenpoModel.Props.C15SrcLab

""" + LAB_PRELUDE.replace(" MenpoModel.C15.GenProps.Src\n", "\n")] for _ in range(N_PROBE_FILES)]
    load = [0] * N_PROBE_FILES
    fin = ["""/- Obligations over the SOURCE-TEXT translation of the labelling functions (written by harness/trans_c15.py):
     src_   on EVERY input, object (class, points, connectivity, label masks) and mapping returned by the translated source
            are those of the table probed from the live function (`lab_from_probe` applied to nat_, wrong_, probe_);
     clause_ the labeller clause of the property for the translated source (`src_labeller_clause` with the `wf_`
            obligation of GenProps/C15.lean): rejects other sizes, commutes with every transform, output points are
            distinct input points, every output point is labelled. -/
import MenpoModel.GenProps.C15SrcLabNat
import MenpoModel.GenProps.C15
""" + "".join("import MenpoModel.GenProps.C15SrcLabP%d\n" % k for k in range(N_PROBE_FILES)) + "\n" + LAB_PRELUDE]
    names = []
    for n in sorted((x for x in order if x in n_of), key=lambda x: -cost[x]):
        k = load.index(min(load))
        load[k] += cost[n]
        probes[k].append("theorem probe_{n} : probeOK SrcLab.{n} Generated.f_{n} = true := by decide +kernel\n".format(n=n))
    for n in order:
        if n not in n_of:
            continue
        N = n_of[n]
        ds = deps.get(n, [])
        natl = ", ".join("callWithMapping_map nat_%s, callPlain_map nat_%s" % (d, d) for d in ds)
        wrl = ", ".join("callWithMapping_wrong (wrong_%s xs hn), callPlain_wrong (wrong_%s xs hn)" % (d, d) for d in ds
                        if n_of.get(d) == N)
        nat.append("""theorem nat_{n} {{α β : Type}} (h : α → β) (xs : List α) :
    SrcLab.{n} (xs.map h) = (SrcLab.{n} xs).map (mapOut h) := by
  unfold SrcLab.{n}
  lab_nat_simp [{natl}]

theorem wrong_{n} {{α : Type}} (xs : List α) (hn : xs.length ≠ {N}) : SrcLab.{n} xs = .error .labelling := by
  unfold SrcLab.{n}
  simp only [validated_wrong xs _ hn, bind_error{wrl}]
""".format(n=n, N=N, natl=natl, wrl=(", " + wrl) if wrl else ""))
        fin.append("""/-- `{n}`: the source text and the probed table agree on every input -/
theorem src_{n} : LabAgrees @SrcLab.{n} Generated.f_{n} :=
  lab_from_probe nat_{n} wrong_{n} probe_{n} (by decide)

theorem clause_{n} : LabellerClause @SrcLab.{n} Generated.f_{n} :=
  src_labeller_clause src_{n} (show labellerWF Generated.f_{n}.table = true from MenpoModel.C15.GenProps.{wf}) nat_{n}
""".format(n=n, wf=extract_c15._ident("wf_" + n)))
        names += ["nat_" + n, "wrong_" + n, "probe_" + n, "src_" + n, "clause_" + n]
    end = "end MenpoModel.C15.GenProps.SrcLab\n"
    files = {os.path.join(PROPS_DIR, "C15SrcLabNat.lean"): "\n".join(nat + [end]),
             os.path.join(PROPS_DIR, "C15SrcLab.lean"): "\n".join(fin + [end])}
    for k in range(N_PROBE_FILES):
        files[os.path.join(PROPS_DIR, "C15SrcLabP%d.lean" % k)] = "\n".join(probes[k] + [end])
    return files, ["MenpoModel.C15.GenProps.SrcLab." + x for x in names]


# =====================================================================================================================
# wiring
# =====================================================================================================================

TRANSLATED = {
    "menpo/shape/labelled.py": ["LabelledPointUndirectedGraph.labels", "_verify_all_labels_masked", "__init__", "copy",
                                "_new_group_with_only_labels", "with_labels", "without_labels", "get_label", "add_label",
                                "remove_label", "init_from_indices_mapping", "init_with_all_label", "init_from_edges", "n_labels",
                                "indices_to_masks"],
    "menpo/shape/graph.py": ["PointUndirectedGraph.from_mask"],
    "menpo/landmark/labels/base.py": ["validate_input", "connectivity_from_array", "connectivity_from_range",
                                      "pcloud_and_lgroup_from_ranges", "labeller", "labeller_func.<locals>.wrapper"],
}
# hand-written obligations of GenProps/C15Src.lean (audited with the property theorems)
SRC_THEOREMS = ["labels_prop_eq", "verify_eq", "from_mask_eq", "lpug_init_eq", "new_group_eq", "with_labels_eq",
                "without_labels_eq", "get_label_eq", "copy_eq", "add_label_eq", "remove_label_eq", "indices_to_masks_eq",
                "init_from_indices_eq", "init_with_all_label_eq", "init_from_edges_eq", "n_labels_eq", "src_init_from_edges", "validate_input_eq", "connectivity_from_array_eq",
                "connectivity_from_range_eq", "from_ranges_eq", "labeller_eq", "wrapper_eq", "callPlain_eq", "callWithMapping_eq",
                "src_new_group", "src_with_labels", "src_without_labels", "src_get_label", "src_add_label",
                "src_remove_label", "src_lpug_init", "src_indices_to_masks", "src_init_from_indices",
                "src_init_with_all_label", "stepSrc_eq", "runSrc_eq", "runSrc_invariant", "src_with_labels_exact",
                "src_without_labels_exact", "src_without_labels_str", "validate_input_map", "init_from_indices_map",
                "from_ranges_map", "callPlain_map", "callWithMapping_map"]


def all_targets():
    return TARGETS_SRC + lab_targets()


def generated_files(idx):
    """({file relative to lean/: text}, [obligation names], [reasons why something could not be translated]).
    Never raises for a reason that lies in the source under test: whatever cannot be translated becomes a stub whose
    obligation cannot be proved."""
    reasons = []
    try:
        src, why = translate_part1()
    except Exception as e:  # noqa: the source under test broke the vocabulary set-up (a default that is no constant, …)
        src, why = HEADER_SRC + FOOTER_SRC, ["part 1: %s: %s" % (type(e).__name__, e)]
    reasons += why
    try:
        lab, why, plan = translate_labellers()
    except Exception as e:  # noqa
        lab, why, plan = HEADER_LAB + FOOTER_LAB, ["labellers: %s: %s" % (type(e).__name__, e)], ([], {}, {})
    reasons += why
    files, names = lab_props(plan, idx)
    files[GEN_SRC] = src
    files[GEN_LAB] = lab
    missing = [n for n, _gl, _t in idx if n not in plan[0]]
    if missing:
        reasons.append("labellers probed but not translated: %s" % ", ".join(missing))
    return files, ["MenpoModel.C15.GenProps.Src." + t for t in SRC_THEOREMS] + names, reasons
