"""C15 — regenerated source scans (ast walks of the anchored files of the *current* tree, every run).

Two tables, both written to lean/MenpoModel/Generated/C15Scan.lean with `decide` obligations in GenProps/C15.lean:

(1) set sites (the determinism clause).  Every expression of menpo/shape/labelled.py and
    menpo/landmark/labels/**/*.py that builds a `set` / `frozenset` (call, literal, comprehension, set-algebra method)
    together with the ways its value is used.  The iteration order of a set of strings is a function of the
    interpreter's hash seed, so a use that observes that order (`for`, `list()`, `tuple()`, `zip`, `enumerate`, `next`,
    `.pop()`, unpacking, returning it, handing it to anything unknown) makes an output depend on the seed.  Uses that
    cannot observe it: `len`, `sorted`, `in`, truth value, further set algebra, comparison with another set.  An
    order-observing use inside a `raise` statement only shapes an exception message; it is tagged separately and must be
    whitelisted (Core/C15Entry.lean `expectedOrderSites`).

(2) labeller parameter uses (tightens "a labeller is `gather` with its table on every input").  For every function
    decorated with `labeller_func` and every helper a labeller hands its argument to: what the function does with the
    point cloud it receives.  Allowed: `validate_input(p, n)`, `p.points[<index expression not mentioning p>]`,
    `p.points` handed as a whole to a constructor / helper, `p.n_points`, `p.n_dims`, and handing `p` itself to another
    scanned function.  A function restricted to these cannot look at a coordinate, so it cannot branch on one: what it
    did on the index-encoding probe cloud is what it does on every cloud of that size.
"""
import ast
import os

from . import common

LABELLED = "menpo/shape/labelled.py"
LABELS_DIR = "menpo/landmark/labels"
SET_METHODS = ("difference", "union", "intersection", "symmetric_difference")
ORDER_FREE_CALLS = ("len", "sorted", "bool", "any", "all", "min", "max", "sum", "set", "frozenset", "isinstance")
ORDER_OBSERVING_CALLS = ("list", "tuple", "iter", "next", "enumerate", "zip", "reversed", "map", "filter", "OrderedDict",
                         "dict")


def files(repo=None):
    repo = repo or common.REPO
    out = [LABELLED]
    base = os.path.join(repo, LABELS_DIR)
    for root, _, names in sorted(os.walk(base)):
        for n in sorted(names):
            if n.endswith(".py") and not n.startswith("test") and "/test" not in root:
                out.append(os.path.relpath(os.path.join(root, n), repo))
    return out


def _parents(tree):
    par = {}
    for node in ast.walk(tree):
        for ch in ast.iter_child_nodes(node):
            par[ch] = node
    return par


def _qualname(node, par):
    names = []
    n = node
    while n in par:
        n = par[n]
        if isinstance(n, (ast.FunctionDef, ast.AsyncFunctionDef, ast.ClassDef)):
            names.append(n.name)
    return ".".join(reversed(names)) or "<module>"


def _enclosing_function(node, par):
    n = node
    while n in par:
        n = par[n]
        if isinstance(n, (ast.FunctionDef, ast.AsyncFunctionDef)):
            return n
    return None


def _in_raise(node, par):
    n = node
    while n in par:
        n = par[n]
        if isinstance(n, ast.Raise):
            return True
        if isinstance(n, (ast.FunctionDef, ast.AsyncFunctionDef)):
            return False
    return False


def _is_view(node):
    """`d.keys()` / `d.items()`: set-like views"""
    return (isinstance(node, ast.Call) and isinstance(node.func, ast.Attribute) and node.func.attr in ("keys", "items")
            and not node.args and not node.keywords)


def _is_set_expr(node):
    if isinstance(node, (ast.Set, ast.SetComp)):
        return True
    if isinstance(node, ast.BinOp) and isinstance(node.op, (ast.BitOr, ast.BitAnd, ast.Sub, ast.BitXor)) and (
            _is_set_expr(node.left) or _is_set_expr(node.right) or _is_view(node.left) or _is_view(node.right)):
        return True        # the RESULT of a set operator is a set: its own site, classified by its own use
    if isinstance(node, ast.Call):
        if isinstance(node.func, ast.Name) and node.func.id in ("set", "frozenset"):
            return True
        if isinstance(node.func, ast.Attribute) and node.func.attr in SET_METHODS:
            return True
    return False


def _classify_use(node, par, depth=0):
    """how the value of expression `node` (a set) is used by its parent: list of use tags"""
    p = par.get(node)
    tag_raise = "-in-raise" if _in_raise(node, par) else ""
    if p is None:
        return ["other:root"]
    if isinstance(p, ast.Attribute) and p.value is node:
        gp = par.get(p)
        if p.attr in SET_METHODS + ("issubset", "issuperset", "isdisjoint", "add", "discard", "update", "remove",
                                    "copy", "clear", "__contains__"):
            if p.attr in SET_METHODS or p.attr == "copy":
                # the result is again a set: followed as its own site (it is one by `_is_set_expr`) or classified here
                return ["setop"] if p.attr in SET_METHODS else _classify_use(gp, par, depth + 1)
            return ["setop"]
        if p.attr == "pop":
            return ["iterate" + tag_raise]
        return ["other:attr." + p.attr]
    if isinstance(p, ast.Call):
        if node in p.args or any(k.value is node for k in p.keywords):
            f = p.func
            name = f.id if isinstance(f, ast.Name) else (f.attr if isinstance(f, ast.Attribute) else "?")
            if isinstance(f, ast.Attribute) and f.attr in SET_METHODS + ("issubset", "issuperset", "isdisjoint", "update"):
                return ["setop"]
            if name == "sorted" and any(k.arg == "key" and any(isinstance(x, ast.Name) and x.id in ("hash", "id")
                                                               for x in ast.walk(k.value)) for k in p.keywords):
                return ["iterate" + tag_raise]      # sorted by hash / address: an order that changes from run to run
            if name in ORDER_FREE_CALLS:
                return [name if name in ("len", "sorted") else "orderfree-call"]
            if name in ORDER_OBSERVING_CALLS or name in ("array", "asarray", "format", "join", "extend", "append"):
                return ["iterate" + tag_raise]
            return ["other:call." + name]
    if isinstance(p, ast.Compare):
        if any(isinstance(o, (ast.In, ast.NotIn)) for o in p.ops) and node in p.comparators:
            return ["membership"]
        return ["compare"]
    if isinstance(p, (ast.If, ast.While, ast.IfExp)) and p.test is node:
        return ["truth"]
    if isinstance(p, (ast.BoolOp,)) or (isinstance(p, ast.UnaryOp) and isinstance(p.op, ast.Not)):
        return ["truth"]
    if isinstance(p, ast.BinOp) and isinstance(p.op, (ast.BitOr, ast.BitAnd, ast.Sub, ast.BitXor)):
        return ["setop"]
    if isinstance(p, (ast.For, ast.AsyncFor, ast.comprehension)) and p.iter is node:
        return ["iterate" + tag_raise]
    if isinstance(p, ast.Starred):
        return ["iterate" + tag_raise]
    if isinstance(p, (ast.Return, ast.Yield)):
        return ["other:returned"]
    if isinstance(p, (ast.Assign, ast.AnnAssign, ast.NamedExpr)) and getattr(p, "value", None) is node:
        targets = p.targets if isinstance(p, ast.Assign) else [p.target]
        uses = []
        for t in targets:
            if isinstance(t, ast.Name):
                fn = _enclosing_function(node, par)
                scope = fn if fn is not None else [n for n in par if n not in par][0] if False else fn
                loads = [n for n in ast.walk(scope if scope is not None else ast.Module(body=[], type_ignores=[]))
                         if isinstance(n, ast.Name) and n.id == t.id and isinstance(n.ctx, ast.Load)]
                if not loads:
                    uses.append("unused")
                if depth > 3:
                    uses.append("other:deep")
                else:
                    for ld in loads:
                        uses += _classify_use(ld, par, depth + 1)
            elif isinstance(t, (ast.Tuple, ast.List)):
                uses.append("iterate" + tag_raise)
            else:
                uses.append("other:stored")
        return uses
    if isinstance(p, ast.Expr):
        return ["unused"]
    if isinstance(p, ast.FormattedValue) or isinstance(p, ast.JoinedStr):
        return ["iterate" + tag_raise]
    return ["other:" + type(p).__name__]


def set_sites(repo=None):
    """[(file, function, expression text, sorted distinct uses)] for every set-building expression"""
    repo = repo or common.REPO
    out = []
    for rel in files(repo):
        src = open(os.path.join(repo, rel)).read()
        tree = ast.parse(src)
        par = _parents(tree)
        for node in ast.walk(tree):
            if _is_set_expr(node):
                uses = sorted(set(_classify_use(node, par)))
                out.append((rel, _qualname(node, par), ast.unparse(node), uses))
    out.sort()
    return out


ORDER_FREE_USES = ("len", "sorted", "orderfree-call", "membership", "compare", "truth", "setop", "unused")


def order_sites(sites):
    """the sites with a use that observes (or may observe) the iteration order: [(file, function, expr, use)]"""
    return [(f, fn, e, u) for f, fn, e, us in sites for u in us if u not in ORDER_FREE_USES]


# ------------------------------------------------------------------------------------ labeller parameter uses

def _decorated_labeller(fn):
    for d in fn.decorator_list:
        f = d.func if isinstance(d, ast.Call) else d
        name = f.id if isinstance(f, ast.Name) else (f.attr if isinstance(f, ast.Attribute) else "")
        if name == "labeller_func":
            return True
    return False


def _mentions(node, name):
    return any(isinstance(n, ast.Name) and n.id == name for n in ast.walk(node))


def _param_uses(fn, pname, par, known):
    """([use tags], validated size or None, [delegates]) of parameter `pname` inside function `fn`"""
    uses, sizes, delegates = [], [], []
    rebinds = [n for n in ast.walk(fn) if isinstance(n, ast.Name) and n.id == pname and isinstance(n.ctx, (ast.Store, ast.Del))]
    if rebinds:
        uses.append("other:rebound")
    for n in ast.walk(fn):
        if not (isinstance(n, ast.Name) and n.id == pname and isinstance(n.ctx, ast.Load)):
            continue
        p = par.get(n)
        if isinstance(p, ast.Call) and (n in p.args or any(k.value is n for k in p.keywords)):
            f = p.func
            cname = f.id if isinstance(f, ast.Name) else (f.attr if isinstance(f, ast.Attribute) else "?")
            if cname == "validate_input" and p.args and p.args[0] is n:
                a = p.args[1] if len(p.args) > 1 else None
                if isinstance(a, ast.Constant) and isinstance(a.value, int):
                    sizes.append(a.value)
                    uses.append("validate")
                elif isinstance(a, ast.Name):
                    # n_expected_points = <int> assigned once in the same function
                    vals = [s.value.value for s in ast.walk(fn) if isinstance(s, ast.Assign) and len(s.targets) == 1 and
                            isinstance(s.targets[0], ast.Name) and s.targets[0].id == a.id and
                            isinstance(s.value, ast.Constant) and isinstance(s.value.value, int)]
                    stores = [s for s in ast.walk(fn) if isinstance(s, ast.Name) and s.id == a.id and isinstance(s.ctx, ast.Store)]
                    if len(vals) == 1 and len(stores) == 1:
                        sizes.append(vals[0])
                        uses.append("validate")
                    else:
                        uses.append("other:validate-size-not-constant")
                else:
                    uses.append("other:validate-size-not-constant")
            elif cname in known:
                delegates.append(cname)
                uses.append("delegate")
            else:
                uses.append("other:call." + cname)
            continue
        if isinstance(p, ast.Attribute) and p.value is n:
            if p.attr in ("n_points", "n_dims"):
                uses.append("meta")
                continue
            if p.attr == "points":
                gp = par.get(p)
                if isinstance(gp, ast.Subscript) and gp.value is p and isinstance(gp.ctx, ast.Load):
                    uses.append("index" if not _mentions(gp.slice, pname) else "other:index-by-own-data")
                    continue
                if isinstance(gp, ast.Call) and (p in gp.args or any(k.value is p for k in gp.keywords)):
                    f = gp.func
                    cname = f.id if isinstance(f, ast.Name) else (f.attr if isinstance(f, ast.Attribute) else "?")
                    uses.append("whole" if cname in ("init_from_indices_mapping", "TriMesh", "PointCloud", "from_vector",
                                                     "LabelledPointUndirectedGraph", "PointUndirectedGraph", "init_from_edges")
                                else "other:points-to." + cname)
                    continue
                uses.append("other:points-in-" + type(gp).__name__)
                continue
            uses.append("other:attr." + p.attr)
            continue
        uses.append("other:" + type(p).__name__)
    return sorted(set(uses)), sorted(set(sizes)), sorted(set(delegates))


def labeller_scan(repo=None):
    """[(function name, file, is_labeller, parameter, uses, validated sizes, delegates)] for every `labeller_func`
    decorated function and every module-level helper of the labels package whose first parameter is used as a point
    cloud (`.points` / `.n_points` read or handed on to such a function)"""
    repo = repo or common.REPO
    fns = {}
    for rel in files(repo):
        if rel == LABELLED:
            continue
        tree = ast.parse(open(os.path.join(repo, rel)).read())
        par = _parents(tree)
        for node in tree.body:
            if isinstance(node, ast.FunctionDef) and node.args.args:
                fns[node.name] = (rel, node, par, _decorated_labeller(node))
    known = set(fns)
    rows = {}
    for name, (rel, node, par, is_lab) in fns.items():
        pname = node.args.args[0].arg
        uses, sizes, delegates = _param_uses(node, pname, par, known)
        rows[name] = [name, rel, is_lab, pname, uses, sizes, delegates]
    # helpers: keep only those reached from a labeller by delegation
    keep = set(n for n, r in rows.items() if r[2])
    frontier = list(keep)
    while frontier:
        n = frontier.pop()
        for d in rows[n][6]:
            if d not in keep and d in rows:
                keep.add(d)
                frontier.append(d)
    return [tuple(rows[n]) for n in sorted(keep)]


def validated_sizes(scan):
    """name -> sorted sizes validated directly or through delegation (transitively)"""
    rows = dict((r[0], r) for r in scan)
    memo = {}

    def go(n, seen):
        if n in memo:
            return memo[n]
        if n in seen or n not in rows:
            return set()
        s = set(rows[n][5])
        for d in rows[n][6]:
            s |= go(d, seen | {n})
        memo[n] = s
        return s
    return dict((n, sorted(go(n, frozenset()))) for n in rows)


def validate_guard(repo=None):
    """the comparison(s) guarding the `raise` in `validate_input` of labels/base.py, as text: expected
    ['n_actual_points != n_expected_points'] with both names bound once, to `pcloud.n_points` and to the parameter"""
    repo = repo or common.REPO
    tree = ast.parse(open(os.path.join(repo, LABELS_DIR, "base.py")).read())
    out = []
    for node in tree.body:
        if isinstance(node, ast.FunctionDef) and node.name == "validate_input":
            params = [a.arg for a in node.args.args]
            binds = {}
            for st in ast.walk(node):
                if isinstance(st, ast.Assign) and len(st.targets) == 1 and isinstance(st.targets[0], ast.Name):
                    binds.setdefault(st.targets[0].id, []).append(ast.unparse(st.value))
            for st in ast.walk(node):
                if isinstance(st, ast.If) and any(isinstance(x, ast.Raise) for x in ast.walk(st)):
                    text = ast.unparse(st.test)
                    for name, vals in sorted(binds.items()):
                        if len(vals) == 1:
                            text = text.replace(name, "(" + vals[0] + ")")
                    for i, a in enumerate(params):
                        text = text.replace(a, "$%d" % i)
                    out.append(text)
    return out
