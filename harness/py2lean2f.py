"""py2lean2f — generic extensions of harness/py2lean2.py on top of `Translator2M` (a module of its own so that builders
working on py2lean2.py at the same time are not disturbed; nothing here depends on a property; first user:
harness/trans_c18.py).

`Translator2F(Rules2F(...))` is a `Translator2M` (hoisted monadic operands, lambdas, `is None`, float constants,
imports dropped, `ret` / `end` over the python variables) that additionally translates

  nested defs          `def inner(a, b=None): return E` inside a body (also inside an `if` arm: Python's "define the
                       default callback" idiom) becomes `let inner0 := (fun a0 b0 => E)`; only bodies that are a single
                       `return E` (after an optional docstring) are accepted; defaults of the parameters are ignored
                       (calls go through rules that spell the arguments out).  A function that only DEFINES and RETURNS
                       an inner function (a decorator) is translated through `nested(fn, name)` + `function_node`;
                       `decorator_shape(fn, name)` checks that the outer body is exactly that.
  optional variables   `optional={"python name": "Lean type"}` : the variable has type `Option <type>` throughout; an
                       assignment to it wraps the value in `some` (with a type ascription, so that a lambda's binder types
                       are known).  `x is None` / `x is not None` come from Translator2M.
  python variables     every rule template may mention `{name}` for a python variable of the current scope (in addition to
  in templates         its metavariables): `scale_func($x)` -> `(callScale {scale_func} {x} none)`.
  `if` on a literal    a test that translates to `true` / `false` (a keyword the model fixes, e.g. `verbose`) keeps the
                       live arm only (the dead arm is not translated at all).
  skipped statements   `skip=[statement patterns]` are dropped (`warnings.warn(...)`, `print(...)`).
  monadic comprehension `[E for t in IT]` whose element needs a hoisted (monadic) operand becomes
                       `List.mapM (fun it => binds; unit E) IT` (flag "bind"): the first failing element fails the whole
                       comprehension, as in Python.  Needs `Rules2M.unit`.
  returned calls       `ret_bind=True` : a returned expression that is monadic (`return f(x)` where `f` may raise) is bound
                       and its value goes through the `ret` template like every other returned value (default: it is
                       returned as it is, as in Translator2).
  helper functions     `helpers={name: FunctionDef}` (see `module_helpers`): a module-level helper the code under translation
                       calls is INLINED at its call site when the call is the whole right-hand side of an assignment or
                       the returned value (`a, b = _helper(x, y)` / `return _helper(x)`): the parameters are bound to the
                       arguments, every `return E` of the helper becomes the assignment / return of `E` (early returns
                       are first rewritten into if / else chains), a `raise` stays a `raise`; helper locals that clash
                       with the caller's variables are renamed.  A helper used as a VALUE (`callback = _helper`) becomes
                       a lambda when its body is a single `return E`.  So extracting a block into a module-level
                       function, or putting it back, does not change the translation.
  x in (a, b) / [a, b] membership in a literal tuple or list -> `(List.contains [a, b] x)` (`not in`: negated); a rule wins.
  keyword arguments    are matched in any order (patterns and source are normalised by sorting them).
  module-level values  `module_assign(module, name)` : the value node of `name = <expr>` at module level (partials).
  decorators           `decorators(fn)` : source text of the decorators of a (possibly wrapped) live function.
"""
import ast
import inspect
import textwrap

from .py2lean2 import Rules2M, Translator2M, Untranslatable, source_ast, match, _pat  # noqa: F401


def _norm_kw(node):
    """sort the keyword arguments of every call (in place) so that their order does not matter for matching"""
    for n in ast.walk(node):
        if isinstance(n, ast.Call) and n.keywords:
            n.keywords.sort(key=lambda k: (k.arg is None, k.arg or ""))
    return node


class _Scope:
    """the python variables visible to the templates right now (shared by all templates of one rule set)"""

    def __init__(self):
        self.now = {}


class _Tmpl(str):
    """a template whose `.format` also knows the python variables of the current scope"""

    def __new__(cls, text, holder):
        s = str.__new__(cls, text)
        s.holder = holder
        return s

    def format(self, *args, **kw):
        env = {k: v for k, v in self.holder.now.items() if k.isidentifier()}
        env.update(kw)
        try:
            return str.format(self, *args, **env)
        except (KeyError, IndexError) as e:
            raise Untranslatable("template %r needs the variable %s" % (str(self), e))


class Rules2F(Rules2M):
    def __init__(self, expr=(), stmt=(), skip=(), optional=None, ret_bind=False, helpers=None, **kw):
        Rules2M.__init__(self, expr=expr, stmt=stmt, **kw)
        self.ret_bind = ret_bind
        self.helpers = dict(helpers or {})
        self.scope = _Scope()
        self.expr = [(_norm_kw(p), _Tmpl(t, self.scope), fl) for p, t, fl in self.expr]
        self.stmt = [(_norm_kw(p), recv, _Tmpl(t, self.scope)) for p, recv, t in self.stmt]
        self.skip = [_norm_kw(_pat(p, "stmt")) for p in skip]
        self.optional = dict(optional or {})


class Translator2F(Translator2M):
    # ------------------------------------------------------------------------------------------ scope bookkeeping
    def expr(self, node, scope):
        old = self.r.scope.now
        self.r.scope.now = scope
        try:
            if isinstance(node, ast.ListComp):
                r = self._listcomp(node, scope)
                if r is not None:
                    return r
            ruled = any(match(pat, node, {}) for pat, _t, _f in self.r.expr)
            if (not ruled and isinstance(node, ast.Name) and node.id not in scope and node.id not in self.r.names
                    and node.id in self._helpers()):
                return self._lambda_of_def(self._helpers()[node.id], scope), ""      # a helper used as a value
            if (not ruled and isinstance(node, ast.Compare) and len(node.ops) == 1
                    and isinstance(node.ops[0], (ast.In, ast.NotIn))
                    and isinstance(node.comparators[0], (ast.Tuple, ast.List))):
                items = ", ".join(self.pure(e, scope) for e in node.comparators[0].elts)
                t = "(List.contains [%s] %s)" % (items, self.pure(node.left, scope))
                return ("(!%s)" % t if isinstance(node.ops[0], ast.NotIn) else t), ""
            return Translator2M.expr(self, node, scope)
        finally:
            self.r.scope.now = old

    def _listcomp(self, node, scope):
        """`[E for t in IT]` with a monadic E -> List.mapM; None = not that case (the generic form applies)"""
        if len(node.generators) > 1 and not any(g.is_async or g.ifs for g in node.generators):
            # `[E for a in A for b in B(a)]` = the concatenation over `a` of `[E for b in B(a)]`
            g = node.generators[0]
            inner = ast.ListComp(elt=node.elt, generators=list(node.generators[1:]))
            it = self.pure(g.iter, scope)
            item = self.fresh("it", scope)
            sc = dict(scope)
            sc["\0tmp" + item] = item
            lines, sc = self.bind_target(g.target, item, sc)
            body, flag = self.expr(inner, sc)
            if flag == "bind":
                raise Untranslatable("nested comprehension whose element may raise: `%s`" % ast.unparse(node))
            return "(List.flatten (List.map (fun %s => %s; %s) %s))" % (item, "; ".join(lines), body, it), ""
        if len(node.generators) != 1 or node.generators[0].is_async or node.generators[0].ifs:
            return None
        g = node.generators[0]
        it = self.pure(g.iter, scope)
        item = self.fresh("it", scope)
        sc = dict(scope)
        sc["\0tmp" + item] = item
        lines, sc = self.bind_target(g.target, item, sc)
        self._pending.append([])
        self._ctxs.append(None)
        try:
            body = self.pure(node.elt, sc)
        finally:
            pend = self._pending.pop()
            self._ctxs.pop()
        lets = "; ".join(lines) + "; "
        if not pend:
            return "(List.map (fun %s => %s%s) %s)" % (item, lets, body, it), ""
        unit = getattr(self.r, "unit", None)
        if not unit:
            raise Untranslatable("comprehension whose element may raise (no `unit` template): `%s`" % ast.unparse(node))
        if len(pend) == 1 and pend[0][1] == body:
            text = pend[0][0]                      # the element IS the monadic call
        else:
            text = unit.format(e=body)
            for m, x in reversed(pend):
                text = "(" + self.r.bind.format(m=m, x=x, k=text) + ")"
        text = " ".join(text.split())
        return "(List.mapM (fun %s => %s%s) %s)" % (item, lets, text, it), "bind"

    # ------------------------------------------------------------------------------------------ statements
    def block(self, stmts, scope, ind, ctx):
        old = self.r.scope.now
        self.r.scope.now = scope
        try:
            return Translator2M.block(self, stmts, scope, ind, ctx)
        finally:
            self.r.scope.now = old

    def _lambda_of_def(self, st, scope):
        a = st.args
        if a.vararg or a.kwarg or a.kwonlyargs or a.posonlyargs:
            raise Untranslatable("nested def with a non-trivial signature: `%s`" % ast.unparse(st).splitlines()[0])
        body = [s for s in st.body if not (isinstance(s, ast.Expr) and isinstance(s.value, ast.Constant)
                                           and isinstance(s.value.value, str))]
        if len(body) != 1 or not isinstance(body[0], ast.Return) or body[0].value is None:
            raise Untranslatable("nested def that is not a single `return E`: `%s`" % ast.unparse(st).splitlines()[0])
        sc, names = dict(scope), []
        for x in a.args:
            new = self.fresh(x.arg if x.arg.strip("_") else "u", sc)
            sc[x.arg] = new
            names.append(new)
        self._pending.append([])
        self._ctxs.append(None)
        try:
            e, flag = self.expr(body[0].value, sc)
        finally:
            pend = self._pending.pop()
            self._ctxs.pop()
        if pend or flag == "bind":
            raise Untranslatable("nested def with a monadic body: `%s`" % ast.unparse(st).splitlines()[0])
        return "(fun %s => %s)" % (" ".join(names) if names else "(_ : Unit)", e)

    def _block1(self, stmts, scope, ind, ctx):
        pad = "  " * ind
        if stmts:
            st, rest = stmts[0], stmts[1:]
            for pat in self.r.skip:
                if match(pat, st, {}):
                    return self.block(rest, scope, ind, ctx)
            if isinstance(st, ast.Return) and st.value is not None and self.r.ret_bind:
                e, flag = self.expr(st.value, scope)
                if flag == "bind":
                    tmp = self.fresh("r", scope)
                    sc = dict(scope)
                    sc["\0tmp" + tmp] = tmp
                    k = ctx.exit(self._fmt(self.r.ret, sc, e=tmp), sc, ind + 1)
                    return pad + self.r.bind.format(m=e, x=tmp, k=k)
                return ctx.exit(self._fmt(self.r.ret, scope, e=e), scope, ind)
            if isinstance(st, ast.If):
                c = self.pure(st.test, scope)
                if c in ("true", "(true)"):
                    return self.block(list(st.body) + rest, dict(scope), ind, ctx)
                if c in ("false", "(false)"):
                    return self.block(list(st.orelse) + rest, dict(scope), ind, ctx)
                a = self.block(list(st.body) + rest, dict(scope), ind + 1, ctx)
                b = self.block(list(st.orelse) + rest, dict(scope), ind + 1, ctx)
                return "%sif %s then\n%s\n%selse\n%s" % (pad, c, a, pad, b)
            if isinstance(st, ast.FunctionDef):
                try:
                    lam = self._lambda_of_def(st, scope)
                except Untranslatable:
                    if st.name in (getattr(self, "_helpers_now", None) or {}):
                        # a closure that is inlined at its call sites: as a VALUE it has no translation (a later use
                        # of the name as a value is then an unknown name), the `def` itself does nothing
                        return self.block(rest, scope, ind, ctx)
                    raise
                new = self.fresh(st.name, scope)
                sc = dict(scope)
                sc[st.name] = new
                if st.name in self.r.optional:
                    line = "let %s : Option (%s) := some %s" % (new, self.r.optional[st.name], lam)
                else:
                    line = "let %s := %s" % (new, lam)
                return "%s%s\n%s" % (pad, line, self.block(rest, sc, ind, ctx))
            if (isinstance(st, ast.Assign) and len(st.targets) == 1 and isinstance(st.targets[0], ast.Name)
                    and st.targets[0].id in self.r.optional
                    and not any(match(p, st, {}) for p, _r, _t in self.r.stmt)):
                name = st.targets[0].id
                e = self.pure(st.value, scope)
                new = self.fresh(name, scope)
                sc = dict(scope)
                sc[name] = new
                return "%slet %s : Option (%s) := some %s\n%s" % (pad, new, self.r.optional[name], e,
                                                                self.block(rest, sc, ind, ctx))
            if (isinstance(st, ast.Assign) and len(st.targets) == 1 and isinstance(st.targets[0], (ast.Tuple, ast.List))
                    and all(isinstance(e, ast.Name) for e in st.targets[0].elts)
                    and not any(match(p, st, {}) for p, _r, _t in self.r.stmt)):
                e, flag = self.expr(st.value, scope)
                if flag == "bind":
                    # `a, b = <call that may raise>` : bind the pair, then take it apart
                    if ctx.brk is not None:
                        raise Untranslatable("monadic tuple assignment inside a loop body: `%s`" % ast.unparse(st))
                    tmp = self.fresh("pr", scope)
                    sc = dict(scope)
                    sc["\0tmp" + tmp] = tmp
                    lines, sc = self.bind_target(st.targets[0], tmp, sc)
                    k = "".join("  " * (ind + 1) + l + "\n" for l in lines) + self.block(rest, sc, ind + 1, ctx)
                    return pad + self.r.bind.format(m=e, x=tmp, k=k)
                lines, sc = self.bind_target(st.targets[0], e, scope)
                return "".join(pad + l + "\n" for l in lines) + self.block(rest, sc, ind, ctx)
        return Translator2M._block1(self, stmts, scope, ind, ctx)

    # ------------------------------------------------------------------------------------------ entry points
    # ------------------------------------------------------------------------------------------ helper inlining
    @staticmethod
    def _exits(stmts):
        for st in stmts:
            if isinstance(st, (ast.Return, ast.Raise)):
                return True
            if isinstance(st, ast.If) and (Translator2F._exits(st.body) or Translator2F._exits(st.orelse)):
                return True
            if isinstance(st, (ast.For, ast.While, ast.With, ast.Try)) and any(
                    isinstance(n, ast.Return) for n in ast.walk(st)):
                raise Untranslatable("helper with a `return` inside a loop / with / try: `%s`" % ast.unparse(st).splitlines()[0])
        return False

    def _tailify(self, stmts, sink):
        """the statements with every `return E` (all in tail position after turning early returns into if / else
        chains) replaced by `sink(E)`"""
        if not stmts:
            raise Untranslatable("helper that may fall off its end")
        st, rest = stmts[0], list(stmts[1:])
        if isinstance(st, ast.Expr) and isinstance(st.value, ast.Constant) and isinstance(st.value.value, str):
            return self._tailify(rest, sink)
        if isinstance(st, ast.Return):
            if st.value is None:
                raise Untranslatable("helper with a bare return")
            return [sink(st.value)]
        if isinstance(st, ast.Raise):
            return [st]
        if isinstance(st, ast.If) and (self._exits(st.body) or self._exits(st.orelse)):
            return [ast.If(test=st.test, body=self._tailify(list(st.body) + rest, sink),
                           orelse=self._tailify(list(st.orelse) + rest, sink))]
        self._exits([st])
        return [st] + self._tailify(rest, sink)

    def _instantiate(self, helper, call, sink, caller_names, keep):
        """the body of `helper` for this call: parameters bound to the arguments, returns through `sink`"""
        import copy
        a = helper.args
        if a.vararg or a.kwarg or a.kwonlyargs or a.posonlyargs or any(isinstance(x, ast.Starred) for x in call.args) \
                or any(k.arg is None for k in call.keywords):
            raise Untranslatable("helper call with a non-trivial signature: `%s`" % ast.unparse(call))
        params = [x.arg for x in a.args]
        given = dict(zip(params, call.args))
        if len(call.args) > len(params):
            raise Untranslatable("too many arguments: `%s`" % ast.unparse(call))
        for k in call.keywords:
            if k.arg not in params or k.arg in given:
                raise Untranslatable("keyword %r of `%s`" % (k.arg, ast.unparse(call)))
            given[k.arg] = k.value
        for p, d in zip(params[len(params) - len(a.defaults):], a.defaults):
            given.setdefault(p, d)
        if set(given) != set(params):
            raise Untranslatable("missing arguments: `%s`" % ast.unparse(call))
        body = copy.deepcopy(list(helper.body))
        local = set(params)
        for n in ast.walk(ast.Module(body=body, type_ignores=[])):
            if isinstance(n, ast.Name) and isinstance(n.ctx, ast.Store):
                local.add(n.id)
        identity = {p for p in params if isinstance(given[p], ast.Name) and given[p].id == p}
        self._inl = getattr(self, "_inl", 0) + 1
        ren = {v: "%s_h%d" % (v, self._inl) for v in local if v in caller_names and v not in identity and v not in keep}

        class Ren(ast.NodeTransformer):
            def visit_Name(self, n):
                return ast.copy_location(ast.Name(id=ren.get(n.id, n.id), ctx=n.ctx), n)
        body = [Ren().visit(st) for st in body]
        binds = []
        for p in params:
            if p in identity:
                continue
            if isinstance(given[p], ast.Name) and given[p].id in self._helpers() and not self._lambda_like(
                    self._helpers()[given[p].id]):
                # a function handed over under another name: the parameter is an alias of that helper
                self._helpers_now[ren.get(p, p)] = self._helpers()[given[p].id]
                continue
            binds.append(ast.Assign(targets=[ast.Name(id=ren.get(p, p), ctx=ast.Store())], value=given[p]))
        return [ast.fix_missing_locations(st) for st in binds + self._tailify(body, sink)]

    def _helpers(self):
        h = getattr(self, "_helpers_now", None)
        return self.r.helpers if h is None else h

    @staticmethod
    def _lambda_like(fd):
        body = [x for x in fd.body if not (isinstance(x, ast.Expr) and isinstance(x.value, ast.Constant)
                                           and isinstance(x.value.value, str))]
        return len(body) == 1 and isinstance(body[0], ast.Return) and body[0].value is not None

    def _hoist(self, st):
        """helper calls nested inside the expression of an assignment / return / expression statement are evaluated
        into temporaries in front of it (not under lambdas, comprehensions, conditional expressions or the later
        operands of `and` / `or`, where Python would not always evaluate them)"""
        if not isinstance(st, (ast.Assign, ast.Return, ast.Expr)) or st.value is None:
            return [st]
        pre = []
        tr = self

        class H(ast.NodeTransformer):
            def visit_Lambda(self, n):
                return n
            visit_ListComp = visit_GeneratorExp = visit_SetComp = visit_DictComp = visit_IfExp = visit_Lambda

            def visit_BoolOp(self, n):
                n.values[0] = self.visit(n.values[0])
                return n

            def visit_Call(self, n):
                self.generic_visit(n)
                if (isinstance(n.func, ast.Name) and n.func.id in tr._helpers()
                        and not any(match(pat, n, {}) for pat, _t, _f in tr.r.expr)):
                    tr._inl = getattr(tr, "_inl", 0) + 1
                    tmp = "hoisted_h%d" % tr._inl
                    pre.append(ast.Assign(targets=[ast.Name(id=tmp, ctx=ast.Store())], value=n))
                    return ast.Name(id=tmp, ctx=ast.Load())
                return n
        import copy
        v = st.value
        whole = (isinstance(v, ast.Call) and isinstance(v.func, ast.Name) and v.func.id in self._helpers()
                 and not isinstance(st, ast.Expr))
        st2 = copy.deepcopy(st)
        if whole:
            # the call itself is inlined by `_inline_helpers`; only its arguments are looked at
            st2.value.args = [H().visit(a) for a in st2.value.args]
            for k in st2.value.keywords:
                k.value = H().visit(k.value)
        else:
            st2.value = H().visit(st2.value)
        return [ast.fix_missing_locations(x) for x in pre] + [ast.fix_missing_locations(st2)]

    def _inline_helpers(self, stmts, caller_names, depth=0):
        if depth == 0:
            # closures: a nested def that is CALLED in this function is a local helper (inlined at its call sites, its
            # free variables being the enclosing function's: they must not be rebound between definition and call);
            # one whose body is not a single `return E` cannot also be a value and its `def` statement is dropped
            called = {n.func.id for st in stmts for n in ast.walk(st)
                      if isinstance(n, ast.Call) and isinstance(n.func, ast.Name)}
            passed = {a.id for st in stmts for n in ast.walk(st) if isinstance(n, ast.Call)
                      for a in list(n.args) + [k.value for k in n.keywords] if isinstance(a, ast.Name)}
            keep = []
            for st in stmts:
                if isinstance(st, ast.FunctionDef) and (st.name in called or st.name in passed) \
                        and not any(match(pat, ast.Call(func=ast.Name(id=st.name, ctx=ast.Load()), args=[], keywords=[]), {})
                                    for pat, _t, _f in self.r.expr):
                    self._helpers_now[st.name] = st
                    if not self._lambda_like(st):
                        continue
                keep.append(st)
            stmts = keep
        if not self._helpers():
            return stmts
        stmts = [x for st in stmts for x in self._hoist(st)]
        if depth > 8:
            raise Untranslatable("helper functions nested too deeply (recursion?)")
        out = []
        for st in stmts:
            call = sink = None
            keep = set()
            if isinstance(st, ast.Assign) and len(st.targets) == 1 and isinstance(st.value, ast.Call):
                call, tgt = st.value, st.targets[0]
                keep = {n.id for n in ast.walk(tgt) if isinstance(n, ast.Name)}
                sink = (lambda e, tgt=tgt: ast.Assign(targets=[tgt], value=e))
            elif isinstance(st, ast.Return) and isinstance(st.value, ast.Call):
                call = st.value
                sink = (lambda e: ast.Return(value=e))
            if (call is not None and isinstance(call.func, ast.Name) and call.func.id in self._helpers()
                    and not any(match(pat, call, {}) for pat, _t, _f in self.r.expr)):
                body = self._instantiate(self._helpers()[call.func.id], call, sink, caller_names, keep)
                out.extend(self._inline_helpers(body, caller_names, depth + 1))
                continue
            if isinstance(st, ast.If):
                st = ast.If(test=st.test, body=self._inline_helpers(list(st.body), caller_names, depth),
                            orelse=self._inline_helpers(list(st.orelse), caller_names, depth))
            elif isinstance(st, ast.For):
                st = ast.For(target=st.target, iter=st.iter, body=self._inline_helpers(list(st.body), caller_names, depth),
                             orelse=list(st.orelse), type_comment=None)
            out.append(ast.fix_missing_locations(st) if isinstance(st, (ast.If, ast.For)) else st)
        return out

    def function_node(self, node, arg_names, ind=2, allow_unused=()):
        """like `function`, for a FunctionDef node (a nested def found with `nested`)"""
        node = _norm_kw(node)
        self._helpers_now = dict(self.r.helpers)
        if self.r.helpers or any(isinstance(st, ast.FunctionDef) for st in node.body):
            import copy
            names = {n.id for n in ast.walk(node) if isinstance(n, ast.Name)} | set(arg_names)
            node = copy.copy(node)
            node.body = self._inline_helpers(list(node.body), names)
            for st in node.body:
                ast.fix_missing_locations(st)
        a = node.args
        params = [x.arg for x in a.posonlyargs + a.args + a.kwonlyargs]
        if a.vararg:
            params.append(a.vararg.arg)
        if a.kwarg:
            params.append(a.kwarg.arg)
        mentioned = {n.id for st in node.body for n in ast.walk(st) if isinstance(n, ast.Name)}
        for p in params:
            if p not in arg_names and not (p in allow_unused and p not in mentioned):
                raise Untranslatable("signature of %s changed: %s" % (node.name, ast.unparse(node.args)))
        return self.block(list(node.body), dict(arg_names), ind, self.top_ctx())

    def function(self, fn, arg_names, ind=2, allow_unused=()):
        node, _src = source_ast(fn)
        return self.function_node(node, arg_names, ind, allow_unused)

    def expression_node(self, node, scope=None):
        """a pure expression on its own (module-level values)"""
        self._pending.append([])
        self._ctxs.append(None)
        try:
            e, flag = self.expr(_norm_kw(node), dict(scope or {}))
        finally:
            pend = self._pending.pop()
            self._ctxs.pop()
        if pend or flag == "bind":
            raise Untranslatable("monadic module-level expression `%s`" % ast.unparse(node))
        return e


# ---------------------------------------------------------------------------------------------- source access

def nested(fn, name):
    """the FunctionDef `name` nested (at any depth of `if` arms, not inside other defs) in the body of `fn`"""
    node, _src = source_ast(fn)

    def walk(stmts):
        for st in stmts:
            if isinstance(st, ast.FunctionDef) and st.name == name:
                return st
            if isinstance(st, ast.If):
                r = walk(st.body) or walk(st.orelse)
                if r is not None:
                    return r
        return None
    r = walk(node.body)
    if r is None:
        raise Untranslatable("%s no longer defines an inner function %r" % (node.name, name))
    return r


def decorator_shape(fn, name, inner_decorators=None):
    """`fn` must be a decorator of the plain kind: its body (after a docstring) is exactly `def name(...)` followed by
    `return name`; `inner_decorators`: the required source text of the decorators of the inner def (e.g.
    ["wraps(wrapped)"]).  Returns the inner FunctionDef."""
    node, _src = source_ast(fn)
    body = [s for s in node.body if not (isinstance(s, ast.Expr) and isinstance(s.value, ast.Constant)
                                         and isinstance(s.value.value, str))]
    ok = (len(body) == 2 and isinstance(body[0], ast.FunctionDef) and body[0].name == name
          and isinstance(body[1], ast.Return) and isinstance(body[1].value, ast.Name) and body[1].value.id == name)
    if not ok:
        raise Untranslatable("%s is no longer `def %s(...): ...; return %s`" % (node.name, name, name))
    if inner_decorators is not None:
        got = [ast.unparse(d) for d in body[0].decorator_list]
        if got != list(inner_decorators):
            raise Untranslatable("decorators of %s.%s are now %r" % (node.name, name, got))
    return body[0]


def decorators(fn):
    """source text of the decorators of a live function (`inspect.getsource` follows `__wrapped__`, so for a decorated
    function this is the text above its own `def`)"""
    node, _src = source_ast(fn)
    return [ast.unparse(d) for d in node.decorator_list]


def module_functions(module):
    """{name: (decorator source texts)} of the module-level function definitions, in source order"""
    tree = ast.parse(textwrap.dedent(inspect.getsource(module)))
    return [(st.name, [ast.unparse(d) for d in st.decorator_list]) for st in tree.body if isinstance(st, ast.FunctionDef)]


def module_helpers(module, exclude=()):
    """{name: FunctionDef} of the module-level functions that are not themselves translated entry points (`exclude`):
    the helpers the code may have been split into"""
    tree = ast.parse(textwrap.dedent(inspect.getsource(module)))
    return {st.name: _norm_kw(st) for st in tree.body if isinstance(st, ast.FunctionDef) and st.name not in exclude}


def module_assign(module, name):
    """value node of the (single) module-level assignment `name = <expr>`"""
    tree = ast.parse(textwrap.dedent(inspect.getsource(module)))
    hits = [st for st in tree.body if isinstance(st, ast.Assign) and len(st.targets) == 1
            and isinstance(st.targets[0], ast.Name) and st.targets[0].id == name]
    if len(hits) != 1:
        raise Untranslatable("%s: %d module-level assignments to %r" % (module.__name__, len(hits), name))
    return hits[0].value
