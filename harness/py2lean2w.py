"""py2lean2w — generic extensions of harness/py2lean2.py (kept in a module of their own so that builders working on
py2lean2.py at the same time are not disturbed; everything here is independent of any property).

`Translator2W(Rules2W(...))` is a `Translator2` that additionally translates

  nested defs          `def inner(...)` inside a function body is skipped when the rules declare it (`inner=[names]`);
                       its body is translated on its own with `nested(fn, name)` + `function_node(node, arg_names)`
                       (calls to it go through expr / stmt rules, a recursive one with one unit of fuel less).
  while loops          `while c: body`  ->  `MenpoModel.Py.whileFuel <fuel> init (fun acc => c) (fun acc => body)`
                       (Core/C14PyLoop.lean) : `Option state`, `none` = the fuel ran out (value: `fuel_out`); the state
                       is the tuple of loop-carried variables, `break` / `return` / `raise` inside the body are carried as
                       a flag / `Option result` first component exactly as in `for` loops.
  for / else           without `break` in the body the `else` block simply follows the loop.
  stmt rules           the receiver may be a TUPLE of metavariables (a call that mutates several of its arguments:
                       the template's value is a tuple, every receiver is rebound to its projection), or a pseudo
                       variable `"=name"` (an attribute assignment `self.attr = v` becomes the variable `name`, readable
                       in `ret` / `end` templates); a 4th element "bind" says that the new value is monadic.
  guard rules          `(statement pattern, Bool template)` : a call statement that only may raise
                       (`self._check_vertex(v)`) = `if not cond: raise`.
  skip rules           statement patterns that are dropped (logging, `import`).
  monadic operands     an expression rule flagged "bind" used as an operand (`len(self.children(v)) == 0`) is hoisted in
                       front of its statement: `match m with | <fail> => <exit> | <ok x> => …` (`unwrap`).
  x is None            `.isNone` / `.isSome` (constant-folded when the operand is literally `none` / `some _`).
  `if` on a literal    a test that translates to `true` / `false` (a keyword the call site fixes) keeps the live arm only.
  attribute variables  `attr_vars={"attr": "var"}` : `self.attr` is read and assigned as the python variable `var` (object
                       state built by a constructor; the final value is available to the `end` template).
  helper inlining      `resolver=f(name, is_method) -> function | None` : a call `helper(args)` / `self.helper(args)` that no rule
                       translates and that resolves to a function of the same module / class (an extracted helper) is
                       INLINED: as a statement, as the whole right-hand side of an assignment, as a returned value; inside
                       an `if` test / a larger right-hand side it is first hoisted into a temporary.  (No `return` inside
                       a loop of the helper, no recursion, depth <= 3.)
  comprehensions       `x = [E for t in IT if C]` / `return [...]` whose parts may raise (a rule flagged "bind", an inlined
                       helper) are desugared into the equivalent `for` loop with `append`.
  list methods         `x.append(e)`, `x.extend(e)`, `x.reverse()` on a variable rebind it (`++`, `List.reverse`) when no
                       statement rule says otherwise.
  keyword arguments    are matched in any order (patterns and source are normalised by sorting them).
  `ret` / `end`        templates may mention the current lean name of python variables: `{e}` is the returned
                       expression, `{name}` a python variable (e.g. the final value of a mutable parameter).
"""
import ast
import copy as _copy

from .py2lean2 import Rules2, Translator2, _Ctx, _proj, _tuple, Untranslatable, source_ast, match, _pat  # noqa: F401


def _norm_kw(node):
    """sort the keyword arguments of every call (in place) so that their order does not matter for matching"""
    for n in ast.walk(node):
        if isinstance(n, ast.Call) and n.keywords:
            n.keywords.sort(key=lambda k: (k.arg is None, k.arg or ""))
    return node


class Rules2W(Rules2):
    def __init__(self, expr=(), stmt=(), guard=(), skip=(), inner=(), fuel="fuel", fuel_out=None,
                 unwrap=("none", None, "some {x}"), attr_vars=None, resolver=None, **kw):
        self.attr_vars = dict(attr_vars or {})
        self.resolver = resolver
        self.stmt_flag = [(s[3] if len(s) > 3 else "") for s in stmt]
        Rules2.__init__(self, expr=expr, stmt=[s[:3] for s in stmt], **kw)
        self.guard = [(_pat(p, "stmt"), t) for p, t in guard]
        self.skip = [_pat(p, "stmt") for p in skip]
        self.inner = set(inner)
        self.fuel = fuel
        self.fuel_out = fuel_out
        self.unwrap = unwrap
        for p, _t, _f in self.expr:
            _norm_kw(p)
        for p, _r, _t in self.stmt:
            _norm_kw(p)
        for p, _t in self.guard:
            _norm_kw(p)
        for p in self.skip:
            _norm_kw(p)


class _AttrVars(ast.NodeTransformer):
    """`self.attr` -> the variable `var` for the attributes listed ({attr: var})"""

    def __init__(self, table):
        self.table = table

    def visit_Attribute(self, node):
        self.generic_visit(node)
        if isinstance(node.value, ast.Name) and node.value.id == "self" and node.attr in self.table:
            return ast.copy_location(ast.Name(id=self.table[node.attr], ctx=node.ctx), node)
        return node


def _literal(text):
    """truth value of a translated condition that is a literal, else None"""
    t = text.strip()
    for _ in range(8):
        if t.startswith("(") and t.endswith(")") and t[1:-1] in ("true", "false", "!true", "!false"):
            t = t[1:-1]
        if t == "!true":
            t = "false"
        if t == "!false":
            t = "true"
    return True if t == "true" else False if t == "false" else None


class Translator2W(Translator2):
    def __init__(self, rules):
        Translator2.__init__(self, rules)
        self._pending = []
        self._nohoist = 0
        self._tmp = 0

    # ------------------------------------------------------------------------------------------ helpers
    @staticmethod
    def fresh(name, scope):
        base = name.replace("_", "") or "u"
        if base[0].isdigit():
            base = "u" + base
        used = set(scope.values())
        k, cand = 0, base + "0"
        while cand in used:
            k += 1
            cand = "%s%d" % (base, k)
        return cand

    @staticmethod
    def _pyvars(scope):
        return {k: v for k, v in scope.items() if k.isidentifier()}

    def _fmt(self, tmpl, scope, **kw):
        d = self._pyvars(scope)
        d.update(kw)
        try:
            return tmpl.format(**d)
        except (KeyError, IndexError) as e:
            raise Untranslatable("template %r needs the python variable %s" % (tmpl, e))

    # ------------------------------------------------------------------------------------------ expressions
    def expr(self, node, scope):
        for i, (pat, tmpl, flag) in enumerate(self.r.expr):     # a rule always wins; templates may read python variables
            env = {}
            if match(pat, node, env):
                self.used_rules.add(i)
                return self._fmt(tmpl, scope, **{k: self.pure(v, scope) for k, v in env.items()}), flag
        if (isinstance(node, ast.Compare) and len(node.ops) == 1 and isinstance(node.ops[0], (ast.Is, ast.IsNot))
                and isinstance(node.comparators[0], ast.Constant) and isinstance(node.comparators[0].value, bool)):
            x = self.pure(node.left, scope)      # `flag is False` / `flag is not True` on a Boolean
            want = node.comparators[0].value == isinstance(node.ops[0], ast.Is)
            return (x if want else "(!%s)" % x), ""
        if (isinstance(node, ast.Compare) and len(node.ops) == 1 and isinstance(node.ops[0], (ast.Is, ast.IsNot))
                and isinstance(node.comparators[0], ast.Constant) and node.comparators[0].value is None):
            x = self.pure(node.left, scope)
            neg = isinstance(node.ops[0], ast.IsNot)
            if x.strip("()") == "none":
                return ("false" if neg else "true"), ""
            if x.lstrip("(").startswith("some "):
                return ("true" if neg else "false"), ""
            return "(%s).%s" % (x, "isSome" if neg else "isNone"), ""
        return Translator2.expr(self, node, scope)

    def pure(self, node, scope):
        e, flag = self.expr(node, scope)
        if flag == "bind":
            if not self._pending or self._nohoist:
                raise Untranslatable("monadic expression where it cannot be hoisted: `%s`" % ast.unparse(node))
            tmp = "tmp%d" % self._tmp
            self._tmp += 1
            self._pending[-1].append((e, tmp))
            return tmp
        return e

    def comprehension(self, node, scope, kind):
        self._nohoist += 1
        try:
            return Translator2.comprehension(self, node, scope, kind)
        finally:
            self._nohoist -= 1

    # ------------------------------------------------------------------------------------------ statements
    def assigned_names(self, stmts):
        out = []

        def add(n):
            if n not in out:
                out.append(n)

        def tgt(t):
            if isinstance(t, ast.Name):
                add(t.id)
            elif isinstance(t, (ast.Tuple, ast.List)):
                for e in t.elts:
                    tgt(e)

        def walk(sts):
            for st in sts:
                matched = False
                for pat, recv, _t in self.r.stmt:
                    env = {}
                    if match(pat, st, env):
                        for r in (recv if isinstance(recv, (tuple, list)) else (recv,)):
                            if r.startswith("="):
                                add(r[1:])
                            elif isinstance(env[r], ast.Name):
                                add(env[r].id)
                        matched = True
                        break
                if matched:
                    continue
                if isinstance(st, ast.Expr) and isinstance(st.value, ast.Call) and isinstance(st.value.func, ast.Attribute) \
                        and isinstance(st.value.func.value, ast.Name) and st.value.func.attr in ("append", "extend", "reverse"):
                    add(st.value.func.value.id)
                    continue
                if isinstance(st, ast.Assign):
                    for t in st.targets:
                        tgt(t)
                elif isinstance(st, ast.AugAssign):
                    tgt(st.target)
                elif isinstance(st, ast.If):
                    walk(st.body)
                    walk(st.orelse)
                elif isinstance(st, (ast.For, ast.While)):
                    if isinstance(st, ast.For):
                        tgt(st.target)
                    walk(st.body)
                    walk(st.orelse)
                elif isinstance(st, ast.FunctionDef):
                    if st.name not in self.r.inner:
                        raise Untranslatable("nested def `%s`" % st.name)
                elif isinstance(st, (ast.With, ast.Try, ast.ClassDef)):
                    raise Untranslatable("statement form `%s`" % ast.unparse(st).splitlines()[0])
        walk(stmts)
        order = getattr(self, "_scope_order", None)
        if order:   # loop-carried variables in the order in which they were introduced (parameters first), whatever
            pos = {n: i for i, n in enumerate(order)}      # the order of the statements in the loop body
            out.sort(key=lambda n: pos.get(n, len(pos)))
        return out

    def _may_raise(self, st):
        """does the statement (sub-statements included) contain a guard, a monadic statement rule or an operand that
        a rule flagged "bind" translates, i.e. an implicit `raise`?"""
        for n in ast.walk(st):
            if isinstance(n, ast.stmt):
                for pat, _t in self.r.guard:
                    if match(pat, n, {}):
                        return True
                for i, (pat, _r, _t) in enumerate(self.r.stmt):
                    if match(pat, n, {}):
                        if self.r.stmt_flag[i] == "bind":
                            return True
                        break
            elif isinstance(n, ast.expr):
                hit = False
                for pat, _t, flag in self.r.expr:
                    if match(pat, n, {}):
                        if flag == "bind":
                            return True
                        hit = True
                        break
                if not hit and isinstance(n, ast.Call) and self._helper_of(n) is not None:
                    return True      # an inlined helper may raise
        return False

    def _has(self, stmts, kinds, into_loops):
        for st in stmts:
            if isinstance(st, kinds):
                return True
            if ast.Raise in (kinds if isinstance(kinds, tuple) else (kinds,)) and self._may_raise(st):
                return True
            if isinstance(st, ast.If) and (self._has(st.body, kinds, into_loops) or
                                           self._has(st.orelse, kinds, into_loops)):
                return True
            if isinstance(st, (ast.For, ast.While)) and into_loops and self._has(st.body, kinds, into_loops):
                return True
        return False

    def _exit(self, ctx, val, scope, ind):
        """ctx.exit, refusing to go on when the enclosing loop's state has no slot for the exit (it would be dropped)"""
        text = ctx.exit(val, scope, ind)
        if val.strip() and val.strip() not in text:
            raise Untranslatable("an exit inside a loop whose state carries no exit slot (value %r would be lost)" % val)
        return text

    def _unwrap(self, m, x, k, scope, ind, ctx):
        """`match m with | fail => exit | ok x => k` (k is already indented text)"""
        pad = "  " * ind
        fail_pat, fail_val, ok_pat = self.r.unwrap
        val = fail_val if fail_val is not None else self.r.raise_
        ex = self._exit(ctx, val, scope, 0).strip()
        return "%s(match %s with\n%s| %s => %s\n%s| %s =>\n%s)" % (pad, m, pad, fail_pat, ex, pad, ok_pat.format(x=x), k)

    def block(self, stmts, scope, ind, ctx):
        self._pending.append([])
        try:
            text = self._block1(stmts, scope, ind, ctx)
        finally:
            pend = self._pending.pop()
        for e, tmp in reversed(pend):
            text = self._unwrap(e, tmp, text, scope, ind, ctx)
        return text

    def _block1(self, stmts, scope, ind, ctx):
        pad = "  " * ind
        if not stmts:
            return ctx.end(scope, ind)
        st, rest = stmts[0], stmts[1:]
        if isinstance(st, (ast.Import, ast.ImportFrom)):
            return self.block(rest, scope, ind, ctx)
        if isinstance(st, ast.FunctionDef):
            if st.name not in self.r.inner:
                raise Untranslatable("nested def `%s`" % st.name)
            return self.block(rest, scope, ind, ctx)
        for pat in self.r.skip:
            if match(pat, st, {}):
                return self.block(rest, scope, ind, ctx)
        if isinstance(st, ast.If):
            c = self.pure(st.test, scope)
            v = _literal(c)
            if v is not None:
                return self.block(list(st.body if v else st.orelse) + rest, dict(scope), ind, ctx)
            a = self.block(list(st.body) + rest, dict(scope), ind + 1, ctx)
            b = self.block(list(st.orelse) + rest, dict(scope), ind + 1, ctx)
            return "%sif %s then\n%s\n%selse\n%s" % (pad, c, a, pad, b)
        if isinstance(st, ast.Return) and st.value is not None:
            fn = self._helper_of(st.value)
            if fn is not None:     # `return helper(args)`
                return self._inline(st.value, fn, scope, ind, ctx,
                                    lambda v, s, i: self._return(v, "", s, i, ctx),
                                    lambda s, i: self._return("none", "", s, i, ctx))
            e, flag = self.expr(st.value, scope)
            return self._return(e, flag, scope, ind, ctx)
        if isinstance(st, ast.Return) and st.value is None and getattr(ctx, "ret_k", None) is not None:
            return ctx.ret_k("none", scope, ind)
        for pat, tmpl in self.r.guard:
            env = {}
            if match(pat, st, env):
                c = self._fmt(tmpl, scope, **{k: self.pure(v, scope) for k, v in env.items()})
                a = self.block(rest, dict(scope), ind + 1, ctx)
                b = self._exit(ctx, self.raise_value_of_guard(st), scope, ind + 1)
                return "%sif %s then\n%s\n%selse\n%s" % (pad, c, a, pad, b)
        for i, (pat, recv, tmpl) in enumerate(self.r.stmt):
            env = {}
            if match(pat, st, env):
                self.used_rules.add(("s", i))
                recvs = list(recv) if isinstance(recv, (tuple, list)) else [recv]
                names = []
                for r in recvs:
                    if r.startswith("="):
                        names.append(r[1:])
                    elif isinstance(env[r], ast.Name):
                        names.append(env[r].id)
                    else:
                        raise Untranslatable("in-place statement on a non-variable: `%s`" % ast.unparse(st))
                val = self._fmt(tmpl, scope, **{k: self.pure(v, scope) for k, v in env.items()})
                monadic = self.r.stmt_flag[i] == "bind"
                sc = dict(scope)
                lines = []
                if len(names) == 1 and not monadic:
                    new = self.fresh(names[0], sc)
                    sc[names[0]] = new
                    lines.append("let %s := %s" % (new, val))
                else:
                    p = self.fresh("p", sc)
                    sc["\0tmp" + p] = p
                    if not monadic:
                        lines.append("let %s := %s" % (p, val))
                    for j, nm in enumerate(names):
                        new = self.fresh(nm, sc)
                        sc[nm] = new
                        lines.append("let %s := %s" % (new, _proj(p, j, len(names))))
                if monadic:
                    k = "".join("  " * (ind + 1) + l + "\n" for l in lines) + self.block(rest, sc, ind + 1, ctx)
                    return self._unwrap(val, p, k, scope, ind, ctx)
                return "".join(pad + l + "\n" for l in lines) + self.block(rest, sc, ind, ctx)
        if isinstance(st, ast.Expr) and isinstance(st.value, ast.Call):
            fn = self._helper_of(st.value)
            if fn is not None:     # `helper(args)` as a statement: its value is dropped, its raise is ours
                cont = lambda s, i: self.block(rest, dict(s), i, ctx)
                return self._inline(st.value, fn, scope, ind, ctx, lambda v, s, i: cont(s, i), cont)
        if isinstance(st, ast.Assign) and len(st.targets) == 1 and isinstance(st.targets[0], ast.Name):
            fn = self._helper_of(st.value)
            if fn is not None:     # `x = helper(args)`
                def bindx(v, s, i, name=st.targets[0].id):
                    sc = dict(s)
                    new = self.fresh(name, sc)
                    sc[name] = new
                    return "%slet %s := %s\n%s" % ("  " * i, new, v, self.block(rest, sc, i, ctx))
                return self._inline(st.value, fn, scope, ind, ctx, bindx, lambda s, i: bindx("none", s, i))
        fb = self._fallback_stmt(st, scope)
        if fb is not None:
            x, val = fb
            sc = dict(scope)
            new = self.fresh(x, sc)
            sc[x] = new
            return "%slet %s := %s\n%s" % (pad, new, val, self.block(rest, sc, ind, ctx))
        if isinstance(st, ast.For) and isinstance(st.iter, ast.Tuple):     # `for v in (a, b):` iterates a list
            st = _copy.copy(st)
            st.iter = ast.copy_location(ast.List(elts=list(st.iter.elts), ctx=ast.Load()), st.iter)
            stmts = [st] + rest
        if isinstance(st, (ast.While, ast.For)):
            self._scope_order = [k for k in scope if k.isidentifier()]
        if isinstance(st, ast.While):
            return self.while_loop(st, rest, scope, ind, ctx)
        if isinstance(st, ast.For) and st.orelse:
            if self._has(st.body, (ast.Break,), False):
                raise Untranslatable("for/else with a break in the body")
            st2 = _copy.copy(st)
            st2.orelse = []
            return Translator2.block(self, [st2] + list(st.orelse) + rest, scope, ind, ctx)
        if isinstance(st, ast.Assign) and len(st.targets) == 1 and isinstance(st.targets[0], ast.Name):
            e, flag = self.expr(st.value, scope)
            if flag == "bind":
                new = self.fresh(st.targets[0].id, scope)
                sc = dict(scope)
                sc[st.targets[0].id] = new
                return self._unwrap(e, new, self.block(rest, sc, ind + 1, ctx), scope, ind, ctx)
        return Translator2.block(self, stmts, scope, ind, ctx)

    def raise_value_of_guard(self, st):
        return self.r.raise_

    def _return(self, e, flag, scope, ind, ctx):
        """`return e` : the continuation of an inlined helper, else the function's result"""
        k = getattr(ctx, "ret_k", None)
        if k is not None:
            if flag == "bind":
                tmp = "tmp%d" % self._tmp
                self._tmp += 1
                return self._unwrap(e, tmp, k(tmp, scope, ind + 1), scope, ind, ctx)
            return k(e, scope, ind)
        if flag == "bind":
            return ctx.exit(e, scope, ind)
        return ctx.exit(self._fmt(self.r.ret, scope, e=e), scope, ind)

    # ------------------------------------------------------------------------------------------ helper inlining
    def _rule_matches_expr(self, node):
        for pat, _t, _f in self.r.expr:
            if match(pat, node, {}):
                return True
        return False

    def _rule_matches_stmt(self, st):
        for pat, _t in self.r.guard:
            if match(pat, st, {}):
                return True
        for pat, _r, _t in self.r.stmt:
            if match(pat, st, {}):
                return True
        for pat in self.r.skip:
            if match(pat, st, {}):
                return True
        return False

    def _helper_of(self, call):
        """the function object a call that no rule translates resolves to (an extracted helper), else None"""
        if self.r.resolver is None or not isinstance(call, ast.Call) or self._rule_matches_expr(call):
            return None
        f = call.func
        if isinstance(f, ast.Name):
            return self.r.resolver(f.id, False)
        if isinstance(f, ast.Attribute) and isinstance(f.value, ast.Name) and f.value.id in ("self", "cls"):
            return self.r.resolver(f.attr, True)
        return None

    def _needs_loop(self, comp):
        """does a comprehension contain something that may raise / must be inlined (then it is desugared into a loop)?"""
        for n in ast.walk(comp):
            if isinstance(n, ast.Call) and self._helper_of(n) is not None:
                return True
        probe = ast.Expr(value=comp)
        return self._may_raise(probe)

    def _prepass(self, stmts, counter=None):
        """desugar comprehensions that may raise into loops; hoist helper calls out of larger expressions"""
        counter = counter if counter is not None else [0]
        out = []

        def tmp(prefix):
            counter[0] += 1
            return "%s_%d" % (prefix, counter[0])

        def loop_of(comp, name):
            g = comp.generators[0]
            body = [ast.Expr(value=ast.Call(func=ast.Attribute(value=ast.Name(id=name, ctx=ast.Load()), attr="append",
                                                              ctx=ast.Load()), args=[comp.elt], keywords=[]))]
            for c in reversed(g.ifs):
                body = [ast.If(test=c, body=body, orelse=[])]
            return [ast.Assign(targets=[ast.Name(id=name, ctx=ast.Store())], value=ast.List(elts=[], ctx=ast.Load())),
                    ast.For(target=g.target, iter=g.iter, body=body, orelse=[])]

        def hoist(expr_node, whole_ok):
            """(prefix statements, new expression): helper calls nested inside `expr_node` become temporaries"""
            pre = []

            class H(ast.NodeTransformer):
                def __init__(s):
                    s.depth = 0

                def visit_BoolOp(s, node):       # short-circuit: operands after the first are conditional
                    node.values[0] = s.visit(node.values[0])
                    for v in node.values[1:]:
                        for n in ast.walk(v):
                            if isinstance(n, ast.Call) and self._helper_of(n) is not None:
                                raise Untranslatable("helper call in a short-circuit operand: `%s`" % ast.unparse(v))
                    return node

                def visit_IfExp(s, node):
                    node.test = s.visit(node.test)
                    for v in (node.body, node.orelse):
                        for n in ast.walk(v):
                            if isinstance(n, ast.Call) and self._helper_of(n) is not None:
                                raise Untranslatable("helper call in a conditional expression: `%s`" % ast.unparse(v))
                    return node

                def visit_ListComp(s, node):
                    return node

                visit_GeneratorExp = visit_ListComp
                visit_Lambda = visit_ListComp

                def visit_Call(s, node):
                    s.depth += 1
                    node = s.generic_visit(node)
                    s.depth -= 1
                    if self._helper_of(node) is not None and not (s.depth == 0 and whole_ok and node is expr_node):
                        nm = tmp("h")
                        pre.append(ast.Assign(targets=[ast.Name(id=nm, ctx=ast.Store())], value=node))
                        return ast.Name(id=nm, ctx=ast.Load())
                    return node
            new = H().visit(expr_node)
            return pre, new

        for st in stmts:
            st = _copy.copy(st)
            if isinstance(st, ast.Assign) and len(st.targets) == 1 and isinstance(st.targets[0], ast.Name) \
                    and isinstance(st.value, ast.ListComp) and len(st.value.generators) == 1 and self._needs_loop(st.value):
                out += self._prepass(loop_of(st.value, st.targets[0].id), counter)
                continue
            if isinstance(st, ast.Return) and isinstance(st.value, ast.ListComp) and len(st.value.generators) == 1 \
                    and self._needs_loop(st.value):
                nm = tmp("r")
                out += self._prepass(loop_of(st.value, nm), counter)
                out.append(ast.Return(value=ast.Name(id=nm, ctx=ast.Load())))
                continue
            if isinstance(st, ast.If):
                pre, st.test = hoist(st.test, False)
                st.body = self._prepass(st.body, counter)
                st.orelse = self._prepass(st.orelse, counter)
                out += pre + [st]
                continue
            if isinstance(st, (ast.For, ast.While)):
                if isinstance(st, ast.For):
                    pre, st.iter = hoist(st.iter, False)
                    out += pre
                st.body = self._prepass(st.body, counter)
                st.orelse = self._prepass(st.orelse, counter)
                out.append(st)
                continue
            if self._rule_matches_stmt(st):
                out.append(st)
                continue
            if isinstance(st, ast.Assign) and len(st.targets) == 1:
                pre, st.value = hoist(st.value, isinstance(st.targets[0], ast.Name))
                out += pre + [st]
                continue
            if isinstance(st, ast.AugAssign):
                pre, st.value = hoist(st.value, False)
                out += pre + [st]
                continue
            if isinstance(st, ast.Return) and st.value is not None:
                pre, st.value = hoist(st.value, True)
                out += pre + [st]
                continue
            if isinstance(st, ast.Expr) and isinstance(st.value, ast.Call):
                pre, st.value = hoist(st.value, True)
                out += pre + [st]
                continue
            out.append(st)
        for s_ in out:
            ast.fix_missing_locations(s_)
        return out

    def _inline(self, call, fn, scope, ind, ctx, k_ret, k_end):
        """translate the body of the helper `fn` in place of `call`.  `k_ret(value text, scope)` continues after a
        `return value`, `k_end(scope)` after falling off the end (both in the CALLER's scope); a raise leaves through ctx."""
        self._inline_depth = getattr(self, "_inline_depth", 0) + 1
        try:
            if self._inline_depth > 3:
                raise Untranslatable("helper calls nested deeper than 3")
            node, _src = source_ast(fn)
            node = _norm_kw(_copy.deepcopy(node))
            a = node.args
            if a.vararg or a.kwarg or a.kwonlyargs:
                raise Untranslatable("helper `%s` with */** parameters" % node.name)
            params = [x.arg for x in a.posonlyargs + a.args]
            is_method = isinstance(call.func, ast.Attribute)
            actual = ([call.func.value] if is_method else []) + list(call.args)
            bound = dict(zip(params, actual))
            for kw in call.keywords:
                if kw.arg is None or kw.arg not in params or kw.arg in bound:
                    raise Untranslatable("call `%s` of helper `%s`" % (ast.unparse(call), node.name))
                bound[kw.arg] = kw.value
            defaults = dict(zip(params[len(params) - len(a.defaults):], a.defaults))
            for pn in params:
                if pn not in bound:
                    if pn not in defaults:
                        raise Untranslatable("call `%s` of helper `%s`: missing argument" % (ast.unparse(call), node.name))
                    bound[pn] = defaults[pn]
            for sub in ast.walk(node):
                if isinstance(sub, (ast.For, ast.While)) and self._has(sub.body, (ast.Return,), True):
                    raise Untranslatable("helper `%s` returns from inside a loop" % node.name)
            # the helper's scope: its parameters; the caller's lean names stay reserved (no capture)
            sc = {"\0caller:" + k_: v for k_, v in scope.items()}
            lines = []
            for pn in params:
                if isinstance(bound[pn], ast.Name) and bound[pn].id in ("self", "cls") and bound[pn].id not in scope:
                    continue
                try:
                    val = self.pure(bound[pn], scope)
                except Untranslatable:
                    continue      # e.g. a string only used in a message: the helper must not read it in translated code
                new = self.fresh(pn, sc)
                lines.append("let %s := %s" % (new, val))
                sc[pn] = new
            caller = dict(scope)
            inner = _Ctx(exit_=lambda v, s, i: self._exit(ctx, v, caller, i), end=lambda s, i: k_end(caller, i), brk=None)
            inner.ret_k = lambda v, s, i: k_ret(v, caller, i)
            body = self._prepass(list(node.body))
            text = self.block(body, sc, ind, inner)
            return "".join("  " * ind + l + "\n" for l in lines) + text
        finally:
            self._inline_depth -= 1

    def _fallback_stmt(self, st, scope):
        """(variable, lean value) for `x.append(e)` / `x.extend(e)` / `x.reverse()` on a variable, else None"""
        if isinstance(st, ast.Expr) and isinstance(st.value, ast.Call) and isinstance(st.value.func, ast.Attribute) \
                and isinstance(st.value.func.value, ast.Name) and st.value.func.value.id in scope and not st.value.keywords:
            x, meth, args = st.value.func.value.id, st.value.func.attr, st.value.args
            if meth == "append" and len(args) == 1:
                return x, "(%s ++ [%s])" % (scope[x], self.pure(args[0], scope))
            if meth == "extend" and len(args) == 1:
                return x, "(%s ++ %s)" % (scope[x], self.pure(args[0], scope))
            if meth == "reverse" and not args:
                return x, "(List.reverse %s)" % scope[x]
        return None

    # ------------------------------------------------------------------------------------------ while
    def while_loop(self, st, rest, scope, ind, ctx):
        pad = "  " * ind
        if st.orelse:
            raise Untranslatable("while/else")
        carried = [n for n in self.assigned_names(st.body) if n in scope]
        has_exit = self._has(st.body, (ast.Return, ast.Raise, ast.Assert), True)
        has_brk = self._has(st.body, (ast.Break,), False)
        comps = (["\0ret"] if has_exit else []) + (["\0brk"] if has_brk else []) + carried
        if not comps:
            raise Untranslatable("while loop without any effect on the variables in scope")
        n = len(comps)
        sc0 = dict(scope)
        acc = self.fresh("acc", sc0)
        sc0["\0tmp" + acc] = acc
        lines, sc = [], dict(sc0)
        for c in carried:
            new = self.fresh(c, sc)
            sc[c] = new
            lines.append("let %s := %s" % (new, _proj(acc, comps.index(c), n)))

        def state(scope_, ret="none", brk="false"):
            parts = []
            if has_exit:
                parts.append(ret)
            if has_brk:
                parts.append(brk)
            parts += [scope_[c] for c in carried]
            return _tuple(parts)

        self._nohoist += 1
        try:
            cond = self.pure(st.test, sc)
        finally:
            self._nohoist -= 1
        guard = []
        if has_exit:
            guard.append("!(%s).isSome" % _proj(acc, 0, n))
        if has_brk:
            guard.append("!%s" % _proj(acc, 1 if has_exit else 0, n))
        lets = "; ".join(lines) + "; " if lines else ""
        cond_fn = "(fun %s => %s%s)" % (acc, lets, " && ".join(guard + [cond]))
        inner = _Ctx(exit_=lambda v, s, i: "  " * i + state(s, ret="some (%s)" % v),
                     end=lambda s, i: "  " * i + state(s),
                     brk=lambda s, i: "  " * i + state(s, brk="true"))
        body = self.block(list(st.body), sc, ind + 2, inner)
        p3 = "  " * (ind + 2)
        text = "".join(p3 + l + "\n" for l in lines) + body
        res = self.fresh("r", sc0)
        after = dict(scope)
        after["\0tmp" + res] = res
        fo = self.r.fuel_out if self.r.fuel_out is not None else self.r.raise_
        out = "%s(match MenpoModel.Py.whileFuel (%s) %s %s (fun %s =>\n%s) with\n%s| none => %s\n%s| some %s =>\n" % (
            pad, self.r.fuel, state(scope), cond_fn, acc, text, pad, ctx.exit(fo, scope, 0).strip(), pad, res)
        p1 = "  " * (ind + 1)
        for c in carried:
            new = self.fresh(c, after)
            after[c] = new
            out += "%slet %s := %s\n" % (p1, new, _proj(res, comps.index(c), n))
        k = self.block(rest, after, ind + (2 if has_exit else 1), ctx)
        if has_exit:
            v = self.fresh("v", after)
            sc_v = dict(after)
            sc_v["\0tmp" + v] = v
            return "%s%smatch %s with\n%s| some %s =>\n%s\n%s| none =>\n%s)" % (
                out, p1, _proj(res, 0, n), p1, v, ctx.exit(v, sc_v, ind + 3), p1, k)
        return out + k + ")"

    # ------------------------------------------------------------------------------------------ functions
    def top_ctx(self):
        def end(scope, ind):
            if self.r.end is None:
                raise Untranslatable("control reaches the end of the function without return/raise")
            return "  " * ind + self._fmt(self.r.end, scope)
        return _Ctx(exit_=lambda v, s, i: "  " * i + v, end=end)

    def function_node(self, node, arg_names, ind=2, allow_unused=()):
        """as `function`, for an ast.FunctionDef (keyword arguments normalised)"""
        node = _norm_kw(_copy.deepcopy(node))
        if self.r.attr_vars:
            node = _AttrVars(self.r.attr_vars).visit(node)
            ast.fix_missing_locations(node)
        a = node.args
        params = [x.arg for x in a.posonlyargs + a.args + a.kwonlyargs]
        if a.vararg:
            params.append(a.vararg.arg)
        if a.kwarg:
            params.append(a.kwarg.arg)
        mentioned = {n.id for st in node.body for n in ast.walk(st) if isinstance(n, ast.Name)}
        for p in params:
            if p not in arg_names and not (p in allow_unused and p not in mentioned):
                raise Untranslatable("signature of %s changed: %s" % (node.name, ast.unparse(node.args)))
        for p in arg_names:
            if p not in params:
                raise Untranslatable("signature of %s changed: no parameter %r" % (node.name, p))
        return self.block(self._prepass(list(node.body)), dict(arg_names), ind, self.top_ctx())

    def function(self, fn, arg_names, ind=2, allow_unused=()):
        node, _src = source_ast(fn)
        return self.function_node(node, arg_names, ind, allow_unused)

    @staticmethod
    def nested(fn, name):
        """the ast.FunctionDef of the def `name` directly inside the body of `fn`"""
        node, _src = source_ast(fn)
        for st in node.body:
            if isinstance(st, ast.FunctionDef) and st.name == name:
                return st
        raise Untranslatable("no nested def %r in %s" % (name, node.name))

    def defaults_node(self, node):
        a = node.args
        pos = a.posonlyargs + a.args
        out = {}
        for p, d in zip(pos[len(pos) - len(a.defaults):], a.defaults):
            out[p.arg] = ast.unparse(d)
        for p, d in zip(a.kwonlyargs, a.kw_defaults):
            if d is not None:
                out[p.arg] = ast.unparse(d)
        return out
