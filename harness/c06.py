"""C06 — copies are equal and fully independent; attached landmarks are owned copies (DESIGN.md section 6, C06).

Part A (objects): for populated instances of every concrete Copyable class: `c = o.copy()`, then
  * oracle: equal state (digest), original untouched, no cell of `c` shares memory / identity with a cell of `o`
    except through the documented shared slots, write-through every buffer / container of one side and digest the
    other, public mutators on one side and digest the other;
  * model: the object graph goes to the Lean heap model (`copyCall` under the regenerated resolution table), whose
    predicted sharing graph (per access path: new / which old cell) is diffed with the real one; the driver also
    checks that the live heap conforms to the regenerated attribute-kind table (hypothesis of the theorems).
Part B (landmark managers): random histories over managers, landmarkable owners and caller-held shapes on the real
  classes, an independent value-semantics reference (the property oracle) and the Lean state machine.
"""
import json
import random
from collections import OrderedDict

import numpy as np

from . import common
from . import extract_c06 as X

PROP = "C06"
INFO = dict(
    technique="Lean 4 proof over an explicit heap model of Copyable.copy and its four overrides (copy only allocates; "
              "the copy unfolds to the same tree; on heaps conforming to a well-formed attribute-kind table every "
              "cell the copy owns is new; copy terminates on acyclic heaps) + landmark manager as a state machine "
              "with a ghost-tag ownership invariant, by induction over all histories; attribute-kind and "
              "copy-resolution tables regenerated from the live classes with kernel-decided obligations; "
              "model/implementation correspondence on sharing graphs and manager histories",
    level_text="Theorems: copy_equal (same unfolding to every depth, nothing existing changes), copy_independent "
               "(owned cells of the copy are new, reachable cells of the original are old, for every heap conforming "
               "to tables that satisfy copyWF), the two write-invisibility corollaries, copy_total (copy succeeds), "
               "and for the manager: refinement to an ordered map with OrderedDict re-set semantics, invariants over "
               "every history (distinct keys, one dimensionality, ownership), None-key resolution, set/assign/copy "
               "store copies (frame theorems).  The attribute-kind and copy-resolution tables are regenerated from "
               "populated live instances on every run and `copyWF` is re-decided by the kernel; every sampled live "
               "object graph is checked to conform to the table (hypothesis of the theorems).  An independent oracle "
               "checks equality, sharing, write-through and public mutators on the real objects and a "
               "value-semantics reference decides manager histories.",
    level_note="Trusted: Lean kernel; axioms propext/Classical.choice/Quot.sound; harness/extract_c06.py (object-graph "
               "encoding and table extraction), this harness, the driver's parser.  Python object identity and "
               "ndarray/sparse `.copy()` are modelled (a buffer's copy is a fresh buffer), not verified; the "
               "correspondence compares the model's predicted sharing graph with np.shares_memory / `is` on every case.",
    rule="Part A: one case = one populated object (class, dimension, landmark population, caches, trimming drawn at "
         "random); distinct = distinct (class, cell-graph shape); non-trivial = at least 2 mutable cells.  "
         "Part B: one case = one history (8..40 ops over 5 names incl. unicode, empty string and None, all shape "
         "classes); distinct = distinct op sequence; non-trivial = at least one successful set followed by a "
         "mutation or copy",
    partial=["public mutators are exercised on the real classes only (oracle); the model covers cell writes and "
             "allocation, of which every mutator is an instance",
             "CachedPWA._iab (memo tuple of arrays, shared by Copyable.copy because tuples have no .copy) is treated "
             "as outside the property's quantifier for transforms (not a parameter array; whitelisted like the "
             "documented sharing); checked behaviourally: apply()/set_target on either side after the copy leaves "
             "the other's results unchanged",
             "a shape's own copy inside the manager machine is abstracted to 'allocate an equal value' (justified "
             "by part 1); LandmarkManager.copy is modelled in both parts",
             "the effect of _transform_inplace on the transformed manager itself is compared by the correspondence "
             "and the reference oracle; the theorem proved for it is the frame (no other manager, no caller shape)",
             "the model allocates a cell after computing its slots (the new object, the re-initialised dict of the "
             "two deepening overrides); allocation order is not observable"],
    assumptions=["object graphs are acyclic (a cyclic graph makes Copyable.copy recurse forever; the model returns "
                 "`fuel`)", "callables held by LazyList are opaque immutable values",
                 "error correspondence is by exception *type*: the four ValueError refusals of the manager are one "
                 "class for the implementation diff (the model distinguishes them)"],
    design_ref="DESIGN.md section 6, C06; appendix 13 items 2-3")
IMPORTS = ["MenpoModel.Props.C06"]
THEOREMS = [
    "MenpoModel.C06.copy_equal",
    "MenpoModel.C06.copy_independent",
    "MenpoModel.C06.copy_total",
    "MenpoModel.C06.copy_succeeds",
    "MenpoModel.C06.closed_of_closedB",
    "MenpoModel.C06.ordered_of_orderedB",
    "MenpoModel.C06.writes_through_original_invisible_in_copy",
    "MenpoModel.C06.writes_through_copy_invisible_in_original",
    "MenpoModel.C06.deepHeap_of_tables",
    "MenpoModel.C06.copy_basic",
    "MenpoModel.C06.copy_no_attr",
    "MenpoModel.C06.copy_fresh",
    "MenpoModel.C06.LM.run_inv",
    "MenpoModel.C06.LM.reachable_inv",
    "MenpoModel.C06.LM.edit_through_manager_refines",
    "MenpoModel.C06.LM.lm_refines_ordered_map",
    "MenpoModel.C06.LM.keys_order",
    "MenpoModel.C06.LM.one_dimensionality",
    "MenpoModel.C06.LM.get_none_iff_single",
    "MenpoModel.C06.LM.set_stores_copy",
    "MenpoModel.C06.LM.assign_stores_copy",
    "MenpoModel.C06.LM.mutate_through_manager_frame",
    "MenpoModel.C06.LM.copy_mgr_equal_independent",
]
TARGETS = ["MenpoModel.Props.C06", "MenpoModel.Drive.C06"]


MAX_DISTINCT_FAILURES = 6


def _install_cap(ctx):
    """one broken override fails for every class and path; keep the first few distinct (site, pattern) pairs so
    that a run writes a handful of replays, not hundreds (known findings are matched before the cap)"""
    if getattr(ctx, "_c06_cap", False):
        return
    ctx._c06_cap = True
    orig = ctx.fail

    def fail(site, pattern, text, replay):
        distinct = {(f[0], f[1]) for f in ctx.failures}
        is_known = any(k["site"] == site and k["pattern"] == pattern for k in ctx.known)
        if not is_known and (site, pattern) not in distinct and len(distinct) >= MAX_DISTINCT_FAILURES:
            ctx.count("further-distinct-failures-not-listed")
            return
        orig(site, pattern, text, replay)

    ctx.fail = fail


# ============================================================================= part A: objects

def _by_design(obj, name):
    """the property's own exclusions, written from its text: 'the point sets an alignment was fitted to and the
    members of a chain are shared by documented design' (+ the CachedPWA memo, see INFO['partial'])"""
    from menpo.transform.homogeneous.base import HomogFamilyAlignment
    from menpo.transform import TransformChain
    from menpo.transform.piecewiseaffine.base import CachedPWA
    if isinstance(obj, HomogFamilyAlignment) and name in ("_source", "_target"):
        return "X"
    if isinstance(obj, TransformChain) and name == "transforms":
        return "S"
    if isinstance(obj, CachedPWA) and name == "_iab":
        return "X"
    return "F"


def _child_lim(cell, lim, name):
    if lim == "S":
        return "X"
    if cell[0] == "N" and cell[1].startswith("O:"):
        return _by_design(cell[3], name)
    return "F"


def _bufs(v):
    import scipy.sparse as sp
    if sp.issparse(v):
        return [getattr(v, a) for a in ("data", "indices", "indptr", "row", "col", "offsets") if hasattr(v, a)
                and isinstance(getattr(v, a), np.ndarray)]
    return [v]


def _shares(a, b):
    for x in _bufs(a):
        for y in _bufs(b):
            if x.size and y.size and np.shares_memory(x, y):
                return True
    return False


def sharing_map(enc_o, enc_c):
    """for every cell of the copy: index of a cell of the original it is / shares memory with, else None"""
    by_id = {id(c[-1]): i for i, c in enumerate(enc_o.cells)}
    obufs = [(i, c[1]) for i, c in enumerate(enc_o.cells) if c[0] == "B"]
    out = []
    for c in enc_c.cells:
        hit = by_id.get(id(c[-1]))
        if hit is None and c[0] == "B":
            for i, b in obufs:
                if _shares(c[1], b):
                    hit = i
                    break
        out.append(hit)
    return out


def entries(enc_c, root_c, shared):
    """the sharing graph of the copy in the driver's vocabulary: {path: 'new:F' | 'old<i>:X' ...}"""
    out = {}

    def go(val, lim, path, depth):
        if val[0] == "i":
            return
        j = val[1]
        if depth > 60:
            out[path] = "cut"
            return
        if shared[j] is not None:
            out[path] = "old%d:%s" % (shared[j], lim)
            return
        out[path] = "new:%s" % lim
        if lim == "X":
            return
        cell = enc_c.cells[j]
        if cell[0] == "N":
            for name, v in cell[2]:
                go(v, _child_lim(cell, lim, name), path + "/" + name, depth + 1)

    go(root_c, "F", ".", 0)
    return out


def heap_tokens(enc, root):
    toks = [str(len(enc.cells) + 3), str(root[1]), str(len(enc.cells))]
    for c in enc.cells:
        if c[0] == "B":
            toks.append("B")
        else:
            toks += ["N", c[1], str(len(c[2]))]
            for name, v in c[2]:
                toks += [name, "i" if v[0] == "i" else "r%d" % v[1]]
    return toks


def digest(o, own=False):
    """canonical observable state.  own=True: by-design shared parts only by identity."""
    import scipy.sparse as sp
    from menpo.base import Copyable
    seen = {}

    def d(v, lim):
        if lim == "X":
            return ("shared", id(v))
        if isinstance(v, np.ndarray) and v.dtype != object:
            return ("arr", str(v.dtype), v.shape, v.tobytes())
        if sp.issparse(v):
            c = v.tocoo()
            return ("sparse", type(v).__name__, v.shape, str(v.dtype),
                    tuple(sorted(zip(c.row.tolist(), c.col.tolist(), c.data.tolist()))))
        if isinstance(v, dict):
            items = [(repr(k), d(x, "X" if lim == "S" else "F")) for k, x in v.items()]
            return (type(v).__name__, tuple(items) if isinstance(v, OrderedDict) else tuple(sorted(items)))
        if isinstance(v, (list, tuple)):
            return (type(v).__name__, tuple(d(x, "X" if lim == "S" else "F") for x in v))
        if isinstance(v, Copyable):
            return (X.qual(type(v)), tuple(sorted(
                (k, d(x, ("X" if lim == "S" else _by_design(v, k)) if own else "F")) for k, x in v.__dict__.items())))
        if isinstance(v, (set, frozenset)):
            return ("set", tuple(sorted(repr(x) for x in v)))
        if isinstance(v, X.IMM_TYPES):
            if callable(v) and not isinstance(v, type):
                return ("callable", id(v))
            return ("imm", type(v).__name__, repr(v))
        return ("other", type(v).__name__, id(v))

    return d(o, "F")


def _poke(cell):
    """mutate one cell in place; returns an undo closure (None if the cell cannot be written)"""
    import scipy.sparse as sp
    if cell[0] == "B":
        v = cell[1]
        arrs = [a for a in _bufs(v) if a.size and a.flags.writeable]
        if sp.issparse(v):
            arrs = [v.data] if v.data.size else []
        if not arrs:
            return None
        saved = [a.copy() for a in arrs]
        for a in arrs:
            if a.dtype == bool:
                np.logical_not(a, out=a)
            else:
                a += 1
        return lambda: [np.copyto(a, s) for a, s in zip(arrs, saved)]
    kind, obj = cell[1], cell[3]
    if kind == "D":
        obj["__verif__"] = 1
        return lambda: obj.pop("__verif__")
    if kind == "L" and isinstance(obj, list):
        obj.append(None)
        return lambda: obj.pop()
    if kind.startswith("O:"):
        obj.__dict__["__verif__"] = 1
        return lambda: obj.__dict__.pop("__verif__")
    return None


def _shape_for(rng, d, n=None):
    from menpo.shape import PointCloud
    return PointCloud(X._pts(rng, n or 4, d))


def mutators(o, rng):
    """public mutating operations applicable to `o`: list of (name, thunk)"""
    from menpo.shape import PointCloud
    from menpo.image import Image, MaskedImage, BooleanImage
    from menpo.landmark import LandmarkManager
    from menpo.landmark.base import Landmarkable
    import menpo.transform as T
    from menpo.transform.base.alignment import Alignment
    from menpo.model import LinearVectorModel, PCAVectorModel, PCAModel
    ms = []
    if isinstance(o, Landmarkable):
        d = o.n_dims
        ms.append(("landmarks.set", lambda: o.landmarks.__setitem__("zz", _shape_for(rng, d))))
        if o.has_landmarks:
            k0 = o.landmarks.group_labels[0]
            ms.append(("landmarks.edit", lambda: o.landmarks[k0].points.__iadd__(1.0)))
            ms.append(("landmarks.transform", lambda: o.landmarks._transform_inplace(lambda x: x + 0.5)))
            ms.append(("landmarks.del", lambda: o.landmarks.__delitem__(k0)))
        ms.append(("landmarks.assign", lambda: setattr(o, "landmarks", X.add_landmarks(
            rng, _shape_for(rng, d), d).landmarks)))
    if isinstance(o, PointCloud):
        ms.append(("from_vector_inplace", lambda: o._from_vector_inplace(o.as_vector() + 1.0)))
        ms.append(("transform_inplace", lambda: o._transform_inplace(lambda x: x * 2.0)))
        ms.append(("apply_inplace", lambda: T.Translation(np.ones(o.n_dims))._apply_inplace(o)))
    if isinstance(o, Image) and not isinstance(o, BooleanImage):
        ms.append(("from_vector_inplace", lambda: o._from_vector_inplace(o.as_vector() + 0.25)))
    if isinstance(o, MaskedImage):
        ms.append(("set_masked_pixels", lambda: o.set_masked_pixels(o.masked_pixels() + 0.5)))
        ms.append(("mask.edit", lambda: o.mask.pixels.__setitem__((0,) + (0,) * o.n_dims, False)))
        ms.append(("set_boundary_pixels", lambda: o.set_boundary_pixels(value=0.75)))
    if isinstance(o, LandmarkManager):
        d = o.n_dims or 2
        ms.append(("set", lambda: o.__setitem__("zz", _shape_for(rng, d))))
        if o.n_groups:
            k0 = o.group_labels[0]
            ms.append(("edit", lambda: o[k0].points.__iadd__(1.0)))
            ms.append(("transform", lambda: o._transform_inplace(lambda x: x + 0.5)))
            ms.append(("del", lambda: o.__delitem__(k0)))
    if isinstance(o, T.Homogeneous):
        ms.append(("from_vector_inplace", lambda: o._from_vector_inplace(o.as_vector() * 0.5 + 0.25)))
        ms.append(("compose_before_inplace", lambda: o.compose_before_inplace(o.copy())))
        ms.append(("compose_after_inplace", lambda: o.compose_after_inplace(o.copy())))
        ms.append(("set_h_matrix", lambda: o.set_h_matrix(o.h_matrix.copy(), skip_checks=True)))
        if hasattr(o, "set_rotation_matrix"):
            ms.append(("set_rotation_matrix", lambda: o.set_rotation_matrix(o.rotation_matrix.T.copy())))
    if isinstance(o, Alignment):
        ms.append(("set_target", lambda: o.set_target(PointCloud(o.target.points + 0.5))))
    if isinstance(o, T.ThinPlateSplines) or type(o).__name__.endswith("PWA"):
        ms.append(("apply", lambda: o.apply(o.source.points[:2] * 0.5 + o.source.points[1:3] * 0.5)))
    if isinstance(o, T.TransformChain):
        ms.append(("compose_before_inplace", lambda: o.compose_before_inplace(T.Translation([1.0, 1.0]))))
        ms.append(("compose_after_inplace", lambda: o.compose_after_inplace(T.Translation([2.0, 1.0]))))
        ms.append(("member.edit", lambda: None))  # members are shared by design: not exercised
    if isinstance(o, LinearVectorModel):
        ms.append(("orthonormalize_inplace", lambda: o.orthonormalize_inplace()))
        ms.append(("components.edit", lambda: o.components.__imul__(2.0)))
    if isinstance(o, PCAVectorModel):
        ms.append(("trim_components", lambda: o.trim_components(max(1, o.n_components - 1))))
        ms.append(("n_active_components", lambda: setattr(o, "n_active_components", 1)))
        if isinstance(o, PCAModel):
            ms.append(("increment", lambda: o.increment([o.template_instance.copy(), o.mean()])))
            ms.append(("template.edit", lambda: o.template_instance.landmarks.__setitem__(
                "zz", _shape_for(rng, o.template_instance.n_dims))))
        else:
            ms.append(("increment", lambda: o.increment(np.vstack([o.mean() + 1.0, o.mean() - 0.5]))))
    return ms


def check_object(ctx, label, obj_seed, model_lines=None, cid=None, thorough_pokes=True):
    """one Part-A case on the real code; returns (impl_entries, enc_o, root_o) for the correspondence or None"""
    rng = random.Random(obj_seed)
    rp = {"part": "copy", "label": label, "obj_seed": obj_seed,
          "python": "from harness import extract_c06 as X; import random; o = X.make(%r, random.Random(%r)); c = o.copy()"
                    % (label, obj_seed)}
    o = X.make(label, rng)
    cls = type(o).__name__
    site = "C06/copy/" + cls
    ctx.count("class:" + cls)
    d0 = digest(o)
    try:
        c = o.copy()
    except Exception as e:
        ctx.fail(site, "copy-raises:" + type(e).__name__, "%s.copy() raised %r" % (cls, e), rp)
        return None
    ctx.check(type(c) is type(o), site, "class-changed", "copy is a %s" % type(c).__name__, rp)
    ctx.check(digest(o) == d0, site, "original-changed", "copy() changed the state of the original", rp)
    dc = digest(c)
    ctx.check(dc == d0, site, "not-equal", "the copy's observable state differs from the original's", rp)
    enc_o, root_o = X.encode(o)
    enc_c, root_c = X.encode(c)
    shared = sharing_map(enc_o, enc_c)
    ent = entries(enc_c, root_c, shared)
    n_mut = sum(1 for c_ in enc_o.cells)
    ctx.count("cells:%s" % ("40+" if n_mut >= 40 else "%d-%d" % (10 * (n_mut // 10), 10 * (n_mut // 10) + 9)))
    for path, flag in sorted(ent.items()):
        if flag.startswith("old") and not flag.endswith(":X"):
            i = int(flag[3:].split(":")[0])
            ctx.fail(site, "shared:" + _generic_path(path),
                     "after c = o.copy(), c%s is (or shares memory with) o%s" % (path[1:].replace("/", "."), enc_o.paths[i]),
                     dict(rp, copy_path=path, original_path=enc_o.paths[i]))
    # write-through: every cell reachable from the original (shared-by-design ones included) vs the copy's own state
    own_c = digest(c, own=True)
    for i, cell in enumerate(enc_o.cells):
        undo = _poke(cell)
        if undo is None:
            continue
        try:
            same = digest(c, own=True) == own_c
        finally:
            undo()
        ctx.count("poke")
        if not same:
            ctx.fail(site, "write-visible:" + _generic_path(enc_o.paths[i]),
                     "writing into o%s changed the copy" % enc_o.paths[i], dict(rp, written="o" + enc_o.paths[i]))
    # every cell the copy owns vs the original's full state
    owned = _owned_cells(enc_c, root_c)
    for j in sorted(owned):
        undo = _poke(enc_c.cells[j])
        if undo is None:
            continue
        try:
            same = digest(o) == d0
        finally:
            undo()
        ctx.count("poke")
        if not same:
            ctx.fail(site, "write-visible:" + _generic_path(enc_c.paths[j]),
                     "writing into c%s changed the original" % enc_c.paths[j], dict(rp, written="c" + enc_c.paths[j]))
    ctx.check(digest(c) == dc and digest(o) == d0, "C06/harness", "undo-failed", "write-through undo failed", rp)
    # public mutators, alternating sides
    sides = [o, c]
    for name, _ in mutators(o, rng):
        k = rng.randrange(2)
        a, b = sides[k], sides[1 - k]
        before = digest(b)
        ms = dict(mutators(a, rng))
        if name not in ms:
            continue
        try:
            ms[name]()
        except Exception:
            ctx.count("mutator-skipped")
            continue
        ctx.count("mutator:" + name)
        if digest(b) != before:
            ctx.fail(site, "mutator-visible:" + name,
                     "%s on the %s changed the %s" % (name, ["original", "copy"][k], ["copy", "original"][k]),
                     dict(rp, mutator=name, side=["original", "copy"][k]))
    return ent, enc_o, root_o


def _owned_cells(enc, root):
    out = set()

    def go(val, lim):
        if val[0] == "i" or lim == "X":
            return
        j = val[1]
        out.add(j)
        cell = enc.cells[j]
        if cell[0] == "N":
            for name, v in cell[2]:
                go(v, _child_lim(cell, lim, name))

    go(root, "F")
    return out


def _generic_path(path):
    """access path with container keys / indices blanked: stable `pattern` for known-findings"""
    import re
    p = re.sub(r"\[[^\]]*\]", "[*]", path)
    p = re.sub(r"/k[^/]*", "/*", p)
    return re.sub(r"/\d+", "/*", p)


def compare_model(ctx, reply, ent, rp, label):
    if reply.startswith("err") or reply == "bad-op":
        ctx.mismatch("copy", "model answers %r where the implementation copied a %s" % (reply, label), rp)
        return
    parts = reply.split()
    flags = dict(p.split("=", 1) for p in parts[1:6])
    model_ent = dict(p.split("=", 1) for p in parts[6:])
    if flags.get("wt") != "1":
        ctx.mismatch("conforms", "a live %s does not conform to the regenerated attribute-kind table "
                                 "(hypothesis of copy_independent)" % label, rp)
    if flags.get("closed") != "1" or flags.get("ord") != "1":
        ctx.mismatch("closed", "harness produced an unclosed / unordered heap", rp)
    if model_ent != ent:
        diff = sorted(set(model_ent.items()) ^ set(ent.items()))[:6]
        ctx.mismatch("sharing-graph", "model and implementation sharing graphs differ for %s: %r" % (label, diff),
                     dict(rp, model=sorted(model_ent.items())[:40], implementation=sorted(ent.items())[:40]))


# ============================================================================= part B: landmark managers

NAMES = ["a", "left eye", "é中", "g_3", ""]


def shape_from(cls, pts):
    """a shape of class SHAPE_KINDS[cls] on the given integer points"""
    from menpo.shape import (PointCloud, TriMesh, ColouredTriMesh, PointUndirectedGraph, PointDirectedGraph,
                             PointTree, LabelledPointUndirectedGraph)
    n = len(pts)
    p = np.array(pts, dtype=float)
    k = X.SHAPE_KINDS[cls]
    tl = np.array([[i, i + 1, i + 2] for i in range(n - 2)]) if n >= 3 else np.zeros((0, 3), dtype=int)
    edges = np.array([[i, i + 1] for i in range(n - 1)])
    if k == "PointCloud" or n < 3:
        return PointCloud(p)
    if k == "TriMesh":
        return TriMesh(p, tl)
    if k == "ColouredTriMesh":
        return ColouredTriMesh(p, tl, np.full((n, 3), 0.5))
    if k == "TexturedTriMesh":
        from menpo.shape import TexturedTriMesh
        from menpo.image import Image
        return TexturedTriMesh(p, np.full((n, 2), 0.5), Image(np.zeros((1, 2, 2))), tl)
    if k == "PointUndirectedGraph":
        return PointUndirectedGraph.init_from_edges(p, edges)
    if k == "PointDirectedGraph":
        return PointDirectedGraph.init_from_edges(p, edges)
    if k == "PointTree":
        return PointTree.init_from_edges(p, edges, 0)
    adj = np.zeros((n, n), dtype=int)
    for i in range(n - 1):
        adj[i, i + 1] = adj[i + 1, i] = 1
    return LabelledPointUndirectedGraph.init_from_indices_mapping(
        p, adj, OrderedDict([("all", list(range(n))), ("head", [0])]))


def cls_index(s):
    q = type(s).__name__
    return X.SHAPE_KINDS.index(q) if q in X.SHAPE_KINDS else 99


def obs_shape(s):
    return (cls_index(s), s.n_dims, tuple(int(v) if float(v).is_integer() else float(v) for v in s.points.ravel()))


def fmt_shape(t):
    return "%d:%d:%s" % (t[0], t[1], ",".join(str(v) for v in t[2]))


class Real:
    """the implementation side of a history"""

    def __init__(self):
        self.mgrs, self.owners, self.owner_mgr, self.exts = [], [], [], []

    def ref(self, r):
        if r[0] == "m":
            return self.mgrs[r[1]] if r[1] < len(self.mgrs) else None
        if r[1] < len(self.owners):
            return self.owners[r[1]].landmarks
        return None

    def dump(self):
        ms = ["M%d[%s]" % (i, ";".join("%d=%s" % (NAMES.index(k), fmt_shape(obs_shape(v))) for k, v in m.items()))
              for i, m in enumerate(self.mgrs)]
        es = ["E%d[%s]" % (i, fmt_shape(obs_shape(e))) for i, e in enumerate(self.exts)]
        os_ = ["O%d[%d:M%d]" % (i, o.n_dims, self.owner_mgr[i]) for i, o in enumerate(self.owners)]
        return " ".join(ms + es + os_)


class Ref:
    """value-semantics reference written from the property text: a manager is an insertion-ordered map from names
    to *values*; set / assign / copy snapshot values; only an edit through a manager changes that manager"""

    def __init__(self):
        self.mgrs, self.owners, self.exts = [], [], []

    def mref(self, r):
        if r[0] == "m":
            return r[1] if r[1] < len(self.mgrs) else None
        return self.owners[r[1]][1] if r[1] < len(self.owners) else None

    def dump(self):
        ms = ["M%d[%s]" % (i, ";".join("%d=%s" % (k, fmt_shape(v)) for k, v in m.items()))
              for i, m in enumerate(self.mgrs)]
        es = ["E%d[%s]" % (i, fmt_shape(e)) for i, e in enumerate(self.exts)]
        os_ = ["O%d[%d:M%d]" % (i, d, m) for i, (d, m) in enumerate(self.owners)]
        return " ".join(ms + es + os_)


def shift(t, d):
    return (t[0], t[1], tuple(v + d for v in t[2]))


def op_tokens(op):
    def ref(r):
        return "%s%d" % r

    def key(k):
        return "N" if k is None else str(k)
    t = op[0]
    if t == "NM":
        return ["NM"]
    if t == "NO":
        return ["NO", str(op[1])]
    if t == "NE":
        return ["NE", str(op[1]), str(op[2]), str(len(op[3]))] + [str(v) for v in op[3]]
    if t == "S":
        a = op[3]
        return ["S", ref(op[1]), key(op[2]), "w" if a[0] == "w" else "%s%d" % a]
    if t in ("G", "D"):
        return [t, ref(op[1]), key(op[2])]
    if t in ("K", "C"):
        return [t, ref(op[1])]
    if t == "A":
        return ["A", str(op[1]), ref(op[2])]
    if t == "CO":
        return ["CO", str(op[1])]
    if t == "ME":
        return ["ME", str(op[1]), str(op[2])]
    if t == "MG":
        return ["MG", ref(op[1]), key(op[2]), str(op[3])]
    if t == "X":
        return ["X", ref(op[1]), str(op[2])]
    raise ValueError(op)


def gen_history(rng, n_ops):
    """random history.  A light simulation (manager -> {key: dim}) keeps references valid and aims most reads,
    deletions and edits at groups that exist; an operation naming something that does not exist is answered
    `bad-ref` by the model and skipped on the implementation (never a finding)."""
    ops = []
    mg, owners, ext_d = [], [], []     # manager -> OrderedDict key -> dim ; owner -> [dim, mgr] ; ext -> dim

    def ref():
        if owners and (not mg or rng.random() < 0.4):
            o = rng.randrange(len(owners))
            return ("o", o), owners[o][1]
        i = rng.randrange(len(mg))
        return ("m", i), i

    def key(mi, want_existing):
        r = rng.random()
        if r < 0.12:
            return None
        ks = list(mg[mi])
        if ks and want_existing and r < 0.85:
            return rng.choice(ks)
        return rng.randrange(3) if r < 0.8 else rng.randrange(len(NAMES))

    def new_ext(d0):
        d = d0 if rng.random() < 0.75 else 5 - d0
        npts = rng.randint(1, 4)
        ops.append(("NE", rng.randrange(len(X.SHAPE_KINDS)) if npts >= 3 else 0, d,
                    tuple(rng.randint(-9, 9) for _ in range(npts * d))))
        ext_d.append(d)

    def mdim(m):
        return next(iter(m.values())) if m else None

    d0 = rng.choice([2, 2, 3])
    ops.append(("NM",)); mg.append(OrderedDict())
    ops.append(("NO", d0)); mg.append(OrderedDict()); owners.append([d0, len(mg) - 1])
    new_ext(d0); new_ext(d0)
    while len(ops) < n_ops:
        r = rng.random()
        if r < 0.05:
            ops.append(("NM",)); mg.append(OrderedDict())
        elif r < 0.09:
            d = rng.choice([2, 2, 3])
            ops.append(("NO", d)); mg.append(OrderedDict()); owners.append([d, len(mg) - 1])
        elif r < 0.17:
            new_ext(d0)
        elif r < 0.42:
            rf, mi = ref()
            a = rng.random()
            arg = ("e", rng.randrange(len(ext_d))) if a < 0.86 else (("g", rng.choice([2, 3])) if a < 0.94 else ("w",))
            k = key(mi, rng.random() < 0.3)
            ops.append(("S", rf, k, arg))
            if k is not None and arg[0] == "e" and (mdim(mg[mi]) in (None, ext_d[arg[1]])):
                mg[mi][k] = ext_d[arg[1]]
        elif r < 0.52:
            rf, mi = ref()
            ops.append(("G", rf, key(mi, True)))
        elif r < 0.60:
            rf, mi = ref()
            k = key(mi, True)
            ops.append(("D", rf, k))
            mg[mi].pop(k, None)
        elif r < 0.65:
            ops.append(("K", ref()[0]))
        elif r < 0.71:
            rf, mi = ref()
            ops.append(("C", rf)); mg.append(OrderedDict(mg[mi]))
        elif r < 0.78:
            o = rng.randrange(len(owners))
            rf, mi = ref()
            ops.append(("A", o, rf))
            if mdim(mg[mi]) in (None, owners[o][0]):
                mg.append(OrderedDict(mg[mi])); owners[o][1] = len(mg) - 1
        elif r < 0.82:
            o = rng.randrange(len(owners))
            ops.append(("CO", o)); mg.append(OrderedDict(mg[owners[o][1]])); owners.append([owners[o][0], len(mg) - 1])
        elif r < 0.90:
            ops.append(("ME", rng.randrange(len(ext_d)), rng.randint(1, 5)))
        elif r < 0.96:
            rf, mi = ref()
            ops.append(("MG", rf, key(mi, True), rng.randint(1, 5)))
        else:
            ops.append(("X", ref()[0], rng.randint(1, 5)))
    return ops


def _bad_ref(op, W):
    for x in op[1:]:
        if isinstance(x, tuple) and len(x) == 2 and x[0] in ("m", "o", "e"):
            n = {"m": len(W.mgrs), "o": len(W.owners), "e": len(W.exts)}[x[0]]
            if x[1] >= n:
                return True
    if op[0] in ("A", "CO") and op[1] >= len(W.owners):
        return True
    if op[0] == "ME" and op[1] >= len(W.exts):
        return True
    return False


def _exc_kind(e):
    return {ValueError: "ValueError", KeyError: "KeyError", AttributeError: "AttributeError"}.get(type(e), type(e).__name__)


MODEL_ERR_TYPE = {"bad-ref": "bad-ref", "none-key": "ValueError", "dim-mismatch": "ValueError", "not-pointcloud": "ValueError",
                  "ambiguous-none": "ValueError", "missing-key": "KeyError", "attr": "AttributeError"}


def run_history(ctx, ops, seed_for_owner=0):
    """run one history on the real classes and on the reference; returns the per-op implementation blocks in the
    driver's format (reply with the exception *type*) for the correspondence"""
    from menpo.landmark import LandmarkManager
    from menpo.shape import PointCloud
    from menpo.image import Image
    W, R = Real(), Ref()
    blocks = []
    rp = {"part": "manager", "ops": [list(op_tokens(op)) for op in ops], "names": NAMES,
          "owner_seed": seed_for_owner}
    orng = random.Random(seed_for_owner)
    for step_i, op in enumerate(ops):
        t = op[0]
        site = "C06/manager/" + t
        rp_i = dict(rp, failing_step=step_i)
        got, want = None, None
        try:
            if _bad_ref(op, W):
                got = want = "err:bad-ref"
            elif t == "NM":
                W.mgrs.append(LandmarkManager()); got = "idx:%d" % (len(W.mgrs) - 1)
                R.mgrs.append(OrderedDict()); want = got
            elif t == "NO":
                d = op[1]
                if orng.random() < 0.5:
                    ow = PointCloud(np.zeros((3, d)))
                else:
                    ow = Image(np.zeros((1,) + (2,) * d))
                W.owners.append(ow); W.mgrs.append(ow.landmarks); W.owner_mgr.append(len(W.mgrs) - 1)
                got = "idx:%d" % (len(W.owners) - 1)
                R.mgrs.append(OrderedDict()); R.owners.append((d, len(R.mgrs) - 1)); want = got
            elif t == "NE":
                d = op[2]
                pts = [op[3][i:i + d] for i in range(0, len(op[3]), d)]
                s = shape_from(op[1], pts)
                W.exts.append(s); got = "idx:%d" % (len(W.exts) - 1)
                R.exts.append(obs_shape(s)); want = got
            elif t == "S":
                lm, mi, k, a = W.ref(op[1]), R.mref(op[1]), op[2], op[3]
                name = None if k is None else NAMES[k]
                if a[0] == "e":
                    val = W.exts[a[1]]
                elif a[0] == "g":
                    val = Image(np.zeros((1,) + (2,) * a[1]))
                else:
                    val = np.zeros(3)
                # reference: refuse None key, non-shapes, a second dimensionality
                m = R.mgrs[mi]
                ok = (k is not None and a[0] == "e" and
                      (len(m) == 0 or next(iter(m.values()))[1] == R.exts[a[1]][1]))
                want = "ok" if ok else "refused"
                if ok:
                    m[k] = R.exts[a[1]]
                try:
                    lm[name] = val
                    got = "ok"
                    if a[0] == "e":
                        st = lm[name]
                        ctx.check(st is not val and not np.shares_memory(st.points, val.points), site, "stored-alias",
                                  "the manager stores the caller's object (or its points buffer)", rp_i)
                except Exception as e:
                    got = "err:" + _exc_kind(e)
            elif t == "G":
                lm, mi, k = W.ref(op[1]), R.mref(op[1]), op[2]
                m = R.mgrs[mi]
                if k is None:
                    want = "shape:" + fmt_shape(next(iter(m.values()))) if len(m) == 1 else "refused"
                else:
                    want = "shape:" + fmt_shape(m[k]) if k in m else "refused"
                try:
                    got = "shape:" + fmt_shape(obs_shape(lm[None if k is None else NAMES[k]]))
                except Exception as e:
                    got = "err:" + _exc_kind(e)
            elif t == "D":
                lm, mi, k = W.ref(op[1]), R.mref(op[1]), op[2]
                m = R.mgrs[mi]
                want = "ok" if (k is not None and k in m) else "refused"
                if want == "ok":
                    del m[k]
                try:
                    del lm[None if k is None else NAMES[k]]
                    got = "ok"
                except Exception as e:
                    got = "err:" + _exc_kind(e)
            elif t == "K":
                lm, mi = W.ref(op[1]), R.mref(op[1])
                ks = [NAMES.index(x) for x in lm]
                ctx.check(ks == [NAMES.index(x) for x in lm.group_labels] == [NAMES.index(x) for x in lm.keys()]
                          and len(lm) == lm.n_groups == len(ks), site, "key-views-disagree",
                          "iteration, group_labels, keys() and len() disagree", rp_i)
                nd = lm.n_dims
                ctx.check((nd is None) == (len(ks) == 0), site, "n_dims-none", "n_dims is None iff empty", rp_i)
                got = "keys:" + ",".join(str(x) for x in ks)
                want = "keys:" + ",".join(str(x) for x in R.mgrs[mi])
            elif t == "C":
                lm, mi = W.ref(op[1]), R.mref(op[1])
                W.mgrs.append(lm.copy()); got = "idx:%d" % (len(W.mgrs) - 1)
                R.mgrs.append(OrderedDict(R.mgrs[mi])); want = got
            elif t == "A":
                ow, lm, mi = W.owners[op[1]], W.ref(op[2]), R.mref(op[2])
                m = R.mgrs[mi]
                ok = len(m) == 0 or next(iter(m.values()))[1] == R.owners[op[1]][0]
                want = "ok" if ok else "refused"
                if ok:
                    R.mgrs.append(OrderedDict(m)); R.owners[op[1]] = (R.owners[op[1]][0], len(R.mgrs) - 1)
                try:
                    ow.landmarks = lm
                    got = "ok"
                    ctx.check(ow.landmarks is not lm, site, "stored-alias",
                              "the owner holds the assigned manager itself, not a copy", rp_i)
                    W.mgrs.append(ow.landmarks); W.owner_mgr[op[1]] = len(W.mgrs) - 1
                except Exception as e:
                    got = "err:" + _exc_kind(e)
            elif t == "CO":
                ow = W.owners[op[1]]
                new = ow.copy()
                W.owners.append(new); W.mgrs.append(new.landmarks); W.owner_mgr.append(len(W.mgrs) - 1)
                got = "idx:%d" % (len(W.owners) - 1)
                d, mi = R.owners[op[1]]
                R.mgrs.append(OrderedDict(R.mgrs[mi])); R.owners.append((d, len(R.mgrs) - 1)); want = got
            elif t == "ME":
                W.exts[op[1]].points += op[2]; got = "ok"
                R.exts[op[1]] = shift(R.exts[op[1]], op[2]); want = "ok"
            elif t == "MG":
                lm, mi, k, dl = W.ref(op[1]), R.mref(op[1]), op[2], op[3]
                m = R.mgrs[mi]
                kk = (next(iter(m)) if len(m) == 1 else None) if k is None else (k if k in m else None)
                want = "ok" if kk is not None else "refused"
                if kk is not None:
                    m[kk] = shift(m[kk], dl)
                try:
                    lm[None if k is None else NAMES[k]].points += dl
                    got = "ok"
                except Exception as e:
                    got = "err:" + _exc_kind(e)
            elif t == "X":
                lm, mi, dl = W.ref(op[1]), R.mref(op[1]), op[2]
                ow = W.owners[op[1][1]] if op[1][0] == "o" else None
                if (ow is not None and isinstance(ow, PointCloud) and step_i % 2 == 0
                        and lm.n_dims in (None, ow.n_dims)):
                    # transform the owner in place: its landmarks must move with it
                    from menpo.transform import Translation
                    Translation(np.full(ow.n_dims, float(dl)))._apply_inplace(ow)
                    ctx.count("op:X.owner-apply-inplace")
                else:
                    lm._transform_inplace(lambda x, dl=dl: x + dl)
                got = "ok"
                m = R.mgrs[mi]
                for kk in list(m):
                    m[kk] = shift(m[kk], dl)
                want = "ok"
        except Exception as e:  # an operation the property says must succeed raised
            ctx.fail(site, "raises:" + type(e).__name__, "step %d (%s) raised %r" % (step_i, " ".join(op_tokens(op)), e), rp_i)
            return None
        ctx.count("op:" + t)
        if got.startswith("err:"):
            ctx.count("refused:" + t + ":" + got[4:])
        g2 = "refused" if got.startswith("err:") else got
        ctx.check(g2 == want, site, "outcome", "step %d (%s): implementation %s, the property requires %s"
                  % (step_i, " ".join(op_tokens(op)), got, want), rp_i)
        for oi, ow in enumerate(W.owners):
            if ow.landmarks is not W.mgrs[W.owner_mgr[oi]]:
                ctx.fail("C06/harness", "owner-manager-changed", "owner %d silently got another manager" % oi, rp_i)
        dw, dr = W.dump(), R.dump()
        if dw != dr:
            ctx.fail(site, "state", "after step %d (%s) the stored landmarks differ from what the history requires:"
                     " implementation %s / required %s" % (step_i, " ".join(op_tokens(op)), dw, dr), rp_i)
            return None
        blocks.append(got + " # " + dw)
    return blocks


def compare_history(ctx, reply, blocks, ops, owner_seed=0):
    mb = reply.split(" | ")
    rp = {"part": "manager", "ops": [list(op_tokens(op)) for op in ops], "names": NAMES, "owner_seed": owner_seed}
    if len(mb) != len(blocks):
        ctx.mismatch("manager", "model answered %d blocks for %d ops: %r" % (len(mb), len(blocks), reply[:200]), rp)
        return
    for i, (m, b) in enumerate(zip(mb, blocks)):
        mr, _, mw = m.partition(" # ")
        br, _, bw = b.partition(" # ")
        if mr.startswith("err:"):
            mr = "err:" + MODEL_ERR_TYPE.get(mr[4:], mr[4:])
        if mr != br or mw != bw:
            ctx.mismatch("manager." + ops[i][0], "step %d (%s): model %r vs implementation %r"
                         % (i, " ".join(op_tokens(ops[i])), m[:300], b[:300]), dict(rp, failing_step=i))
            return


def nontrivial_history(ops):
    seen_set = False
    for op in ops:
        if op[0] == "S" and op[3][0] == "e" and op[2] is not None:
            seen_set = True
        elif seen_set and op[0] in ("ME", "MG", "X", "C", "A", "CO"):
            return True
    return False


# ============================================================================= cache behaviour of CachedPWA copies

def check_pwa_memo(ctx, seed):
    """the one slot treated as outside the quantifier: a copy and its original may share the memo tuple; no public
    operation on one may change what the other computes"""
    rng = random.Random(seed)
    o = X.make("CachedPWA", rng)
    site = "C06/copy/CachedPWA.memo"
    p1 = np.array([[1.0, 1.0], [2.0, 2.5]])
    p2 = np.array([[0.5, 0.5], [3.0, 0.5], [1.0, 2.0]])
    r1 = o.apply(p1)
    c = o.copy()
    c.apply(p2)
    c.set_target(type(o.target)(o.target.points + 1.0))
    c.apply(p1)
    ctx.check(np.array_equal(o.apply(p1), r1), site, "memo-leak", "using the copy changed what the original computes",
              {"part": "pwa-memo", "obj_seed": seed})
    ctx.case(("pwa-memo", seed), nontrivial=True)


# ============================================================================= run / search / replay

def generated(ctx):
    files, notes = X.lean_files()
    ctx.notes["generated_tables"] = notes
    ok = common.build_generated(ctx, files, [X.GEN_MODULE, X.OBL_MODULE], 2)
    if not ok:
        ctx.notes["generated_obligation"] = "copyWF / copySupplier_ok no longer check against the live classes"
    if notes["missing_instances"]:
        ctx.notes["classes_without_instance"] = notes["missing_instances"]


def part_a(ctx, n, with_model=True):
    rng = ctx.rng
    lines, pend = [], {}
    for k in range(n):
        label = X.LABELS[k % len(X.LABELS)] if k < 2 * len(X.LABELS) else rng.choice(X.LABELS)
        obj_seed = rng.randrange(1 << 30)
        res = check_object(ctx, label, obj_seed)
        rp = {"part": "copy", "label": label, "obj_seed": obj_seed}
        if res is None:
            ctx.case(("copy", label, obj_seed), nontrivial=False)
            continue
        ent, enc_o, root_o = res
        shape_sig = tuple((c[0],) if c[0] == "B" else (c[1], tuple(n for n, _ in c[2])) for c in enc_o.cells)
        ctx.case(("copy", label, shape_sig), nontrivial=len(enc_o.cells) >= 2,
                 sample={"class": label, "cells": len(enc_o.cells),
                         "sharing_graph": dict(sorted(ent.items())[:6])})
        if with_model:
            cid = "a%d" % k
            lines.append(cid + " copy " + " ".join(heap_tokens(enc_o, root_o)))
            pend[cid] = (ent, rp, label)
    return lines, pend


def part_b(ctx, n, with_model=True):
    rng = ctx.rng
    lines, pend = [], {}
    for k in range(n):
        ops = gen_history(rng, rng.randint(8, 40))
        blocks = run_history(ctx, ops, seed_for_owner=k)
        toks = [tk for op in ops for tk in op_tokens(op)]
        ctx.case(("lm",) + tuple(toks), nontrivial=nontrivial_history(ops),
                 sample={"history": " ".join(toks)[:300], "last": (blocks or ["-"])[-1][:200]})
        if blocks is not None and with_model:
            cid = "b%d" % k
            lines.append(cid + " lm " + str(len(ops)) + " " + " ".join(toks))
            pend[cid] = (blocks, ops, k)
    return lines, pend


def search(ctx):
    """directed search after a broken tie: the oracle alone on many more objects (every class, all variants) and
    histories; classes named by a broken obligation first"""
    rng = ctx.rng
    for k in range(40 * len(X.LABELS)):
        label = X.LABELS[k % len(X.LABELS)]
        check_object(ctx, label, rng.randrange(1 << 30))
        ctx.searched += 1
        if ctx.failures:
            return True
    for k in range(1500):
        ops = gen_history(rng, rng.randint(8, 40))
        run_history(ctx, ops, seed_for_owner=k)
        ctx.searched += 1
        if ctx.failures:
            return True
    return False


def run(ctx):
    _install_cap(ctx)
    common.prepare_lean(ctx, PROP, IMPORTS, THEOREMS, targets=TARGETS, generated=generated)
    ctx.trusted += ["harness/extract_c06.py: encoding of live object graphs as heaps and extraction of the "
                    "attribute-kind / copy-resolution tables",
                    "numpy/scipy `.copy()` of an array / sparse matrix returns fresh buffers (contract; checked on "
                    "every case by np.shares_memory)"]
    la, pa = part_a(ctx, ctx.n(600, 6000))
    lb, pb = part_b(ctx, ctx.n(500, 6000))
    for s in range(ctx.n(5, 40)):
        check_pwa_memo(ctx, ctx.rng.randrange(1 << 30))
    model = common.run_driver(PROP, la + lb)
    for cid, (ent, rp, label) in pa.items():
        compare_model(ctx, model[cid], ent, rp, label)
    for cid, (blocks, ops, oseed) in pb.items():
        compare_history(ctx, model[cid], blocks, ops, oseed)
    return ctx.finish(search)


def replay(ctx, path):
    _install_cap(ctx)
    data = json.load(open(path))
    rp = data.get("replay") or (data.get("broken_correspondence") or [{}])[0].get("case", {})
    common.prepare_lean(ctx, PROP, IMPORTS, THEOREMS, targets=TARGETS, generated=generated)
    part = rp.get("part")
    if part == "copy":
        res = check_object(ctx, rp["label"], rp["obj_seed"])
        ctx.case(("replay", rp["label"], rp["obj_seed"]))
        ctx.case(("replay2", rp["label"], rp["obj_seed"]))
        if res is not None:
            ent, enc_o, root_o = res
            model = common.run_driver(PROP, ["r copy " + " ".join(heap_tokens(enc_o, root_o))])
            print("implementation:", sorted(ent.items()))
            print("model         :", model["r"])
            compare_model(ctx, model["r"], ent, rp, rp["label"])
    elif part == "manager":
        ops = [parse_op(t) for t in rp["ops"]]
        blocks = run_history(ctx, ops, seed_for_owner=rp.get("owner_seed", 0))
        ctx.case(("replay", json.dumps(rp["ops"])))
        ctx.case(("replay2", json.dumps(rp["ops"])))
        if blocks is not None:
            toks = [tk for op in ops for tk in op_tokens(op)]
            model = common.run_driver(PROP, ["r lm %d %s" % (len(ops), " ".join(toks))])
            print("implementation:", blocks[-1])
            print("model         :", model["r"].split(" | ")[-1])
            compare_history(ctx, model["r"], blocks, ops, rp.get("owner_seed", 0))
    elif part == "pwa-memo":
        check_pwa_memo(ctx, rp["obj_seed"])
        ctx.case(("replay2", rp["obj_seed"]))
    else:
        print("replay file carries no C06 case (a broken regenerated obligation has no input); re-running the check")
        return run(ctx)
    return ctx.finish(None)


def parse_op(t):
    def ref(s):
        return (s[0], int(s[1:]))

    def key(s):
        return None if s == "N" else int(s)
    k = t[0]
    if k == "NM":
        return ("NM",)
    if k == "NO":
        return ("NO", int(t[1]))
    if k == "NE":
        return ("NE", int(t[1]), int(t[2]), tuple(int(v) for v in t[4:]))
    if k == "S":
        a = t[3]
        return ("S", ref(t[1]), key(t[2]), ("w",) if a == "w" else (a[0], int(a[1:])))
    if k in ("G", "D"):
        return (k, ref(t[1]), key(t[2]))
    if k in ("K", "C"):
        return (k, ref(t[1]))
    if k == "A":
        return ("A", int(t[1]), ref(t[2]))
    if k == "CO":
        return ("CO", int(t[1]))
    if k == "ME":
        return ("ME", int(t[1]), int(t[2]))
    if k == "MG":
        return ("MG", ref(t[1]), key(t[2]), int(t[3]))
    if k == "X":
        return ("X", ref(t[1]), int(t[2]))
    raise ValueError(t)
