"""C06 — copies are equal and fully independent; attached landmarks are owned copies (DESIGN.md section 6, C06).

Part A (objects): for populated instances of every concrete Copyable class: `c = o.copy()`, then
  * oracle: equal state (digest), original untouched, no cell of `c` shares memory / identity with a cell of `o`
    except through the documented shared slots, write-through every buffer / container of one side and digest the
    other, public mutators on one side and digest the other;
  * model: the object graph goes to the Lean heap model (`copyCall` under the regenerated resolution table), whose
    predicted sharing graph (per access path: new / which old cell) is diffed with the real one; the driver also
    checks that the live heap conforms to the regenerated attribute-kind table (hypothesis of the theorems).
Part B (landmark managers): random histories over managers, landmarkable owners and caller-held shapes on the real
  classes, an independent value-semantics reference (the property oracle) and the Lean state machine.
Part C (heap histories): a populated object, then 6..14 public operations (copy, array write, attribute rebinding,
  one of a fixed list of public mutators, landmark-group assignment / deletion, the inherited mapping methods update / setdefault / pop /
  popitem / clear, the landmarks setter) through the original, its copies
  and copies of copies; oracle after every step: every object the step was not performed on is unchanged; model:
  the same history on the Lean heap machine `stepH` (copy / assignment predicted, other mutators replayed from
  their observed effect and checked to be confined to owned cells), aliasing graphs of everything held compared
  after every step, conformance to the regenerated table re-checked after every step.
"""
import json
import random
from collections import OrderedDict

import numpy as np

from . import common
from . import extract_c06 as X

PROP = "C06"
INFO = dict(
    technique="Lean 4 proof over an explicit heap model of Copyable.copy and its four overrides (copy only allocates; "
              "the copy unfolds to the same tree; on heaps conforming to a well-formed attribute-kind table every "
              "cell the copy owns is new; conformance is inherited by copies; a copy reaches nothing foreign; copy "
              "terminates on acyclic heaps) + the public mutators as operations on that heap (array write, "
              "attribute / item rebinding to fresh object graphs, x[k] = y.copy(), del), with the separation of the "
              "objects the caller holds as an invariant by induction over every interleaving of mutators and copies "
              "+ landmark manager as a state machine with a ghost-tag ownership invariant, by induction over all "
              "histories; attribute-kind, copy-resolution and mutator-effect tables regenerated from the live "
              "classes with kernel-decided obligations; the BODIES of 19 anchored functions (Copyable.copy, "
              "LazyList.copy, LandmarkManager.copy, LabelledPointUndirectedGraph.copy, HomogFamilyAlignment.copy on "
              "the heap; LandmarkManager.__init__ / __setitem__ / __getitem__ / __delitem__ / __len__ / n_groups / "
              "has_landmarks / group_labels / n_dims / copy / _transform_inplace and the Landmarkable.landmarks "
              "setter on the manager world; LandmarkManager.__init__ and the Landmarkable.landmarks getter on the "
              "heap) TRANSLATED from the source text of the working tree on every run (harness/trans_c06.py on "
              "harness/py2lean2s.py: implicit mutable world, failure, try / except, for loops as folds) and proved "
              "equal, for all arguments, to the definitions the theorems are about (22 re-checked obligations); the "
              "manager machine run by the translated methods reaches, over every history, the worlds of the "
              "model's machine; "
              "model/implementation correspondence on sharing graphs, heap histories and manager histories",
    level_text="Theorems: copy_equal (same unfolding to every depth, nothing existing changes), copy_independent "
               "(owned cells of the copy are new, reachable cells of the original are old, for every heap conforming "
               "to tables that satisfy copyWF), the two write-invisibility corollaries, copy_total (copy succeeds), "
               "copy_reach (a copy reaches only new cells or cells the original reached), "
               "copy_preserves_conformance / copy_of_copy_independent (copies of copies need no new hypothesis).  "
               "Histories on the heap: step_sep / history_frame / copy_then_history (along every accepted "
               "interleaving of copy, in-place array writes, attribute and item rebinding, landmark-group "
               "assignment, the landmarks setter and deletion through the original, its copies and copies of "
               "copies, the objects held stay pairwise separated and an object's own state changes only by "
               "operations performed through it), putCopy_stores_copy (assignment stores a new, equal, wholly "
               "owned object), copy_write_history_conforms, attr_update_conforms / dict_update_conforms (mutated "
               "objects stay inside the table under a decidable side condition).  Manager state machine: "
               "refinement to an ordered map with OrderedDict re-set semantics, invariants over every history "
               "(distinct keys, one dimensionality, ownership), None-key resolution, set/assign/copy store copies "
               "(frame theorems), xform_refines (_transform_inplace moves every group of the receiver exactly once), "
               "observers_refine (iteration, group_labels, n_groups, has_landmarks, items_matching, n_dims are "
               "functions of the ordered map).  TRANSLATED rather than transcribed (GenProps/C06Src.lean, rebuilt "
               "against Generated/C06Src.lean = the source text of the working tree, on every run): "
               "copyableCopy_eq (the try / except AttributeError attribute loop of Copyable.copy is copySlots), "
               "landmarkManagerCopy_eq / labelledCopy_eq (generic copy, then every value of the dict re-set to its "
               "copy = deepenValues), lazyListCopy_eq, homogAlignCopy_eq, assembled in srcCopyObj_eq: on every closed "
               "heap whose dicts have distinct keys the model's copyCall on an object IS the translated body of the "
               "copy method Python resolves for its class (attribute copies by the model one level down); "
               "copy_preserves_pyDict (distinct keys are an invariant of copy); lmSetItem_eq / lmGetItem_eq / "
               "lmDelItem_eq / lmCopy_eq / lmTransformInplace_eq / lmInit_eq / lmNDims_eq / lmNGroups_eq / lmLen_eq / "
               "lmHasLandmarks_eq / lmGroupLabels_eq / setLandmarks_eq (the manager machine's setItem, getItem, "
               "delItem, copyMgr, xformMgr, newMgr, nDims, observers and assign are the translated methods, errors "
               "by exception class); lmInitHeap_eq / landmarksGetter_eq / landmarksGetter_noop (the first access of "
               ".landmarks is exactly the heap operation putFresh with the fragment Src.lmFrag that the driver "
               "executes); and the property theorems restated ABOUT the translated methods: src_copy_equal, "
               "src_copy_independent, src_copy_total, src_lm_refines_ordered_map, src_keys_order, "
               "src_get_none_iff_single, src_assign_stores_copy, src_copy_mgr_equal_independent, src_xform_refines, "
               "src_observers_refine; and over ALL HISTORIES: srcStep_eq (one step of the machine whose manager "
               "methods are the translated bodies = one step of the model's machine, same world, same reply up to "
               "the exception class), src_run_eq (by induction over the operation list), hence src_reachable_inv, "
               "src_one_dimensionality, src_set_stores_copy about the translated code.  "
               "The attribute-kind, copy-resolution and mutator-effect tables are "
               "regenerated from populated live instances on every run; `copyWF` and `mutEffects_ok` (every "
               "observed effect of every exercised public mutator updates only cells its receiver owns, with "
               "fresh content of a kind the table lists) are re-decided by the kernel; every sampled live object "
               "graph, also after every step of every sampled history, is checked to conform to the table "
               "(hypothesis of the theorems); every sampled live heap and its model copy are checked to have "
               "distinct dict keys (pyDictB: the hypothesis PyDict of srcCopyObj_eq).  "
               "An independent oracle checks equality (of the state the property names; private memo attributes and "
               "the mutual consistency of the manager's views are correspondence observations only), sharing, "
               "write-through and "
               "public mutators on the real objects, per step of every history that what was done through one "
               "object is invisible in all others, and a value-semantics reference decides manager histories.",
    level_note="Trusted: Lean kernel; axioms propext/Classical.choice/Quot.sound; harness/py2lean2.py + "
               "harness/py2lean2s.py (the source-to-Lean translator; self-tests tools/test_py2lean2.py, "
               "tools/test_py2lean2s.py compare Python with #eval of the translation) and the C06 vocabulary "
               "harness/trans_c06.py + lean/MenpoModel/Core/C06Src.lean (which Lean operation each Python expression "
               "of the translated bodies stands for); harness/extract_c06.py (object-graph "
               "encoding and table extraction), this harness (incl. the differ that reads a mutator's effect off the "
               "object graph by object identity and array content), the driver's parser.  Python object identity and "
               "ndarray/sparse `.copy()` are modelled (a buffer's copy is a fresh buffer), not verified; the "
               "correspondence compares the model's predicted sharing graph with np.shares_memory / `is` on every case.",
    rule="Part A: one case = one populated object (class, dimension, landmark population, caches, trimming, array "
         "storage variant - owning / view into a larger base / Fortran order / other dtype - drawn at random); "
         "distinct = distinct (class, cell-graph shape); non-trivial = at least 2 mutable cells.  "
         "Part B: one case = one history (8..40 ops over 5 names incl. unicode, empty string and None, all shape "
         "classes); distinct = distinct op sequence; non-trivial = at least one successful set followed by a "
         "mutation or copy.  Part C: one case = one heap history (6..14 public operations - copy, array write, "
         "attribute rebinding, one of the FIXED LIST of public mutators (harness/c06.py: mutators), group assignment "
         "/ deletion incl. the inherited mapping methods, "
         "landmarks setter - through up to 5 "
         "objects: the original, copies, copies of copies); distinct = distinct (class, operation sequence); "
         "non-trivial = a copy followed by a state-changing operation",
    partial=["public mutators in the model: copy(), landmark-group assignment / deletion (also through the inherited "
             "update / setdefault / pop / popitem / clear), the landmarks setter and the first access of .landmarks "
             "(the lazily created manager) are predicted by the model, and the model definitions that predict them "
             "are proved equal to the bodies translated from the source (GenProps/C06Src.lean); "
             "'public mutator' means a FIXED, hand-written list, not every public method: Landmarkable: landmarks[k] = shape, landmarks[k].points += c, landmarks._transform_inplace, del landmarks[k], landmarks = manager; PointCloud: _from_vector_inplace, _transform_inplace, Translation._apply_inplace; Image: _from_vector_inplace (copy=True and copy=False); MaskedImage: set_masked_pixels (copy=True and copy=False), mask.pixels[...] = v; LandmarkManager: lm[k] = shape, lm[k].points += c, _transform_inplace, del lm[k]; Homogeneous family: _from_vector_inplace, compose_before_inplace, compose_after_inplace, compose_after_from_vector_inplace, set_rotation_matrix (where defined); Alignment: set_target; ThinPlateSplines / PWA: apply (memo); TransformChain: compose_before_inplace, compose_after_inplace; LinearVectorModel: orthonormalize_inplace, orthonormalize_against_inplace, components *= c, components = a; PCAVectorModel / PCAModel: trim_components, n_active_components = k, increment, template_instance.landmarks[k] = shape.  "
             "set_h_matrix is not in it (Homogeneous.h_matrix_is_mutable is False for every class: the call always "
             "raises), set_boundary_pixels neither (it returns a new image); members of a TransformChain are shared by "
             "documented design and not edited.  Per (class, mutator) the run records how often the call ran / raised "
             "(evidence: generated_tables.mutator_runs); a listed mutator that never runs for a class is reported as a "
             "broken tie.  "
             "For every other listed mutator (array kernels: _from_vector_inplace, _set_h_matrix, set_target, "
             "increment, orthonormalize_inplace ...) the model executes the update of the "
             "object graph that the real call was observed to make (writes into owned arrays, rebinding of "
             "attributes / items to freshly built object graphs, deletions), checks that it is confined to cells "
             "the receiver owns and predicts the aliasing graph of everything held afterwards; mutators whose "
             "effect is not of that form (TransformChain.compose_*_inplace appends a member shared by documented "
             "design) are decided by the oracle only",
             "CachedPWA._iab (memo tuple of arrays, shared by Copyable.copy because tuples have no .copy) is treated "
             "as outside the property's quantifier for transforms (not a parameter array; whitelisted like the "
             "documented sharing); checked behaviourally: apply()/set_target on either side after the copy leaves "
             "the other's results unchanged",
             "the manager state machine of part 2 abstracts a shape's own copy to 'allocate an equal value'; the "
             "same assignments with the real copyCall are part 3 (putCopy_stores_copy, history_frame)",
             "conformance to the attribute-kind table along histories is proved for copies and array writes; "
             "for attribute rebinding and dict updates it is proved under a decidable side condition (the kind "
             "stored is listed), established for every observed mutator effect by the regenerated obligation "
             "mutEffects_ok and re-checked by the driver after every step of every sampled history",
             "the model allocates a cell after computing its slots (the new object, the re-initialised dict of the "
             "two deepening overrides); allocation order is not observable.  The translation vocabulary takes the "
             "same liberty: the object a copy method / __init__ builds is a pending value (Src.PObj) that becomes "
             "a cell when it is returned, and `new.x[k] = v.copy()` re-initialises the pending dict instead of "
             "writing the shallow copy on the heap",
             "one dimensionality is enforced AT ASSIGNMENT (set / landmarks setter): the machine's edits through a "
             "stored group (ME / MG / X) are value edits that keep n_dims, so one_dimensionality is universal over "
             "that vocabulary only - the code does not stop lm['a'].points = <array of another width> or a "
             "_transform_inplace with a dimension-changing callable, and the property text does not ask it to",
             "replacing the ONLY group by a shape of another dimensionality: the code (and therefore the model's "
             "setItem) refuses it; the property text also allows the replacement (one dimensionality still holds), "
             "so the oracle accepts both outcomes and a replacement shows up as a model/implementation difference",
             "vocabulary liberties of the translation (trusted, lean/MenpoModel/Core/C06Src.lean + "
             "harness/trans_c06.py): Src.newOf drops its class argument - the class of the copy comes from "
             "Src.finish C in srcCopyObj, i.e. 'the copy has the class of the original' holds by vocabulary for the "
             "translated bodies (the only class expression with a rule is self.__class__ / type(self)); "
             "Src.attrIsNone is true for any immutable attribute value; super(LandmarkManager, self).__init__() is "
             "a skip rule (a state-bearing __init__ added to a base class would not be seen); on the manager world "
             "Copyable.copy(manager) is one word (Src.shallowCopyMgr) and value.copy() of a shape is 'allocate an "
             "equal value' (Src.copyArg / Src.copyShape); TypeError in an except clause adds no arm (the heap "
             "model has no such failure); iterating self._landmark_groups instead of new._landmark_groups in "
             "LandmarkManager.copy has no rule (needs a semantic lemma about the shallow dict copy): such a rewrite "
             "ends in `no-failing-input-found`",
             "the translated bodies equal the model under the well-formedness the Python data model guarantees: "
             "dict keys / attribute names distinct (PyDict, an invariant of copy: copy_preserves_pyDict; for the "
             "manager: WInv.keys), references inside the heap (Closed), `self` exists; the four ValueError refusals "
             "of the manager are one exception class for the translated code (Src.toPy)"],
    assumptions=["object graphs are acyclic (a cyclic graph makes Copyable.copy recurse forever; the model returns "
                 "`fuel`)", "callables held by LazyList are opaque immutable values",
                 "functions, functools.partial objects, bound methods, dtypes, slices, ranges and class objects "
                 "WITHOUT a `copy` attribute held in any attribute are immutable values for the attribute-kind table "
                 "(what a partial / bound method refers to is not followed); `.copy()` of an immutable is "
                 "AttributeError in the model - a class object with an unbound `copy` (self.kind = dict), on which "
                 "the real Copyable.copy raises TypeError, is encoded as kind `other` so that copyWF fails loudly",
                 "memo attributes (private attributes other than the named state: harness/c06.py NAMED_PRIVATE) are "
                 "not observable state: a copy that differs from the original only there is reported as a "
                 "model/implementation difference, not as a violation",
                 "error correspondence is by exception *type*: the four ValueError refusals of the manager are one "
                 "class for the implementation diff (the model distinguishes them)",
                 "fnmatch (glob matching of group names) is library code: its verdict per name is an input of "
                 "the model"],
    design_ref="DESIGN.md section 6, C06; appendix 13 items 2-3")
IMPORTS = ["MenpoModel.Props.C06"]
THEOREMS = [
    "MenpoModel.C06.copy_equal",
    "MenpoModel.C06.copy_independent",
    "MenpoModel.C06.copy_total",
    "MenpoModel.C06.copy_succeeds",
    "MenpoModel.C06.closed_of_closedB",
    "MenpoModel.C06.ordered_of_orderedB",
    "MenpoModel.C06.writes_through_original_invisible_in_copy",
    "MenpoModel.C06.writes_through_copy_invisible_in_original",
    "MenpoModel.C06.deepHeap_of_tables",
    "MenpoModel.C06.copy_basic",
    "MenpoModel.C06.copy_no_attr",
    "MenpoModel.C06.copy_fresh",
    "MenpoModel.C06.step_sep",
    "MenpoModel.C06.history_frame",
    "MenpoModel.C06.copy_then_history",
    "MenpoModel.C06.single_root_separated",
    "MenpoModel.C06.putCopy_stores_copy",
    "MenpoModel.C06.copy_reach",
    "MenpoModel.C06.copy_preserves_wt",
    "MenpoModel.C06.copy_preserves_conformance",
    "MenpoModel.C06.copy_of_copy_independent",
    "MenpoModel.C06.step_preserves_wt",
    "MenpoModel.C06.copy_write_history_conforms",
    "MenpoModel.C06.attr_update_conforms",
    "MenpoModel.C06.dict_update_conforms",
    "MenpoModel.C06.putImm_conforms",
    "MenpoModel.C06.putFresh_conforms",
    "MenpoModel.C06.putCopy_conforms",
    "MenpoModel.C06.LM.run_inv",
    "MenpoModel.C06.LM.reachable_inv",
    "MenpoModel.C06.LM.edit_through_manager_refines",
    "MenpoModel.C06.LM.lm_refines_ordered_map",
    "MenpoModel.C06.LM.keys_order",
    "MenpoModel.C06.LM.one_dimensionality",
    "MenpoModel.C06.LM.get_none_iff_single",
    "MenpoModel.C06.LM.set_stores_copy",
    "MenpoModel.C06.LM.assign_stores_copy",
    "MenpoModel.C06.LM.mutate_through_manager_frame",
    "MenpoModel.C06.LM.copy_mgr_equal_independent",
    "MenpoModel.C06.LM.xform_refines",
    "MenpoModel.C06.LM.observers_refine",
]
TARGETS = ["MenpoModel.Props.C06", "MenpoModel.Drive.C06"]
# the theorems of GenProps/C06Src.lean (about the bodies TRANSLATED from the source text): the 22 equality obligations
# and the property theorems restated for the translated methods.  They are axiom-audited on every run on which the
# obligations hold (when the source no longer translates to the model they are reported as a broken obligation instead).
from .trans_c06 import SRC_THEOREMS, OBL_MODULE as SRC_OBL_MODULE  # noqa: E402
THEOREMS = THEOREMS + SRC_THEOREMS


MAX_DISTINCT_FAILURES = 6


def _install_cap(ctx):
    """one broken override fails for every class and path; keep the first few distinct (site, pattern) pairs so
    that a run writes a handful of replays, not hundreds (known findings are matched before the cap)"""
    if getattr(ctx, "_c06_cap", False):
        return
    ctx._c06_cap = True
    orig = ctx.fail

    def fail(site, pattern, text, replay):
        distinct = {(f[0], f[1]) for f in ctx.failures}
        is_known = any(k["site"] == site and k["pattern"] == pattern for k in ctx.known)
        if not is_known and (site, pattern) not in distinct and len(distinct) >= MAX_DISTINCT_FAILURES:
            ctx.count("further-distinct-failures-not-listed")
            return
        orig(site, pattern, text, replay)

    ctx.fail = fail


# ============================================================================= part A: objects

def _by_design(obj, name):
    """the property's own exclusions, written from its text: 'the point sets an alignment was fitted to and the
    members of a chain are shared by documented design' (+ the CachedPWA memo, see INFO['partial'])"""
    from menpo.transform.homogeneous.base import HomogFamilyAlignment
    from menpo.transform import TransformChain
    from menpo.transform.piecewiseaffine.base import CachedPWA
    if isinstance(obj, HomogFamilyAlignment) and name in ("_source", "_target"):
        return "X"
    if isinstance(obj, TransformChain) and name == "transforms":
        return "S"
    if isinstance(obj, CachedPWA) and name == "_iab":
        return "X"
    return "F"


def _child_lim(cell, lim, name):
    if lim == "S":
        return "X"
    if cell[0] == "N" and cell[1].startswith("O:"):
        return _by_design(cell[3], name)
    return "F"


def _bufs(v):
    import scipy.sparse as sp
    if sp.issparse(v):
        return [getattr(v, a) for a in ("data", "indices", "indptr", "row", "col", "offsets") if hasattr(v, a)
                and isinstance(getattr(v, a), np.ndarray)]
    return [v]


def _shares(a, b):
    for x in _bufs(a):
        for y in _bufs(b):
            if x.size and y.size and np.shares_memory(x, y):
                return True
    return False


def sharing_map(enc_o, enc_c):
    """for every cell of the copy: index of a cell of the original it is / shares memory with, else None"""
    by_id = {id(c[-1]): i for i, c in enumerate(enc_o.cells)}
    obufs = [(i, c[1]) for i, c in enumerate(enc_o.cells) if c[0] == "B"]
    out = []
    for c in enc_c.cells:
        hit = by_id.get(id(c[-1]))
        if hit is None and c[0] == "B":
            for i, b in obufs:
                if _shares(c[1], b):
                    hit = i
                    break
        out.append(hit)
    return out


def entries(enc_c, root_c, shared):
    """the sharing graph of the copy in the driver's vocabulary: {path: 'new:F' | 'old<i>:X' ...}"""
    out = {}

    def go(val, lim, path, depth):
        if val[0] == "i":
            return
        j = val[1]
        if depth > 60:
            out[path] = "cut"
            return
        if shared[j] is not None:
            out[path] = "old%d:%s" % (shared[j], lim)
            return
        out[path] = "new:%s" % lim
        if lim == "X":
            return
        cell = enc_c.cells[j]
        if cell[0] == "N":
            for name, v in cell[2]:
                go(v, _child_lim(cell, lim, name), path + "/" + name, depth + 1)

    go(root_c, "F", ".", 0)
    return out


def heap_tokens(enc, root):
    toks = [str(len(enc.cells) + 3), str(root[1]), str(len(enc.cells))]
    for c in enc.cells:
        if c[0] == "B":
            toks.append("B")
        else:
            toks += ["N", c[1], str(len(c[2]))]
            for name, v in c[2]:
                toks += [name, "i" if v[0] == "i" else "r%d" % v[1]]
    return toks


# private attributes that hold state the property names (coordinates, pixels, mask, connectivity, labels, landmark
# groups, transform matrices and the point sets an alignment was fitted to, model components, lazy-list members);
# every OTHER private attribute is a memo / cache (`_iab`, `_applied_points`, ...): not observable state
NAMED_PRIVATE = {"_landmarks", "_landmark_groups", "_labels_to_masks", "_h_matrix", "_source", "_target", "_directed",
                 "_components", "_mean", "_eigenvalues", "_trimmed_eigenvalues", "_n_active_components", "_callables"}


def _is_cache_attr(name):
    return name.startswith("_") and name not in NAMED_PRIVATE


def digest(o, own=False, skip=None):
    """canonical observable state.  own=True: by-design shared parts only by identity.  skip: predicate on attribute
    names that are left out (memo attributes)."""
    import scipy.sparse as sp
    from menpo.base import Copyable
    seen = {}

    def d(v, lim):
        if lim == "X":
            return ("shared", id(v))
        if isinstance(v, np.ndarray) and v.dtype != object:
            return ("arr", str(v.dtype), v.shape, v.tobytes())
        if sp.issparse(v):
            c = v.tocoo()
            return ("sparse", type(v).__name__, v.shape, str(v.dtype),
                    tuple(sorted(zip(c.row.tolist(), c.col.tolist(), c.data.tolist()))))
        if isinstance(v, dict):
            items = [(repr(k), d(x, "X" if lim == "S" else "F")) for k, x in v.items()]
            return (type(v).__name__, tuple(items) if isinstance(v, OrderedDict) else tuple(sorted(items)))
        if isinstance(v, (list, tuple)):
            return (type(v).__name__, tuple(d(x, "X" if lim == "S" else "F") for x in v))
        if isinstance(v, Copyable):
            return (X.qual(type(v)), tuple(sorted(
                (k, d(x, ("X" if lim == "S" else _by_design(v, k)) if own else "F")) for k, x in v.__dict__.items()
                if skip is None or not skip(k))))
        if isinstance(v, (set, frozenset)):
            return ("set", tuple(sorted(repr(x) for x in v)))
        if isinstance(v, X.IMM_TYPES):
            if callable(v) and not isinstance(v, type):
                return ("callable", id(v))
            return ("imm", type(v).__name__, repr(v))
        return ("other", type(v).__name__, id(v))

    return d(o, "F")


def _writeable_base(a):
    b = a
    while isinstance(b, np.ndarray) and not b.flags.writeable:
        b = b.base
    return b if isinstance(b, np.ndarray) and b.size else None


def _poke(cell, through_base=True):
    """mutate one cell in place; returns an undo closure (None if the cell cannot be written)"""
    import scipy.sparse as sp
    if cell[0] == "B":
        v = cell[1]
        # a read-only VIEW is written through the first writeable array of its `.base` chain (PCAModel._mean is a
        # read-only view of template_instance.points: not writing it would hide a copy that shares it)
        arrs = [w for w in ((a if a.flags.writeable or not through_base else _writeable_base(a))
                            for a in _bufs(v) if a.size) if w is not None and w.flags.writeable]
        if sp.issparse(v):
            arrs = [v.data] if v.data.size else []
        if not arrs:
            return None
        saved = [a.copy() for a in arrs]
        for a in arrs:
            if a.dtype == bool:
                np.logical_not(a, out=a)
            else:
                a += 1
        return lambda: [np.copyto(a, s) for a, s in zip(arrs, saved)]
    kind, obj = cell[1], cell[3]
    if kind == "D":
        obj["__verif__"] = 1
        return lambda: obj.pop("__verif__")
    if kind == "L" and isinstance(obj, list):
        obj.append(None)
        return lambda: obj.pop()
    if kind.startswith("O:"):
        obj.__dict__["__verif__"] = 1
        return lambda: obj.__dict__.pop("__verif__")
    return None


def _shape_for(rng, d, n=None):
    from menpo.shape import PointCloud
    return PointCloud(X._pts(rng, n or 4, d))


def mutators(o, rng):
    """public mutating operations applicable to `o`: list of (name, thunk)"""
    from menpo.shape import PointCloud
    from menpo.image import Image, MaskedImage, BooleanImage
    from menpo.landmark import LandmarkManager
    from menpo.landmark.base import Landmarkable
    import menpo.transform as T
    from menpo.transform.base.alignment import Alignment
    from menpo.model import LinearVectorModel, PCAVectorModel, PCAModel
    ms = []
    if isinstance(o, Landmarkable):
        d = o.n_dims
        ms.append(("landmarks.set", lambda: o.landmarks.__setitem__("zz", _shape_for(rng, d))))
        if o.has_landmarks:
            k0 = o.landmarks.group_labels[0]
            ms.append(("landmarks.edit", lambda: o.landmarks[k0].points.__iadd__(1.0)))
            ms.append(("landmarks.transform", lambda: o.landmarks._transform_inplace(lambda x: x + 0.5)))
            ms.append(("landmarks.del", lambda: o.landmarks.__delitem__(k0)))
        ms.append(("landmarks.assign", lambda: setattr(o, "landmarks", X.add_landmarks(
            rng, _shape_for(rng, d), d).landmarks)))
    if isinstance(o, PointCloud):
        ms.append(("from_vector_inplace", lambda: o._from_vector_inplace(o.as_vector() + 1.0)))
        ms.append(("transform_inplace", lambda: o._transform_inplace(lambda x: x * 2.0)))
        ms.append(("apply_inplace", lambda: T.Translation(np.ones(o.n_dims))._apply_inplace(o)))
    if isinstance(o, Image) and not isinstance(o, BooleanImage):
        ms.append(("from_vector_inplace", lambda: o._from_vector_inplace(o.as_vector() + 0.25)))
        ms.append(("from_vector_inplace.nocopy", lambda: o._from_vector_inplace(o.as_vector() + 0.25, copy=False)))
    if isinstance(o, MaskedImage):
        ms.append(("set_masked_pixels", lambda: o.set_masked_pixels(o.masked_pixels() + 0.5)))
        ms.append(("mask.edit", lambda: o.mask.pixels.__setitem__((0,) + (0,) * o.n_dims, False)))
        ms.append(("set_masked_pixels.nocopy", lambda: o.set_masked_pixels(o.masked_pixels() + 0.5, copy=False)))
    if isinstance(o, LandmarkManager):
        d = o.n_dims or 2
        ms.append(("set", lambda: o.__setitem__("zz", _shape_for(rng, d))))
        if o.n_groups:
            k0 = o.group_labels[0]
            ms.append(("edit", lambda: o[k0].points.__iadd__(1.0)))
            ms.append(("transform", lambda: o._transform_inplace(lambda x: x + 0.5)))
            ms.append(("del", lambda: o.__delitem__(k0)))
    if isinstance(o, T.Homogeneous):
        ms.append(("from_vector_inplace", lambda: o._from_vector_inplace(o.as_vector() * 0.5 + 0.25)))
        ms.append(("compose_before_inplace", lambda: o.compose_before_inplace(o.copy())))
        ms.append(("compose_after_inplace", lambda: o.compose_after_inplace(o.copy())))
        ms.append(("compose_after_from_vector_inplace",
                   lambda: o.compose_after_from_vector_inplace(o.as_vector() * 0.5 + 0.125)))
        if hasattr(o, "set_rotation_matrix"):
            ms.append(("set_rotation_matrix", lambda: o.set_rotation_matrix(o.rotation_matrix.T.copy())))
    if isinstance(o, Alignment):
        ms.append(("set_target", lambda: o.set_target(PointCloud(o.target.points + 0.5))))
    if isinstance(o, T.ThinPlateSplines) or type(o).__name__.endswith("PWA"):
        ms.append(("apply", lambda: o.apply(o.source.points[:2] * 0.5 + o.source.points[1:3] * 0.5)))
    if isinstance(o, T.TransformChain):
        ms.append(("compose_before_inplace", lambda: o.compose_before_inplace(T.Translation([1.0, 1.0]))))
        ms.append(("compose_after_inplace", lambda: o.compose_after_inplace(T.Translation([2.0, 1.0]))))
    if isinstance(o, LinearVectorModel):
        ms.append(("orthonormalize_inplace", lambda: o.orthonormalize_inplace()))
        ms.append(("components.edit", lambda: o.components.__imul__(2.0)))
        ms.append(("components.set", lambda: setattr(o, "components", o.components * 2.0)))
        if o.n_features >= o.n_components + 1:
            ms.append(("orthonormalize_against_inplace", lambda: o.orthonormalize_against_inplace(
                LinearVectorModel(np.arange(1.0, o.n_features + 1.0)[None, :] / o.n_features))))
    if isinstance(o, PCAVectorModel):
        ms.append(("trim_components", lambda: o.trim_components(max(1, o.n_components - 1))))
        ms.append(("n_active_components", lambda: setattr(o, "n_active_components", 1)))
        if isinstance(o, PCAModel):
            ms.append(("increment", lambda: o.increment([o.template_instance.copy(), o.mean()])))
            ms.append(("template.edit", lambda: o.template_instance.landmarks.__setitem__(
                "zz", _shape_for(rng, o.template_instance.n_dims))))
        else:
            ms.append(("increment", lambda: o.increment(np.vstack([o.mean() + 1.0, o.mean() - 0.5]))))
    return ms


def _make(ctx, label, rng, rp):
    """a populated instance, or None when the tree under test cannot build one (its constructors use copy() and the
    mutators themselves): never a crash of the harness - the case is recorded as a broken tie, so that the directed
    search runs and the run ends in a VIOLATION line"""
    try:
        return X.make(label, rng)
    except Exception as e:  # noqa: BLE001  (whatever the implementation raises)
        ctx.count("unbuildable:" + label)
        if sum(1 for m in ctx.mismatches if m[0] == "build") < 5:
            ctx.mismatch("build", "a populated %s could not be built on this tree: %r" % (label, e), rp)
        return None


def check_object(ctx, label, obj_seed, model_lines=None, cid=None, thorough_pokes=True):
    """one Part-A case on the real code; returns (impl_entries, enc_o, root_o) for the correspondence or None"""
    rng = random.Random(obj_seed)
    rp = {"part": "copy", "label": label, "obj_seed": obj_seed,
          "python": "from harness import extract_c06 as X; import random; o = X.make(%r, random.Random(%r)); c = o.copy()"
                    % (label, obj_seed)}
    o = _make(ctx, label, rng, rp)
    if o is None:
        return None
    cls = type(o).__name__
    site = "C06/copy/" + cls
    ctx.count("class:" + cls)
    d0 = digest(o)
    try:
        c = o.copy()
    except Exception as e:
        ctx.fail(site, "copy-raises:" + type(e).__name__, "%s.copy() raised %r" % (cls, e), rp)
        return None
    ctx.check(type(c) is type(o), site, "class-changed", "copy is a %s" % type(c).__name__, rp)
    ctx.check(digest(o) == d0, site, "original-changed", "copy() changed the state of the original", rp)
    dc = digest(c)
    if dc != d0:
        if digest(c, skip=_is_cache_attr) == digest(o, skip=_is_cache_attr):
            # only memo attributes differ (a copy() that resets a cache): not state the property names - reported as
            # a difference from the model (which copies every attribute), not as a violation
            ctx.mismatch("copy.memo", "the copy of a %s differs from the original only in private memo attributes"
                         % cls, rp)
        else:
            ctx.fail(site, "not-equal", "the copy's observable state differs from the original's", rp)
    enc_o, root_o = X.encode(o)
    enc_c, root_c = X.encode(c)
    shared = sharing_map(enc_o, enc_c)
    ent = entries(enc_c, root_c, shared)
    n_mut = sum(1 for c_ in enc_o.cells)
    ctx.count("cells:%s" % ("40+" if n_mut >= 40 else "%d-%d" % (10 * (n_mut // 10), 10 * (n_mut // 10) + 9)))
    for path, flag in sorted(ent.items()):
        if flag.startswith("old") and not flag.endswith(":X"):
            i = int(flag[3:].split(":")[0])
            ctx.fail(site, "shared:" + _generic_path(path),
                     "after c = o.copy(), c%s is (or shares memory with) o%s" % (path[1:].replace("/", "."), enc_o.paths[i]),
                     dict(rp, copy_path=path, original_path=enc_o.paths[i]))
    # write-through: every cell reachable from the original (shared-by-design ones included) vs the copy's own state
    own_c = digest(c, own=True)
    for i, cell in enumerate(enc_o.cells):
        undo = _poke(cell)
        if undo is None:
            continue
        try:
            same = digest(c, own=True) == own_c
        finally:
            undo()
        ctx.count("poke")
        if not same:
            ctx.fail(site, "write-visible:" + _generic_path(enc_o.paths[i]),
                     "writing into o%s changed the copy" % enc_o.paths[i], dict(rp, written="o" + enc_o.paths[i]))
    # every cell the copy owns vs the original's full state
    owned = _owned_cells(enc_c, root_c)
    for j in sorted(owned):
        undo = _poke(enc_c.cells[j])
        if undo is None:
            continue
        try:
            same = digest(o) == d0
        finally:
            undo()
        ctx.count("poke")
        if not same:
            ctx.fail(site, "write-visible:" + _generic_path(enc_c.paths[j]),
                     "writing into c%s changed the original" % enc_c.paths[j], dict(rp, written="c" + enc_c.paths[j]))
    ctx.check(digest(c) == dc and digest(o) == d0, "C06/harness", "undo-failed", "write-through undo failed", rp)
    # public mutators, alternating sides
    sides = [o, c]
    try:
        names_o = [name for name, _ in mutators(o, rng)]
        dict(mutators(c, random.Random(0)))
    except Exception as e:  # noqa: BLE001  a public observer (has_landmarks, n_dims, group_labels ...) raised
        ctx.fail(site, "observer-raises:" + type(e).__name__,
                 "a public observer of the %s raised %r after copy()" % (cls, e), rp)
        return ent, enc_o, root_o
    for name in names_o:
        k = rng.randrange(2)
        a, b = sides[k], sides[1 - k]
        before = digest(b)
        ms = dict(mutators(a, rng))
        if name not in ms:
            continue
        try:
            ms[name]()
        except Exception:  # noqa: BLE001
            ctx.count("mutator-raised:" + name)
            continue
        ctx.count("mutator:" + name)
        if digest(b) != before:
            ctx.fail(site, "mutator-visible:" + name,
                     "%s on the %s changed the %s" % (name, ["original", "copy"][k], ["copy", "original"][k]),
                     dict(rp, mutator=name, side=["original", "copy"][k]))
    return ent, enc_o, root_o


def _owned_cells(enc, root):
    out = set()

    def go(val, lim):
        if val[0] == "i" or lim == "X":
            return
        j = val[1]
        out.add(j)
        cell = enc.cells[j]
        if cell[0] == "N":
            for name, v in cell[2]:
                go(v, _child_lim(cell, lim, name))

    go(root, "F")
    return out


def _generic_path(path):
    """access path with container keys / indices blanked: stable `pattern` for known-findings"""
    import re
    p = re.sub(r"\[[^\]]*\]", "[*]", path)
    p = re.sub(r"/k[^/]*", "/*", p)
    return re.sub(r"/\d+", "/*", p)


def compare_model(ctx, reply, ent, rp, label):
    if reply.startswith("err") or reply == "bad-op":
        ctx.mismatch("copy", "model answers %r where the implementation copied a %s" % (reply, label), rp)
        return
    parts = reply.split()
    flags = dict(p.split("=", 1) for p in parts[1:7])
    model_ent = dict(p.split("=", 1) for p in parts[7:])
    if flags.get("wt") != "1":
        ctx.mismatch("conforms", "a live %s does not conform to the regenerated attribute-kind table "
                                 "(hypothesis of copy_independent)" % label, rp)
    if flags.get("closed") != "1" or flags.get("ord") != "1":
        ctx.mismatch("closed", "harness produced an unclosed / unordered heap", rp)
    if flags.get("pyd") != "1":
        ctx.mismatch("distinct-keys", "a live %s (or its model copy) has a dict / __dict__ with repeated keys "
                                      "(hypothesis PyDict of srcCopyObj_eq)" % label, rp)
    if model_ent != ent:
        diff = sorted(set(model_ent.items()) ^ set(ent.items()))[:6]
        ctx.mismatch("sharing-graph", "model and implementation sharing graphs differ for %s: %r" % (label, diff),
                     dict(rp, model=sorted(model_ent.items())[:40], implementation=sorted(ent.items())[:40]))


# ============================================================================= part B: landmark managers

NAMES = ["a", "left eye", "é中", "g_3", ""]


def shape_from(cls, pts):
    """a shape of class SHAPE_KINDS[cls] on the given integer points"""
    from menpo.shape import (PointCloud, TriMesh, ColouredTriMesh, PointUndirectedGraph, PointDirectedGraph,
                             PointTree, LabelledPointUndirectedGraph)
    n = len(pts)
    p = np.array(pts, dtype=float)
    k = X.SHAPE_KINDS[cls]
    tl = np.array([[i, i + 1, i + 2] for i in range(n - 2)]) if n >= 3 else np.zeros((0, 3), dtype=int)
    edges = np.array([[i, i + 1] for i in range(n - 1)])
    if k == "PointCloud" or n < 3:
        return PointCloud(p)
    if k == "TriMesh":
        return TriMesh(p, tl)
    if k == "ColouredTriMesh":
        return ColouredTriMesh(p, tl, np.full((n, 3), 0.5))
    if k == "TexturedTriMesh":
        from menpo.shape import TexturedTriMesh
        from menpo.image import Image
        return TexturedTriMesh(p, np.full((n, 2), 0.5), Image(np.zeros((1, 2, 2))), tl)
    if k == "PointUndirectedGraph":
        return PointUndirectedGraph.init_from_edges(p, edges)
    if k == "PointDirectedGraph":
        return PointDirectedGraph.init_from_edges(p, edges)
    if k == "PointTree":
        return PointTree.init_from_edges(p, edges, 0)
    adj = np.zeros((n, n), dtype=int)
    for i in range(n - 1):
        adj[i, i + 1] = adj[i + 1, i] = 1
    return LabelledPointUndirectedGraph.init_from_indices_mapping(
        p, adj, OrderedDict([("all", list(range(n))), ("head", [0])]))


def cls_index(s):
    q = type(s).__name__
    return X.SHAPE_KINDS.index(q) if q in X.SHAPE_KINDS else 99


def obs_shape(s):
    return (cls_index(s), s.n_dims, tuple(int(v) if float(v).is_integer() else float(v) for v in s.points.ravel()))


def fmt_shape(t):
    return "%d:%d:%s" % (t[0], t[1], ",".join(str(v) for v in t[2]))


class Real:
    """the implementation side of a history"""

    def __init__(self):
        self.mgrs, self.owners, self.owner_mgr, self.exts = [], [], [], []

    def ref(self, r):
        if r[0] == "m":
            return self.mgrs[r[1]] if r[1] < len(self.mgrs) else None
        if r[1] < len(self.owners):
            return self.owners[r[1]].landmarks
        return None

    def dump(self):
        ms = ["M%d[%s]" % (i, ";".join("%d=%s" % (NAMES.index(k), fmt_shape(obs_shape(v))) for k, v in m.items()))
              for i, m in enumerate(self.mgrs)]
        es = ["E%d[%s]" % (i, fmt_shape(obs_shape(e))) for i, e in enumerate(self.exts)]
        os_ = ["O%d[%d:M%d]" % (i, o.n_dims, self.owner_mgr[i]) for i, o in enumerate(self.owners)]
        return " ".join(ms + es + os_)


class Ref:
    """value-semantics reference written from the property text: a manager is an insertion-ordered map from names
    to *values*; set / assign / copy snapshot values; only an edit through a manager changes that manager"""

    def __init__(self):
        self.mgrs, self.owners, self.exts = [], [], []

    def mref(self, r):
        if r[0] == "m":
            return r[1] if r[1] < len(self.mgrs) else None
        return self.owners[r[1]][1] if r[1] < len(self.owners) else None

    def dump(self):
        ms = ["M%d[%s]" % (i, ";".join("%d=%s" % (k, fmt_shape(v)) for k, v in m.items()))
              for i, m in enumerate(self.mgrs)]
        es = ["E%d[%s]" % (i, fmt_shape(e)) for i, e in enumerate(self.exts)]
        os_ = ["O%d[%d:M%d]" % (i, d, m) for i, (d, m) in enumerate(self.owners)]
        return " ".join(ms + es + os_)


def shift(t, d):
    return (t[0], t[1], tuple(v + d for v in t[2]))


def op_tokens(op):
    def ref(r):
        return "%s%d" % r

    def key(k):
        return "N" if k is None else str(k)
    t = op[0]
    if t == "NM":
        return ["NM"]
    if t == "NO":
        return ["NO", str(op[1])]
    if t == "NE":
        return ["NE", str(op[1]), str(op[2]), str(len(op[3]))] + [str(v) for v in op[3]]
    if t == "S":
        a = op[3]
        return ["S", ref(op[1]), key(op[2]), "w" if a[0] == "w" else "%s%d" % a]
    if t in ("G", "D"):
        return [t, ref(op[1]), key(op[2])]
    if t in ("K", "C"):
        return [t, ref(op[1])]
    if t == "A":
        return ["A", str(op[1]), ref(op[2])]
    if t == "CO":
        return ["CO", str(op[1])]
    if t == "ME":
        return ["ME", str(op[1]), str(op[2])]
    if t == "MG":
        return ["MG", ref(op[1]), key(op[2]), str(op[3])]
    if t == "X":
        return ["X", ref(op[1]), str(op[2])]
    if t == "IM":
        return ["IM", ref(op[1]), str(len(op[3]))] + [str(x) for x in op[3]]
    if t == "N":
        return ["N", ref(op[1])]
    raise ValueError(op)


GLOBS = ["*", "a*", "?", "[ag]*", "*e*", "g_?", "", "* *", "[!a]*"]


def _sel_for(glob):
    """which names the glob accepts: `fnmatch` is library code, its verdicts are an input of the model"""
    import fnmatch
    return tuple(i for i, nm in enumerate(NAMES) if fnmatch.fnmatch(nm, glob))


def _glob_for(sel):
    for g in GLOBS:
        if _sel_for(g) == tuple(sel):
            return g
    raise ValueError(sel)


def gen_history(rng, n_ops):
    """random history.  A light simulation (manager -> {key: dim}) keeps references valid and aims most reads,
    deletions and edits at groups that exist; an operation naming something that does not exist is answered
    `bad-ref` by the model and skipped on the implementation (never a finding)."""
    ops = []
    mg, owners, ext_d = [], [], []     # manager -> OrderedDict key -> dim ; owner -> [dim, mgr] ; ext -> dim

    def ref():
        if owners and (not mg or rng.random() < 0.4):
            o = rng.randrange(len(owners))
            return ("o", o), owners[o][1]
        i = rng.randrange(len(mg))
        return ("m", i), i

    def key(mi, want_existing):
        r = rng.random()
        if r < 0.12:
            return None
        ks = list(mg[mi])
        if ks and want_existing and r < 0.85:
            return rng.choice(ks)
        return rng.randrange(3) if r < 0.8 else rng.randrange(len(NAMES))

    def new_ext(d0):
        d = d0 if rng.random() < 0.75 else 5 - d0
        npts = rng.randint(1, 4)
        ops.append(("NE", rng.randrange(len(X.SHAPE_KINDS)) if npts >= 3 else 0, d,
                    tuple(rng.randint(-9, 9) for _ in range(npts * d))))
        ext_d.append(d)

    def mdim(m):
        return next(iter(m.values())) if m else None

    d0 = rng.choice([2, 2, 3])
    ops.append(("NM",)); mg.append(OrderedDict())
    ops.append(("NO", d0)); mg.append(OrderedDict()); owners.append([d0, len(mg) - 1])
    new_ext(d0); new_ext(d0)
    while len(ops) < n_ops:
        r = rng.random()
        if r < 0.05:
            ops.append(("NM",)); mg.append(OrderedDict())
        elif r < 0.09:
            d = rng.choice([2, 2, 3])
            ops.append(("NO", d)); mg.append(OrderedDict()); owners.append([d, len(mg) - 1])
        elif r < 0.17:
            new_ext(d0)
        elif r < 0.42:
            rf, mi = ref()
            a = rng.random()
            arg = ("e", rng.randrange(len(ext_d))) if a < 0.86 else (("g", rng.choice([2, 3])) if a < 0.94 else ("w",))
            k = key(mi, rng.random() < 0.3)
            ops.append(("S", rf, k, arg))
            if k is not None and arg[0] == "e" and (mdim(mg[mi]) in (None, ext_d[arg[1]])):
                mg[mi][k] = ext_d[arg[1]]
        elif r < 0.52:
            rf, mi = ref()
            ops.append(("G", rf, key(mi, True)))
        elif r < 0.60:
            rf, mi = ref()
            k = key(mi, True)
            ops.append(("D", rf, k))
            mg[mi].pop(k, None)
        elif r < 0.62:
            ops.append(("K", ref()[0]))
        elif r < 0.64:
            g = rng.choice(GLOBS)
            ops.append(("IM", ref()[0], g, _sel_for(g)))
        elif r < 0.65:
            ops.append(("N", ref()[0]))
        elif r < 0.71:
            rf, mi = ref()
            ops.append(("C", rf)); mg.append(OrderedDict(mg[mi]))
        elif r < 0.78:
            o = rng.randrange(len(owners))
            rf, mi = ref()
            ops.append(("A", o, rf))
            if mdim(mg[mi]) in (None, owners[o][0]):
                mg.append(OrderedDict(mg[mi])); owners[o][1] = len(mg) - 1
        elif r < 0.82:
            o = rng.randrange(len(owners))
            ops.append(("CO", o)); mg.append(OrderedDict(mg[owners[o][1]])); owners.append([owners[o][0], len(mg) - 1])
        elif r < 0.90:
            ops.append(("ME", rng.randrange(len(ext_d)), rng.randint(1, 5)))
        elif r < 0.96:
            rf, mi = ref()
            ops.append(("MG", rf, key(mi, True), rng.randint(1, 5)))
        else:
            ops.append(("X", ref()[0], rng.randint(1, 5)))
    return ops


def _bad_ref(op, W):
    for x in op[1:]:
        if isinstance(x, tuple) and len(x) == 2 and x[0] in ("m", "o", "e"):
            n = {"m": len(W.mgrs), "o": len(W.owners), "e": len(W.exts)}[x[0]]
            if x[1] >= n:
                return True
    if op[0] in ("A", "CO") and op[1] >= len(W.owners):
        return True
    if op[0] == "ME" and op[1] >= len(W.exts):
        return True
    return False


def _exc_kind(e):
    return {ValueError: "ValueError", KeyError: "KeyError", AttributeError: "AttributeError"}.get(type(e), type(e).__name__)


MODEL_ERR_TYPE = {"bad-ref": "bad-ref", "none-key": "ValueError", "dim-mismatch": "ValueError", "not-pointcloud": "ValueError",
                  "ambiguous-none": "ValueError", "missing-key": "KeyError", "attr": "AttributeError"}


def run_history(ctx, ops, seed_for_owner=0):
    """run one history on the real classes and on the reference; returns the per-op implementation blocks in the
    driver's format (reply with the exception *type*) for the correspondence"""
    from menpo.landmark import LandmarkManager
    from menpo.shape import PointCloud
    from menpo.image import Image
    W, R = Real(), Ref()
    blocks = []
    rp = {"part": "manager", "ops": [list(op_tokens(op)) for op in ops], "names": NAMES,
          "owner_seed": seed_for_owner}
    orng = random.Random(seed_for_owner)
    for step_i, op in enumerate(ops):
        t = op[0]
        site = "C06/manager/" + t
        rp_i = dict(rp, failing_step=step_i)
        got, want = None, None
        try:
            if _bad_ref(op, W):
                got, want = "err:bad-ref", "refused"    # not a finding: the op names something that does not exist
            elif t == "NM":
                W.mgrs.append(LandmarkManager()); got = "idx:%d" % (len(W.mgrs) - 1)
                R.mgrs.append(OrderedDict()); want = got
            elif t == "NO":
                d = op[1]
                if orng.random() < 0.5:
                    ow = PointCloud(np.zeros((3, d)))
                else:
                    ow = Image(np.zeros((1,) + (2,) * d))
                W.owners.append(ow); W.mgrs.append(ow.landmarks); W.owner_mgr.append(len(W.mgrs) - 1)
                got = "idx:%d" % (len(W.owners) - 1)
                R.mgrs.append(OrderedDict()); R.owners.append((d, len(R.mgrs) - 1)); want = got
            elif t == "NE":
                d = op[2]
                pts = [op[3][i:i + d] for i in range(0, len(op[3]), d)]
                s = shape_from(op[1], pts)
                W.exts.append(s); got = "idx:%d" % (len(W.exts) - 1)
                R.exts.append(obs_shape(s)); want = got
            elif t == "S":
                lm, mi, k, a = W.ref(op[1]), R.mref(op[1]), op[2], op[3]
                name = None if k is None else NAMES[k]
                if a[0] == "e":
                    val = W.exts[a[1]]
                elif a[0] == "g":
                    val = Image(np.zeros((1,) + (2,) * a[1]))
                else:
                    val = np.zeros(3)
                # reference: refuse None key, non-shapes, a second dimensionality
                m = R.mgrs[mi]
                ok = (k is not None and a[0] == "e" and
                      (len(m) == 0 or next(iter(m.values()))[1] == R.exts[a[1]][1]))
                # replacing the ONLY group by a shape of another dimensionality leaves one dimensionality for all
                # groups whichever way it is decided: the text allows both the refusal and the replacement
                either = (not ok and k is not None and a[0] == "e" and list(m.keys()) == [k])
                want = "ok" if ok else "refused"
                if ok:
                    m[k] = R.exts[a[1]]
                try:
                    lm[name] = val
                    got = "ok"
                    if either:
                        ctx.count("sole-group-replaced-with-other-dimensionality")
                        want = "ok"
                        m[k] = R.exts[a[1]]
                    if a[0] == "e":
                        st = lm[name]
                        ctx.check(st is not val and not np.shares_memory(st.points, val.points), site, "stored-alias",
                                  "the manager stores the caller's object (or its points buffer)", rp_i)
                except Exception as e:
                    got = "err:" + _exc_kind(e)
            elif t == "G":
                lm, mi, k = W.ref(op[1]), R.mref(op[1]), op[2]
                m = R.mgrs[mi]
                if k is None:
                    want = "shape:" + fmt_shape(next(iter(m.values()))) if len(m) == 1 else "refused"
                else:
                    want = "shape:" + fmt_shape(m[k]) if k in m else "refused"
                try:
                    got = "shape:" + fmt_shape(obs_shape(lm[None if k is None else NAMES[k]]))
                except Exception as e:
                    got = "err:" + _exc_kind(e)
            elif t == "D":
                lm, mi, k = W.ref(op[1]), R.mref(op[1]), op[2]
                m = R.mgrs[mi]
                want = "ok" if (k is not None and k in m) else "refused"
                if want == "ok":
                    del m[k]
                try:
                    del lm[None if k is None else NAMES[k]]
                    got = "ok"
                except Exception as e:
                    got = "err:" + _exc_kind(e)
            elif t == "K":
                lm, mi = W.ref(op[1]), R.mref(op[1])
                ks = [NAMES.index(x) for x in lm]
                # consistency of the views among themselves is not in the property text (the order itself is judged by
                # `outcome` below): a difference is a correspondence observation, not a violation
                if not (ks == [NAMES.index(x) for x in lm.group_labels] == [NAMES.index(x) for x in lm.keys()]
                        and len(lm) == lm.n_groups == len(ks)):
                    ctx.mismatch("manager.key-views", "iteration, group_labels, keys() and len() disagree", rp_i)
                nd = lm.n_dims
                if (nd is None) != (len(ks) == 0):
                    ctx.mismatch("manager.n_dims-none", "n_dims is None iff empty does not hold", rp_i)
                got = "keys:" + ",".join(str(x) for x in ks)
                want = "keys:" + ",".join(str(x) for x in R.mgrs[mi])
            elif t == "IM":
                lm, mi, glob, sel = W.ref(op[1]), R.mref(op[1]), op[2], op[3]
                items = list(lm.items_matching(glob))
                if [k for k, _ in items] != list(lm.keys_matching(glob)):
                    ctx.mismatch("manager.keys-items", "keys_matching and items_matching disagree for %r" % glob, rp_i)
                if not all(v is lm[k] for k, v in items):     # identity of the yielded objects: not in the text
                    ctx.mismatch("manager.items-identity", "items_matching yields objects other than the stored "
                                 "groups", rp_i)
                got = "items:" + ";".join("%d=%s" % (NAMES.index(k), fmt_shape(obs_shape(v))) for k, v in items)
                want = "items:" + ";".join("%d=%s" % (k, fmt_shape(v)) for k, v in R.mgrs[mi].items() if k in sel)
            elif t == "N":
                lm, mi = W.ref(op[1]), R.mref(op[1])
                m = R.mgrs[mi]
                nd = lm.n_dims
                if not (lm.n_groups == len(lm) == len(list(lm))):
                    ctx.mismatch("manager.counts", "n_groups, len() and iteration disagree", rp_i)
                if op[1][0] == "o":
                    ow = W.owners[op[1][1]]
                    if not (ow.has_landmarks == lm.has_landmarks and ow.n_landmark_groups == lm.n_groups):
                        ctx.mismatch("manager.owner-counts", "owner.has_landmarks / n_landmark_groups disagree with "
                                     "the manager", rp_i)
                got = "count:%d:%d:%s" % (lm.n_groups, 1 if lm.has_landmarks else 0, "-" if nd is None else nd)
                want = "count:%d:%d:%s" % (len(m), 1 if m else 0, next(iter(m.values()))[1] if m else "-")
            elif t == "C":
                lm, mi = W.ref(op[1]), R.mref(op[1])
                W.mgrs.append(lm.copy()); got = "idx:%d" % (len(W.mgrs) - 1)
                R.mgrs.append(OrderedDict(R.mgrs[mi])); want = got
            elif t == "A":
                ow, lm, mi = W.owners[op[1]], W.ref(op[2]), R.mref(op[2])
                m = R.mgrs[mi]
                ok = len(m) == 0 or next(iter(m.values()))[1] == R.owners[op[1]][0]
                want = "ok" if ok else "refused"
                if ok:
                    R.mgrs.append(OrderedDict(m)); R.owners[op[1]] = (R.owners[op[1]][0], len(R.mgrs) - 1)
                try:
                    ow.landmarks = lm
                    got = "ok"
                    ctx.check(ow.landmarks is not lm, site, "stored-alias",
                              "the owner holds the assigned manager itself, not a copy", rp_i)
                    W.mgrs.append(ow.landmarks); W.owner_mgr[op[1]] = len(W.mgrs) - 1
                except Exception as e:
                    got = "err:" + _exc_kind(e)
            elif t == "CO":
                ow = W.owners[op[1]]
                new = ow.copy()
                W.owners.append(new); W.mgrs.append(new.landmarks); W.owner_mgr.append(len(W.mgrs) - 1)
                got = "idx:%d" % (len(W.owners) - 1)
                d, mi = R.owners[op[1]]
                R.mgrs.append(OrderedDict(R.mgrs[mi])); R.owners.append((d, len(R.mgrs) - 1)); want = got
            elif t == "ME":
                W.exts[op[1]].points += op[2]; got = "ok"
                R.exts[op[1]] = shift(R.exts[op[1]], op[2]); want = "ok"
            elif t == "MG":
                lm, mi, k, dl = W.ref(op[1]), R.mref(op[1]), op[2], op[3]
                m = R.mgrs[mi]
                kk = (next(iter(m)) if len(m) == 1 else None) if k is None else (k if k in m else None)
                want = "ok" if kk is not None else "refused"
                if kk is not None:
                    m[kk] = shift(m[kk], dl)
                try:
                    lm[None if k is None else NAMES[k]].points += dl
                    got = "ok"
                except Exception as e:
                    got = "err:" + _exc_kind(e)
            elif t == "X":
                lm, mi, dl = W.ref(op[1]), R.mref(op[1]), op[2]
                ow = W.owners[op[1][1]] if op[1][0] == "o" else None
                if (ow is not None and isinstance(ow, PointCloud) and step_i % 2 == 0
                        and lm.n_dims in (None, ow.n_dims)):
                    # transform the owner in place: its landmarks must move with it
                    from menpo.transform import Translation
                    Translation(np.full(ow.n_dims, float(dl)))._apply_inplace(ow)
                    ctx.count("op:X.owner-apply-inplace")
                else:
                    lm._transform_inplace(lambda x, dl=dl: x + dl)
                got = "ok"
                m = R.mgrs[mi]
                for kk in list(m):
                    m[kk] = shift(m[kk], dl)
                want = "ok"
        except Exception as e:  # an operation the property says must succeed raised
            ctx.fail(site, "raises:" + type(e).__name__, "step %d (%s) raised %r" % (step_i, " ".join(op_tokens(op)), e), rp_i)
            return None
        ctx.count("op:" + t)
        if got.startswith("err:"):
            ctx.count("refused:" + t + ":" + got[4:])
        g2 = "refused" if got.startswith("err:") else got
        ctx.check(g2 == want, site, "outcome", "step %d (%s): implementation %s, the property requires %s"
                  % (step_i, " ".join(op_tokens(op)), got, want), rp_i)
        for oi, ow in enumerate(W.owners):
            if ow.landmarks is not W.mgrs[W.owner_mgr[oi]]:
                ctx.fail("C06/harness", "owner-manager-changed", "owner %d silently got another manager" % oi, rp_i)
        dw, dr = W.dump(), R.dump()
        if dw != dr:
            ctx.fail(site, "state", "after step %d (%s) the stored landmarks differ from what the history requires:"
                     " implementation %s / required %s" % (step_i, " ".join(op_tokens(op)), dw, dr), rp_i)
            return None
        blocks.append(got + " # " + dw)
    return blocks


def compare_history(ctx, reply, blocks, ops, owner_seed=0):
    mb = reply.split(" | ")
    rp = {"part": "manager", "ops": [list(op_tokens(op)) for op in ops], "names": NAMES, "owner_seed": owner_seed}
    if len(mb) != len(blocks):
        ctx.mismatch("manager", "model answered %d blocks for %d ops: %r" % (len(mb), len(blocks), reply[:200]), rp)
        return
    for i, (m, b) in enumerate(zip(mb, blocks)):
        mr, _, mw = m.partition(" # ")
        br, _, bw = b.partition(" # ")
        if mr.startswith("err:"):
            mr = "err:" + MODEL_ERR_TYPE.get(mr[4:], mr[4:])
        if mr != br or mw != bw:
            ctx.mismatch("manager." + ops[i][0], "step %d (%s): model %r vs implementation %r"
                         % (i, " ".join(op_tokens(ops[i])), m[:300], b[:300]), dict(rp, failing_step=i))
            return


def nontrivial_history(ops):
    seen_set = False
    for op in ops:
        if op[0] == "S" and op[3][0] == "e" and op[2] is not None:
            seen_set = True
        elif seen_set and op[0] in ("ME", "MG", "X", "C", "A", "CO"):
            return True
    return False


# ============================================================================= part C: heap histories

LM_QUAL = "menpo.landmark.base.LandmarkManager"
HKEYS = ["a", "b", "é中", "g 0", "zz"]
MAX_ROOTS = 5


def encode_many(roots):
    """one heap for everything reachable from the objects the caller holds (cells shared between roots once)"""
    e = X.Enc()
    vals = [e.val(o, "r%d" % i) for i, o in enumerate(roots)]
    return e, vals


def owned_paths(enc, rootval):
    """{cell index: (slot names from the root, lim)}: the cells the root owns, with the first owned access path"""
    out = {}

    def go(val, lim, names):
        if val[0] == "i" or lim == "X":
            return
        j = val[1]
        if j in out:
            return
        out[j] = (names, lim)
        cell = enc.cells[j]
        if cell[0] == "N" and lim == "F":
            for name, v in cell[2]:
                go(v, _child_lim(cell, lim, name), names + [name])

    go(rootval, "F", [])
    return out


def _sorted_slots(cell):
    return sorted(cell[2], key=lambda p: p[0]) if cell[1] != "L" else cell[2]


def real_dump(enc, rootvals):
    """canonical form of the object graph (same algorithm as `dumpWorld` in Drive/C06.lean)"""
    seen, out = {}, []

    def go(val):
        if val[0] == "i":
            out.append("i")
            return
        j = val[1]
        if j in seen:
            out.append("#%d" % seen[j])
            return
        seen[j] = len(seen)
        c = enc.cells[j]
        if c[0] == "B":
            out.append("B")
            return
        out.append(c[1] + "(")
        for name, v in _sorted_slots(c):
            out.append(name + "=")
            go(v)
        out.append(")")

    for rv in rootvals:
        out.append("/")
        go(rv)
    return "".join(out)


def _fingerprint(v):
    import scipy.sparse as sp
    if sp.issparse(v):
        c = v.tocoo()
        return ("sparse", v.shape, str(v.dtype), tuple(sorted(zip(c.row.tolist(), c.col.tolist(), c.data.tolist()))))
    return (str(v.dtype), v.shape, v.tobytes())


def snapshot(enc):
    """id(object) -> what the differ compares: array content / (kind, slots by identity)"""
    sig = {}
    for c in enc.cells:
        o = c[-1]
        if c[0] == "B":
            sig[id(o)] = ("B", _fingerprint(o))
        else:
            sig[id(o)] = ("N", c[1], tuple((n, "i" if v[0] == "i" else id(enc.cells[v[1]][-1])) for n, v in c[2]))
    return sig


def _cell_tokens(enc, c, rel):
    if c[0] == "B":
        return ["B"]
    toks = ["N", c[1], str(len(c[2]))]
    for name, v in c[2]:
        toks += [name, "i" if v[0] == "i" else "r%d" % rel[v[1]]]
    return toks


def fragment_tokens(enc, j, sig0, placed):
    """the new cells reachable from cell j, children first, as a self-contained fragment; None when it refers to
    a cell that existed before (or that another fragment already holds)"""
    order, rel = [], {}

    def go(k):
        if k in rel:
            return True
        c = enc.cells[k]
        if id(c[-1]) in sig0 or k in placed:
            return False
        if c[0] == "N":
            for _, v in c[2]:
                if v[0] == "r" and not go(v[1]):
                    return False
        rel[k] = len(order)
        order.append(k)
        return True

    if not go(j):
        return None
    placed.update(order)
    toks = [str(len(order))]
    for k in order:
        toks += _cell_tokens(enc, enc.cells[k], rel)
    return toks


def _ptoks(names):
    return [str(len(names))] + list(names)


def diff_effects(E0, sig0, own0, E1):
    """the effect a real operation had on the object graph, as a list of updates of cells the acting root owns:
    {"op": W|F|I|D, "path": slot names from the root, "x": slot, "frag": tokens, "cell": kind tag of the updated
    cell, "kind": runtime kind of the value stored}; (None, why) when the effect is not such a tree-like update
    (then: oracle only)"""
    effs, placed = [], set()
    for idx0, c0 in enumerate(E0.cells):          # children first: paths of later cells are still intact
        o = c0[-1]
        j1 = E1.ids.get(id(o))
        if j1 is None:
            continue                               # no longer reachable
        c1 = E1.cells[j1]
        if c0[0] == "B":
            if _fingerprint(o) != sig0[id(o)][1]:
                if idx0 not in own0:
                    return None, "wrote-unowned-array"
                effs.append({"op": "W", "path": own0[idx0][0], "cell": "B"})
            continue
        before = sig0[id(o)][2]
        after = tuple((n, "i" if v[0] == "i" else id(E1.cells[v[1]][-1])) for n, v in c1[2])
        if before == after:
            continue
        if idx0 not in own0 or own0[idx0][1] != "F":
            return None, "changed-unowned-cell"
        names = own0[idx0][0]
        bmap, amap = dict(before), dict(after)
        vals1 = dict(c1[2])
        for n in bmap:
            if n not in amap:
                if c0[1] != "D":
                    return None, "slot-removed"
                effs.append({"op": "D", "path": names, "x": n, "cell": c0[1]})
        for n, tgt in after:
            if n in bmap and bmap[n] == tgt:
                continue
            if tgt == "i":
                effs.append({"op": "I", "path": names, "x": n, "cell": c0[1], "kind": ("elem", "imm")})
            elif tgt in sig0:
                return None, "stores-existing-cell"
            else:
                frag = fragment_tokens(E1, E1.ids[tgt], sig0, placed)
                if frag is None:
                    return None, "fragment-not-fresh"
                effs.append({"op": "F", "path": names, "x": n, "cell": c0[1], "frag": frag,
                             "kind": X.kind_of(E1, vals1[n])})
    return effs, None


def eff_tokens(i, e):
    t = [e["op"], str(i)] + _ptoks(e["path"])
    if e["op"] != "W":
        t.append(e["x"])
    if e["op"] == "F":
        t += e["frag"]
    return t


def diff_ops(i, E0, sig0, own0, E1):
    effs, why = diff_effects(E0, sig0, own0, E1)
    if effs is None:
        return None, why
    return [eff_tokens(i, e) for e in effs], None


# mutators whose effect is, by documented design, not confined to cells the receiver owns: a chain shares its members
SHARING_MUTATORS = [("menpo.transform.base.composable.TransformChain", "compose_before_inplace"),
                    ("menpo.transform.base.composable.TransformChain", "compose_after_inplace")]


# (class, mutator) -> [ran, raised] over the instances of the last effect_table(): a listed mutator that never runs
# for a class has an empty effect row (for which mutEffects_ok says nothing), so that is reported as a broken tie
MUTATOR_RUNS = {}


def effect_table(per_class=3):
    """{(class, mutator): set of effects} observed on fresh populated instances of every class: which cells of
    the receiver's own object graph a public mutator updates and what it stores there"""
    rows = {}
    MUTATOR_RUNS.clear()
    for li, label in enumerate(X.LABELS):
        for t in range(per_class):
            seed = 7919 * (li + 1) + t
            names = [n for n, _ in mutators(X.make(label, random.Random(seed)), random.Random(seed + 1))]
            for name in names:
                o = X.make(label, random.Random(seed))
                ms = dict(mutators(o, random.Random(seed + 1)))
                if name not in ms:
                    continue
                E0, rv0 = encode_many([o])
                sig0 = snapshot(E0)
                own0 = owned_paths(E0, rv0[0])
                run = MUTATOR_RUNS.setdefault((X.qual(type(o)), name), [0, 0])
                try:
                    ms[name]()
                    run[0] += 1
                except Exception:  # noqa: BLE001  (e.g. 3-D rotations have no vector form); counted, see below
                    run[1] += 1
                E1, _ = encode_many([o])
                effs, why = diff_effects(E0, sig0, own0, E1)
                row = rows.setdefault((X.qual(type(o)), name), set())
                if effs is None:
                    row.add(("opaque", why, "", "", ("elem", "other")))
                    continue
                for e in effs:
                    cell = e["cell"]
                    cls = cell[2:] if cell.startswith("O:") else ""
                    x = e.get("x", "") if cls else ("*" if e["op"] != "W" else "")
                    row.add((e["op"], "O" if cls else cell, cls, x, e.get("kind", ("elem", "other"))
                             if e["op"] in ("F", "I") else ("elem", "other")))
    return rows


def effects_lean():
    rows = effect_table()
    opn = {"W": ".write", "F": ".fresh", "I": ".imm", "D": ".del", "opaque": ".opaque"}
    out = ["/-",
           "GENERATED by harness/c06.py (effect_table) from the live classes of the menpo working tree - do not edit.",
           "mutEffects: for every concrete Copyable class and every public mutator the harness exercises, the updates of",
           "the receiver's own object graph observed on populated instances (which kind of cell, which attribute, the",
           "runtime kind of what is stored); `opaque` = not an update of owned cells with fresh content.",
           "-/",
           "import MenpoModel.Core.C06Ops",
           "",
           "namespace MenpoModel.C06.Generated",
           "open MenpoModel.C06",
           "",
           "def mutEffects : List (String × String × List Eff) := ["]
    body = []
    for (cls, name) in sorted(rows):
        effs = ",\n".join('    ⟨%s, "%s", "%s", "%s", .%s .%s⟩' % (opn[op], cell, c, x, k[0], k[1])
                          for op, cell, c, x, k in sorted(rows[(cls, name)]))
        body.append('  ("%s", "%s", [\n%s])' % (cls, name, effs))
    out.append(",\n".join(body) + "]")
    out.append("")
    out.append("def sharingMutators : List (String × String) := [")
    out.append(",\n".join('  ("%s", "%s")' % p for p in SHARING_MUTATORS) + "]")
    out.append("")
    out.append("end MenpoModel.C06.Generated")
    obl = """
/-- every observed effect of every public mutator is an update of cells the receiver owns with freshly built
content (or the mutator is one of the documented sharing ones), and what it stores in an attribute of an object
has a runtime kind the attribute-kind table lists for that attribute: mutated objects stay inside the table -/
theorem mutEffects_ok :
    Generated.mutEffects.all (fun row => row.2.2.all
      (effOK Generated.attrKinds Generated.sharingMutators row.1 row.2.1)) = true := by decide +kernel
"""
    return "\n".join(out) + "\n", obl, {"n_rows": len(rows), "n_effects": sum(len(v) for v in rows.values())}


# (the cells of a lazily created LandmarkManager are no longer sent by the harness: op "T" makes the driver run
#  putFresh with Src.lmFrag, which GenProps/C06Src.lean proves to be what the TRANSLATED `Landmarkable.landmarks`
#  getter and `LandmarkManager.__init__` build - landmarksGetter_eq)


def _ndims(o):
    try:
        return int(o.n_dims)
    except Exception:
        return None


def run_heap_history(ctx, label, obj_seed, hist_seed, n_ops):
    """one Part-C case: returns (initial heap tokens, [(model ops, real dump after)]) for the correspondence"""
    from menpo.base import Copyable
    from menpo.landmark import LandmarkManager
    from menpo.landmark.base import Landmarkable
    from menpo.shape import PointCloud
    rng = random.Random(hist_seed)
    rp = {"part": "history", "label": label, "obj_seed": obj_seed, "hist_seed": hist_seed, "n_ops": n_ops}
    root0 = _make(ctx, label, random.Random(obj_seed), rp)
    if root0 is None:
        return [], [], False
    roots = [root0]
    keyenc = X.Enc()._key
    E, rv = encode_many(roots)
    init = [str(rv[0][1]), str(len(E.cells))]
    for c in E.cells:
        init += _cell_tokens(E, c, {k: k for k in range(len(E.cells))})
    steps, log = [], []
    seen_copy = nontrivial = False
    follow = None
    for k in range(n_ops):
        E0, rv0 = encode_many(roots)
        sig0 = snapshot(E0)
        own = [owned_paths(E0, v) for v in rv0]
        before = [digest(r, own=True) for r in roots]
        full_before = [digest(r) for r in roots]

        def objs(i, klass, lim_full=True):
            return [(idx, E0.cells[idx][3], nm) for idx, (nm, lim) in sorted(own[i].items())
                    if E0.cells[idx][0] == "N" and E0.cells[idx][1].startswith("O:") and (lim == "F" or not lim_full)
                    and isinstance(E0.cells[idx][3], klass)]

        i = rng.randrange(len(roots))
        r = rng.random()
        kind = ("copy" if r < 0.18 else "write" if r < 0.38 else "rebind" if r < 0.46 else "mutator" if r < 0.66
                else "mgr-set" if r < 0.78 else "mgr-del" if r < 0.82 else "mgr-mixin" if r < 0.88
                else "touch" if r < 0.90 else "lm-assign")
        if not seen_copy and k >= 1 and rng.random() < 0.5:
            kind = "copy"
        if kind == "copy" and len(roots) >= MAX_ROOTS:
            kind = "write"
        want_write = None
        if follow is not None and rng.random() < 0.6:
            # "group then mutated": edit the value that was just assigned, through the object it belongs to
            i, kind, want_write = follow[0], "write", follow[1]
        follow = None
        actor, ops, why, desc = i, None, None, kind
        try:
            if kind == "copy":
                actor = None
                roots.append(roots[i].copy())
                ops = [["C", str(i)]]
                seen_copy = True
            elif kind == "write":
                cands = [(idx, nm) for idx, (nm, lim) in sorted(own[i].items()) if E0.cells[idx][0] == "B"]
                rng.shuffle(cands)
                if want_write is not None:
                    cands = [c_ for c_ in cands if c_[1][:len(want_write)] == want_write] or cands
                ops = []
                for idx, nm in cands:
                    if _poke(E0.cells[idx], through_base=False) is not None:
                        ops = [["W", str(i)] + _ptoks(nm)]
                        desc = "write r%d.%s" % (i, ".".join(nm))
                        break
            elif kind == "rebind":
                cands = [(idx, o, nm, a) for idx, o, nm in objs(i, Copyable) for a, v in o.__dict__.items()
                         if isinstance(v, np.ndarray) and v.dtype != object and not a.startswith("_")]
                ops = []
                if cands:
                    idx, o, nm, a = rng.choice(cands)
                    new = getattr(o, a).copy()
                    if new.dtype.kind == "f":
                        new += 0.5
                    setattr(o, a, new)
                    ops = [["F", str(i)] + _ptoks(nm) + [a, "1", "B"]]
                    desc = "rebind r%d.%s.%s" % (i, ".".join(nm), a)
            elif kind == "mutator":
                cands = objs(i, Copyable)
                ops = []
                if cands:
                    idx, o, nm = rng.choice(cands)
                    ms = mutators(o, rng)
                    if ms:
                        name, thunk = rng.choice(ms)
                        desc = "mutator %s on r%d.%s (%s)" % (name, i, ".".join(nm), type(o).__name__)
                        ctx.count("hist-mutator:" + name)
                        try:
                            thunk()
                        except Exception:
                            ctx.count("hist-mutator-raised")
                        ops = "observe"
            elif kind in ("mgr-set", "mgr-del"):
                cands = objs(i, (Landmarkable, LandmarkManager))
                ops = []
                if cands:
                    idx, t, nm = rng.choice(cands)
                    is_mgr = isinstance(t, LandmarkManager)
                    mgr_none = (not is_mgr) and t._landmarks is None
                    dpath = nm + (["_landmark_groups"] if is_mgr else ["_landmarks", "_landmark_groups"])
                    if kind == "mgr-del":
                        lm = t if is_mgr else (None if mgr_none else t.landmarks)
                        if lm is not None and lm.n_groups:
                            key = rng.choice(lm.group_labels)
                            del lm[key]
                            ops = [["D", str(i)] + _ptoks(dpath) + [keyenc(key)]]
                            desc = "del r%d.%s[%r]" % (i, ".".join(dpath), key)
                    else:
                        d = (t.n_dims or 2) if is_mgr else _ndims(t)
                        srcs = [(j, nm2, o2) for j in range(len(roots)) for _, o2, nm2 in objs(j, PointCloud, False)
                                if _ndims(o2) == d]
                        if srcs and d is not None:
                            j, nm2, src = rng.choice(srcs)
                            key = rng.choice(HKEYS)
                            lm = t if is_mgr else t.landmarks
                            try:
                                lm[key] = src
                                ops = ([["T", str(i)] + _ptoks(nm)] if mgr_none else [])
                                ops.append(["P", str(i)] + _ptoks(dpath) + [keyenc(key), str(j)] + _ptoks(nm2))
                                follow = (j, nm2)
                            except ValueError:
                                ctx.count("hist-set-refused")
                                ops = "observe"          # the lazily created manager, if any
                            desc = "r%d.%s[%r] = r%d.%s" % (i, ".".join(dpath), key, j, ".".join(nm2))
            elif kind == "mgr-mixin":
                # the mapping methods LandmarkManager inherits from MutableMapping (built on __setitem__ /
                # __getitem__ / __delitem__): update, setdefault store copies; pop, popitem, clear delete
                cands = objs(i, LandmarkManager)
                ops = []
                if cands:
                    idx, t, nm = rng.choice(cands)
                    dpath = nm + ["_landmark_groups"]
                    which = rng.choice(["update", "setdefault", "pop", "popitem", "clear"])
                    desc = "r%d.%s.%s" % (i, ".".join(nm), which)
                    d = t.n_dims
                    if which == "update":
                        srcs = [(j, nm2, o2) for j in range(len(roots)) for _, o2, nm2 in objs(j, LandmarkManager)
                                if o2.n_groups and (d is None or o2.n_dims == d) and o2 is not t
                                # a source held inside one of the target's own groups is detached by the update
                                # itself: its access path does not survive the first assignment (the model
                                # addresses operands by path), so that aliasing case is left to the oracle of "mgr-set"
                                and not (j == i and nm2[:len(nm)] == nm)]
                        if srcs:
                            j, nm2, src = rng.choice(srcs)
                            labels = list(src.group_labels)
                            t.update(src)
                            ops = [["P", str(i)] + _ptoks(dpath) + [keyenc(kk), str(j)]
                                   + _ptoks(nm2 + ["_landmark_groups", keyenc(kk)]) for kk in labels]
                            follow = (j, nm2 + ["_landmark_groups", keyenc(labels[0])])
                            desc += "(r%d.%s)" % (j, ".".join(nm2))
                    elif which == "setdefault":
                        srcs = [(j, nm2, o2) for j in range(len(roots)) for _, o2, nm2 in objs(j, PointCloud, False)
                                if d is None or _ndims(o2) == d]
                        if srcs:
                            j, nm2, src = rng.choice(srcs)
                            key = rng.choice(HKEYS)
                            had = key in t
                            t.setdefault(key, src)   # (returns the caller's object when the key was absent;
                            #                           what is stored is a copy, which is all the property asks)
                            ops = [] if had else [["P", str(i)] + _ptoks(dpath) + [keyenc(key), str(j)] + _ptoks(nm2)]
                            follow = None if had else (j, nm2)
                            desc += "(%r, r%d.%s)" % (key, j, ".".join(nm2))
                    elif t.n_groups:
                        labels = list(t.group_labels)
                        if which == "pop":
                            key = rng.choice(labels)
                            t.pop(key)
                            gone = [key]
                        elif which == "popitem":
                            gone = [t.popitem()[0]]
                        else:
                            t.clear()
                            gone = labels
                        ops = [["D", str(i)] + _ptoks(dpath) + [keyenc(kk)] for kk in gone]
                        desc += "(%s)" % ",".join(repr(kk) for kk in gone)
            elif kind == "touch":
                cands = [(idx, o, nm) for idx, o, nm in objs(i, Landmarkable) if o._landmarks is None]
                ops = []
                if cands:
                    idx, o, nm = rng.choice(cands)
                    o.landmarks
                    ops = [["T", str(i)] + _ptoks(nm)]
                    desc = "touch r%d.%s.landmarks" % (i, ".".join(nm))
            else:
                cands = objs(i, Landmarkable)
                ops = []
                if cands:
                    idx, t, nm = rng.choice(cands)
                    d = _ndims(t)
                    srcs = [(j, nm2, o2) for j in range(len(roots)) for _, o2, nm2 in objs(j, Landmarkable)
                            if o2._landmarks is not None and _ndims(o2) == d and o2._landmarks.n_dims in (None, d)]
                    if srcs and d is not None:
                        j, nm2, src = rng.choice(srcs)
                        t.landmarks = src.landmarks
                        ops = [["P", str(i)] + _ptoks(nm) + ["_landmarks", str(j)] + _ptoks(nm2 + ["_landmarks"])]
                        follow = (j, nm2 + ["_landmarks"])
                        desc = "r%d.%s.landmarks = r%d.%s.landmarks" % (i, ".".join(nm), j, ".".join(nm2))
        except Exception as e:
            ctx.fail("C06/history/" + kind, "raises:" + type(e).__name__,
                     "step %d (%s) raised %r after %s" % (k, desc, e, "; ".join(log)), dict(rp, failing_step=k))
            return init, steps, False
        try:
            encode_many(roots)
        except (X.CyclicGraph, RecursionError) as e:
            # only a stored reference to an existing object can close a cycle: every assignment must store a copy
            ctx.fail("C06/history/" + kind, "cyclic-object-graph", "step %d (%s) made an object reachable from itself "
                     "(%s): the value assigned was stored, not a copy; history: %s" % (k, desc, e, "; ".join(log + [desc])),
                     dict(rp, failing_step=k))
            return init, steps, False
        log.append(desc)
        ctx.count("hist-op:" + kind)
        site = "C06/history/" + kind
        rp_k = dict(rp, failing_step=k, steps=list(log))
        # the oracle: what was done through one object is invisible in every other one
        for j in range(len(before)):
            if j != actor and digest(roots[j], own=True) != before[j]:
                ctx.fail(site, "visible-in-other-object",
                         "step %d (%s) changed the state of r%d (%s), which it was not performed on; history: %s"
                         % (k, desc, j, type(roots[j]).__name__, "; ".join(log)), rp_k)
        if kind == "copy" and digest(roots[-1]) != full_before[i]:
            if digest(roots[-1], skip=_is_cache_attr) == digest(roots[i], skip=_is_cache_attr):
                ctx.mismatch("history.copy.memo", "step %d: the copy of r%d differs from it only in private memo "
                             "attributes" % (k, i), rp_k)
            else:
                ctx.fail(site, "not-equal",
                         "step %d: the copy of r%d differs from it; history: %s" % (k, i, "; ".join(log)), rp_k)
        E1, rv1 = encode_many(roots)
        own1 = [owned_paths(E1, v) for v in rv1]
        if kind in ("copy", "mgr-set", "lm-assign", "mutator", "mgr-mixin"):
            # no array owned by one object shares memory with an array owned by another one
            bufs = [[E1.cells[idx][1] for idx in ow if E1.cells[idx][0] == "B"] for ow in own1]
            for a in range(len(roots)):
                for b in range(a + 1, len(roots)):
                    if any(_shares(x, y) for x in bufs[a] for y in bufs[b]):
                        ctx.fail(site, "arrays-shared", "after step %d (%s) r%d and r%d own arrays that share memory; "
                                 "history: %s" % (k, desc, a, b, "; ".join(log)), rp_k)
        if ops == "observe":
            ops, why = diff_ops(i, E0, sig0, own[i], E1)
        if ops is None:
            ctx.count("hist-opaque:" + why)
            break
        if seen_copy and kind != "copy" and ops:
            nontrivial = True
        if ops:
            steps.append((ops, real_dump(E1, rv1), desc))
    return init, steps, nontrivial


def compare_hist(ctx, reply, steps, rp):
    head, _, body = reply.partition(" ")
    blocks = body.split(" | ") if body else []
    n_model_ops = sum(len(ops) for ops, _, _ in steps)
    if head != "closed=1" or len(blocks) != n_model_ops:
        ctx.mismatch("history", "model answered %r with %d blocks for %d ops" % (head, len(blocks), n_model_ops), rp)
        return
    pos = 0
    for k, (ops, dump, desc) in enumerate(steps):
        mine = blocks[pos:pos + len(ops)]
        pos += len(ops)
        bad = [b for b in mine if not b.startswith("ok ")]
        if bad:
            ctx.mismatch("history.accept", "step %d (%s): the model refuses %r: %s"
                         % (k, desc, [" ".join(o[:6]) for o in ops], bad[0][:60]), dict(rp, failing_step=k))
            return
        if not mine[-1].startswith("ok wt=1 # "):
            ctx.mismatch("history.conforms", "step %d (%s): the object graph no longer conforms to the regenerated "
                         "attribute-kind table (hypothesis of copy_independent for later copies)" % (k, desc),
                         dict(rp, failing_step=k))
            return
        mdump = mine[-1].partition(" # ")[2]
        if mdump != dump:
            ctx.mismatch("history.graph", "step %d (%s): object graphs differ: model %s / implementation %s"
                         % (k, desc, mdump[:400], dump[:400]), dict(rp, failing_step=k))
            return


def part_c(ctx, n, with_model=True):
    rng = ctx.rng
    lines, pend = [], {}
    for k in range(n):
        label = X.LABELS[k % len(X.LABELS)] if k < len(X.LABELS) else rng.choice(X.LABELS)
        obj_seed, hist_seed, n_ops = rng.randrange(1 << 30), rng.randrange(1 << 30), rng.randint(6, 14)
        init, steps, nontrivial = run_heap_history(ctx, label, obj_seed, hist_seed, n_ops)
        rp = {"part": "history", "label": label, "obj_seed": obj_seed, "hist_seed": hist_seed, "n_ops": n_ops}
        ctx.case(("hist", label, tuple(d for _, _, d in steps)), nontrivial=nontrivial,
                 sample={"part": "C", "class": label, "history": [d for _, _, d in steps][:8]} if 1 <= k < 3 else None)
        if with_model and steps:
            cid = "c%d" % k
            toks = [t for ops, _, _ in steps for op in ops for t in op]
            lines.append("%s hist %s %d %s" % (cid, " ".join(init), sum(len(o) for o, _, _ in steps), " ".join(toks)))
            pend[cid] = (steps, rp)
    return lines, pend


# ============================================================================= cache behaviour of CachedPWA copies

def check_pwa_memo(ctx, seed):
    """the one slot treated as outside the quantifier: a copy and its original may share the memo tuple; no public
    operation on one may change what the other computes"""
    rng = random.Random(seed)
    o = _make(ctx, "CachedPWA", rng, {"part": "pwa-memo", "obj_seed": seed})
    if o is None:
        return
    site = "C06/copy/CachedPWA.memo"
    p1 = np.array([[1.0, 1.0], [2.0, 2.5]])
    p2 = np.array([[0.5, 0.5], [3.0, 0.5], [1.0, 2.0]])
    r1 = o.apply(p1)
    c = o.copy()
    c.apply(p2)
    c.set_target(type(o.target)(o.target.points + 1.0))
    c.apply(p1)
    ctx.check(np.array_equal(o.apply(p1), r1), site, "memo-leak", "using the copy changed what the original computes",
              {"part": "pwa-memo", "obj_seed": seed})
    ctx.case(("pwa-memo", seed), nontrivial=True)


# ============================================================================= run / search / replay

EFF_MODULE = "MenpoModel.Generated.C06Effects"
EFF_PATH = "MenpoModel/Generated/C06Effects.lean"


def generated(ctx):
    try:
        eff_text, eff_obl, eff_notes = effects_lean()
        files, notes = X.lean_files(extra_import=EFF_MODULE, extra_obligations=eff_obl)
    except Exception as e:  # noqa: BLE001  populated instances cannot be built / copied / mutated on this tree
        import traceback
        ctx.gen_obligations += 3
        ctx.broken_obligations.append({"targets": [X.GEN_MODULE, EFF_MODULE, X.OBL_MODULE],
                                       "errors": ["table extraction from the live classes raised %r" % (e,)],
                                       "output_tail": traceback.format_exc()[-2500:]})
        ctx.notes["generated_obligation"] = "the attribute-kind / mutator-effect tables cannot be extracted: %r" % (e,)
        files, notes = None, None
    from . import trans_c06 as TR
    sfiles, reasons = TR.generated_files()
    # one `lake build` for the tables and the translated source when everything holds (the common case: one wait for
    # the build lock instead of two); on failure the two groups are built separately to say which one broke
    import os
    all_ok = False
    if files is not None:
        files[EFF_PATH] = eff_text
        for rel, text in list(files.items()) + list(sfiles.items()):
            common.write_if_changed(os.path.join(common.LEAN, rel), text)
        all_ok, _out = common.lake_build([X.GEN_MODULE, EFF_MODULE, X.OBL_MODULE] + TR.GEN_TARGETS)
    if files is not None:
        notes["mutator_effects"] = eff_notes
        never = sorted("%s.%s" % k for k, (ran, _r) in MUTATOR_RUNS.items() if ran == 0)
        notes["mutator_runs"] = {"pairs_class_mutator": len(MUTATOR_RUNS),
                                 "raised_on_some_instance": sorted(
                                     "%s.%s (%d of %d)" % (k[0].rsplit(".", 1)[-1], k[1], r, a + r)
                                     for k, (a, r) in MUTATOR_RUNS.items() if r and a),
                                 "never_ran": never}
        if never:
            ctx.mismatch("mutator-never-ran", "listed public mutators raise on every populated instance of their "
                         "class (their effect rows are empty, mutEffects_ok says nothing about them): %s"
                         % ", ".join(never), {"part": "mutator-table", "never_ran": never})
        ctx.notes["generated_tables"] = notes
        if all_ok:
            ctx.gen_obligations += 3
            ok = True
        else:
            ok = common.build_generated(ctx, files, [X.GEN_MODULE, EFF_MODULE, X.OBL_MODULE], 3)
        if not ok:
            ctx.notes["generated_obligation"] = "copyWF / copySupplier_ok no longer check against the live classes"
        if notes["missing_instances"]:
            ctx.notes["classes_without_instance"] = notes["missing_instances"]
    # the bodies of the anchored functions, TRANSLATED from the source text of the working tree (harness/trans_c06.py)
    # and proved equal to the model (GenProps/C06Src.lean)
    if all_ok:
        ctx.gen_obligations += TR.N_OBLIGATIONS
        ok_src = True
    else:
        ok_src = common.build_generated(ctx, sfiles, TR.GEN_TARGETS, TR.N_OBLIGATIONS)
    ctx._c06_src_ok = ok_src
    ctx.notes["source_translation"] = {
        "functions_translated": TR.N_FUNCTIONS - len(reasons), "untranslatable": reasons,
        "equality_obligations": TR.N_OBLIGATIONS,
        "status": "all equalities re-proved against the current source" if ok_src else
                  "BROKEN: " + ", ".join(_broken_src_theorems(ctx) or ["(the translated file does not type-check)"])}
    if not ok_src:
        ctx.notes["generated_obligation_src"] = ("the source text of the anchored functions no longer translates to "
                                                 "the model the theorems are about")


def _broken_src_theorems(ctx):
    """names of the theorems of GenProps/C06Src.lean in which the last build reported an error"""
    import os
    import re
    path = os.path.join(common.LEAN, "MenpoModel", "GenProps", "C06Src.lean")
    try:
        lines = open(path).read().splitlines()
    except OSError:
        return []
    names = []
    for b in ctx.broken_obligations:
        for m in re.finditer(r"GenProps/C06Src\.lean:(\d+):\d+", b.get("output_tail", "") + "\n".join(b.get("errors", []))):
            ln = int(m.group(1))
            for k in range(min(ln, len(lines)) - 1, -1, -1):
                mm = re.match(r"\s*(?:theorem\s+(\w+)|(example)\b)", lines[k])
                if mm:
                    nm = mm.group(1) or "a non-vacuity example"
                    if nm not in names:
                        names.append(nm)
                    break
    ctx._c06_src_broken = names
    return names


def _prepare(ctx):
    """regenerate (tables + translated source), build, audit: the theorems about the translated bodies are audited
    when their module builds (otherwise they are already reported as a broken obligation)"""
    generated(ctx)
    src_ok = getattr(ctx, "_c06_src_ok", False)
    imports = IMPORTS + ([SRC_OBL_MODULE] if src_ok else [])
    theorems = [t for t in THEOREMS if src_ok or t not in SRC_THEOREMS]
    return common.prepare_lean(ctx, PROP, imports, theorems, targets=TARGETS, generated=None)


def part_a(ctx, n, with_model=True):
    rng = ctx.rng
    lines, pend = [], {}
    for k in range(n):
        label = X.LABELS[k % len(X.LABELS)] if k < 2 * len(X.LABELS) else rng.choice(X.LABELS)
        obj_seed = rng.randrange(1 << 30)
        res = check_object(ctx, label, obj_seed)
        rp = {"part": "copy", "label": label, "obj_seed": obj_seed}
        if res is None:
            ctx.case(("copy", label, obj_seed), nontrivial=False)
            continue
        ent, enc_o, root_o = res
        shape_sig = tuple((c[0],) if c[0] == "B" else (c[1], tuple(n for n, _ in c[2])) for c in enc_o.cells)
        ctx.case(("copy", label, shape_sig), nontrivial=len(enc_o.cells) >= 2,
                 sample={"part": "A", "class": label, "cells": len(enc_o.cells),
                         "sharing_graph": dict(sorted(ent.items())[:6])} if k < 2 else None)
        if with_model:
            cid = "a%d" % k
            lines.append(cid + " copy " + " ".join(heap_tokens(enc_o, root_o)))
            pend[cid] = (ent, rp, label)
    return lines, pend


def part_b(ctx, n, with_model=True):
    rng = ctx.rng
    lines, pend = [], {}
    for k in range(n):
        ops = gen_history(rng, rng.randint(8, 40))
        blocks = run_history(ctx, ops, seed_for_owner=k)
        toks = [tk for op in ops for tk in op_tokens(op)]
        ctx.case(("lm",) + tuple(toks), nontrivial=nontrivial_history(ops),
                 sample={"part": "B", "history": " ".join(toks)[:300], "last": (blocks or ["-"])[-1][:200]}
                 if k < 2 else None)
        if blocks is not None and with_model:
            cid = "b%d" % k
            lines.append(cid + " lm " + str(len(ops)) + " " + " ".join(toks))
            pend[cid] = (blocks, ops, k)
    return lines, pend


def search(ctx):
    """directed search after a broken tie: the oracle alone on many more objects (every class, all variants) and
    histories; classes named by a broken obligation first"""
    rng = ctx.rng

    def objects():
        for k in range(40 * len(X.LABELS)):
            label = X.LABELS[k % len(X.LABELS)]
            check_object(ctx, label, rng.randrange(1 << 30))
            ctx.searched += 1
            if ctx.failures:
                return True
        return False

    def managers():
        for k in range(1500):
            ops = gen_history(rng, rng.randint(8, 40))
            run_history(ctx, ops, seed_for_owner=k)
            ctx.searched += 1
            if ctx.failures:
                return True
        return False

    def histories():
        for k in range(30 * len(X.LABELS)):
            run_heap_history(ctx, X.LABELS[k % len(X.LABELS)], rng.randrange(1 << 30), rng.randrange(1 << 30),
                             rng.randint(6, 16))
            ctx.searched += 1
            if ctx.failures:
                return True
        return False

    # a broken equality of a translated manager method (GenProps/C06Src.lean: lm…_eq, setLandmarks_eq, srcStep_eq)
    # points at the manager histories, one of the lazily created manager at the heap histories
    broken = getattr(ctx, "_c06_src_broken", [])
    if any(n.startswith(("lmInitHeap", "landmarksGetter")) for n in broken):
        phases = [histories, managers, objects]
    elif any(n.startswith(("lm", "setLandmarks", "srcStep")) for n in broken):
        phases = [managers, histories, objects]
    else:
        phases = [objects, managers, histories]
    for ph in phases:
        if ph():
            return True
    return False


def run(ctx):
    _install_cap(ctx)
    _prepare(ctx)
    ctx.trusted += ["C06 translation, what it sees: on the heap (the five copy methods, LandmarkManager.__init__, the "
                    ".landmarks getter) every .copy() / list() / constructor call is an allocation on the modelled heap "
                    "and a dropped copy does not prove equal to copyCall; on the manager world value.copy() is "
                    "'allocate an equal value' and a stored un-copied argument is a Lean type error (LM.Arg vs address); "
                    "not seen: what a shape's own copy() does (partial), the array kernels of the other mutators "
                    "(decided by the oracle's digests and the measured effect table)",
                    "harness/extract_c06.py: encoding of live object graphs as heaps and extraction of the "
                    "attribute-kind / copy-resolution tables",
                    "numpy/scipy `.copy()` of an array / sparse matrix returns fresh buffers (contract; checked on "
                    "every case by np.shares_memory)"]
    la, pa = part_a(ctx, ctx.n(600, 6000))
    lb, pb = part_b(ctx, ctx.n(500, 6000))
    lc, pc = part_c(ctx, ctx.n(250, 2500))
    for s in range(ctx.n(5, 40)):
        check_pwa_memo(ctx, ctx.rng.randrange(1 << 30))
    model = common.run_driver(PROP, la + lb + lc)
    for cid, (ent, rp, label) in pa.items():
        compare_model(ctx, model[cid], ent, rp, label)
    for cid, (blocks, ops, oseed) in pb.items():
        compare_history(ctx, model[cid], blocks, ops, oseed)
    for cid, (steps, rp) in pc.items():
        compare_hist(ctx, model[cid], steps, rp)
    return ctx.finish(search)


def replay(ctx, path):
    _install_cap(ctx)
    data = json.load(open(path))
    rp = data.get("replay") or (data.get("broken_correspondence") or [{}])[0].get("case", {})
    _prepare(ctx)
    part = rp.get("part")
    if part == "copy":
        res = check_object(ctx, rp["label"], rp["obj_seed"])
        ctx.case(("replay", rp["label"], rp["obj_seed"]))
        ctx.case(("replay2", rp["label"], rp["obj_seed"]))
        if res is not None:
            ent, enc_o, root_o = res
            model = common.run_driver(PROP, ["r copy " + " ".join(heap_tokens(enc_o, root_o))])
            print("implementation:", sorted(ent.items()))
            print("model         :", model["r"])
            compare_model(ctx, model["r"], ent, rp, rp["label"])
    elif part == "manager":
        ops = [parse_op(t) for t in rp["ops"]]
        blocks = run_history(ctx, ops, seed_for_owner=rp.get("owner_seed", 0))
        ctx.case(("replay", json.dumps(rp["ops"])))
        ctx.case(("replay2", json.dumps(rp["ops"])))
        if blocks is not None:
            toks = [tk for op in ops for tk in op_tokens(op)]
            model = common.run_driver(PROP, ["r lm %d %s" % (len(ops), " ".join(toks))])
            print("implementation:", blocks[-1])
            print("model         :", model["r"].split(" | ")[-1])
            compare_history(ctx, model["r"], blocks, ops, rp.get("owner_seed", 0))
    elif part == "history":
        init, steps, _ = run_heap_history(ctx, rp["label"], rp["obj_seed"], rp["hist_seed"], rp["n_ops"])
        ctx.case(("replay", rp["label"], rp["obj_seed"], rp["hist_seed"]))
        ctx.case(("replay2", rp["label"], rp["obj_seed"], rp["hist_seed"]))
        if steps:
            toks = [t for ops, _, _ in steps for op in ops for t in op]
            model = common.run_driver(PROP, ["r hist %s %d %s" % (" ".join(init), sum(len(o) for o, _, _ in steps),
                                                                 " ".join(toks))])
            print("implementation:", [d for _, _, d in steps])
            print("model         :", [b[:40] for b in model["r"].split(" | ")])
            compare_hist(ctx, model["r"], steps, rp)
    elif part == "pwa-memo":
        check_pwa_memo(ctx, rp["obj_seed"])
        ctx.case(("replay2", rp["obj_seed"]))
    else:
        print("replay file carries no C06 case (a broken regenerated obligation has no input); re-running the check")
        return run(ctx)
    return ctx.finish(None)


def parse_op(t):
    def ref(s):
        return (s[0], int(s[1:]))

    def key(s):
        return None if s == "N" else int(s)
    k = t[0]
    if k == "NM":
        return ("NM",)
    if k == "NO":
        return ("NO", int(t[1]))
    if k == "NE":
        return ("NE", int(t[1]), int(t[2]), tuple(int(v) for v in t[4:]))
    if k == "S":
        a = t[3]
        return ("S", ref(t[1]), key(t[2]), ("w",) if a == "w" else (a[0], int(a[1:])))
    if k in ("G", "D"):
        return (k, ref(t[1]), key(t[2]))
    if k in ("K", "C"):
        return (k, ref(t[1]))
    if k == "A":
        return ("A", int(t[1]), ref(t[2]))
    if k == "CO":
        return ("CO", int(t[1]))
    if k == "ME":
        return ("ME", int(t[1]), int(t[2]))
    if k == "MG":
        return ("MG", ref(t[1]), key(t[2]), int(t[3]))
    if k == "X":
        return ("X", ref(t[1]), int(t[2]))
    if k == "IM":
        sel = tuple(int(v) for v in t[3:])
        return ("IM", ref(t[1]), _glob_for(sel), sel)
    if k == "N":
        return ("N", ref(t[1]))
    raise ValueError(t)
