"""C09 — the anchored functions TRANSLATED from the source text of the current working tree into Lean
(`Generated/C09Src.lean`) on every run; `GenProps/C09Src.lean` proves every translated definition equal, for all
arguments, to the definition of `Core/C09Src.lean` that the property theorems are about.  harness/py2lean2.py
(`Translator2TH` = `Translator2T`: loops, try / except / else, hoisted raising calls, closures, plus the
normalisation of raising list comprehensions to append-loops and the inlining of same-package helpers: expression
helpers, one-loop generator helpers, slice objects) is the translator; this file is the C09
vocabulary: one rule table per function (python pattern with $metavariables -> Lean template over Core/C09Src.lean).

  function                                   generated definition      equal to (Core/C09Src.lean)
  Transform._apply_batched                   applyBatchedT             applyBatchedSrc
  Transform.apply                            applyT                    applySrc
  AbstractPWA._apply_batched                 pwaApplyBatchedT          pwaApplyBatchedSrc
  AbstractPWA._apply                         pwaApplyT                 pwaApplySrc
  PythonPWA.index_alpha_beta                 pythonIabT                pythonIabSrc
  CachedPWA.index_alpha_beta                 cachedIabT                cachedIabSrc
  index_alpha_beta (module level)            indexAlphaBetaT           indexAlphaBetaSrc
  containment_from_alpha_beta                containmentT              containmentSrc
  alpha_beta                                 alphaBetaT                alphaBetaSrc
  TransformChain._apply                      chainApplyT               chainApplySrc
  TransformChain._apply_batched              chainApplyBatchedT        chainApplyBatchedSrc
  WithDims._apply                            withDimsT                 withDimsSrc
  pwa_point_in_pointcloud                    pointInPointcloudT        pointInPointcloudSrc
plus the table of the defaults of `batch_size` in the public entry points (obligation `applyDefaults_ok`).
"""
import ast
import os

from . import py2lean2 as P

GEN_REL = os.path.join("MenpoModel", "Generated", "C09Src.lean")
GEN_TARGETS = ["MenpoModel.Generated.C09Src", "MenpoModel.GenProps.C09Src"]
GEN_THEOREMS = ["MenpoModel.GenProps.C09Src." + n for n in (
    "applyBatched_eq", "apply_eq", "pwaApplyBatched_eq", "pwaApply_eq", "pythonIab_eq", "cachedIab_eq",
    "indexAlphaBeta_eq", "containment_eq", "alphaBeta_eq", "chainApply_eq", "chainApplyBatched_eq", "withDims_eq",
    "pointInPointcloud_eq", "applyDefaults_ok")]
N_OBLIGATIONS = len(GEN_THEOREMS)
# the property theorems stated about the translated functions themselves (GenProps/C09Src.lean, second half)
GEN_THEOREMS += ["MenpoModel.GenProps.C09Src." + n for n in (
    "batched_eq_unbatched_translated", "pwa_mask_exact_translated", "pwa_translated_end_to_end",
    "indexAlphaBeta_translated", "chain_pwa_batched_translated", "cachedPwa_history_pure_translated",
    "apply_shape_translated", "pointInPointcloud_translated")]

BATCH = [("batch_size is None", "bs.isNone"), ("batch_size is not None", "(!bs.isNone)"),
         ("self._apply($x, **kwargs)", "(ap {x})", "bind"),
         ("$x.shape[0]", "(List.length {x})"),
         ("$x[$a:$b]", "(pySlice {x} {a} {b})"),
         ("range(0, $n, $k)", "(pyRange {n} {k})"),
         ("np.vstack($l)", "(vstackL {l})"),
         ("np.hstack($l)", "(hstackL {l})"),
         ("np.zeros($n, dtype=bool)", "(List.replicate {n} false)"),
         ("$e.points_outside_source_domain", "{e}")]
APPEND = [("$l.append($v)", "l", "({l} ++ [{v}])")]
TCE = {"TriangleContainmentError": "true"}
TCE_VALUE = [("TriangleContainmentError($m)", "{m}")]
BATCH_ARGS = {"self": "ap", "x": "x", "batch_size": "(bs.getD 0)", "kwargs": "()"}


class _T(P.Translator2TH):
    """Translator2TH plus one C09-local normalisation: a variable bound to a tuple of plain names and used as an index,
    `t = (r, c)` ... `a[t]`, is the index expression `a[r, c]` (numpy: indexing with a tuple IS multi-axis indexing).
    The registration is dropped as soon as the variable or one of the names is rebound."""

    def function(self, fn, arg_names, ind=2, allow_unused=()):
        self._tuples = {}
        return P.Translator2TH.function(self, fn, arg_names, ind=ind, allow_unused=allow_unused)

    def expr(self, node, scope):
        tup = getattr(self, "_tuples", {})
        if (isinstance(node, ast.Subscript) and isinstance(node.slice, ast.Name) and node.slice.id in tup
                and not self._rule_matches(node)):
            elts = [ast.Name(id=n, ctx=ast.Load()) for n in tup[node.slice.id]]
            return self.expr(ast.Subscript(value=node.value, slice=ast.Tuple(elts=elts, ctx=ast.Load()), ctx=node.ctx), scope)
        return P.Translator2TH.expr(self, node, scope)

    def _block1(self, stmts, scope, ind, ctx):
        if stmts and isinstance(stmts[0], (ast.Assign, ast.AugAssign, ast.For)):
            st = stmts[0]
            targets = st.targets if isinstance(st, ast.Assign) else [st.target]
            bound = {n.id for t in targets for n in ast.walk(t) if isinstance(n, ast.Name)}
            for v in [v for v, names in self._tuples.items() if v in bound or bound & set(names)]:
                del self._tuples[v]
            if (isinstance(st, ast.Assign) and len(st.targets) == 1 and isinstance(st.targets[0], ast.Name)
                    and isinstance(st.value, ast.Tuple) and len(st.value.elts) >= 2
                    and all(isinstance(e, ast.Name) for e in st.value.elts)):
                self._tuples[st.targets[0].id] = [e.id for e in st.value.elts]
        return P.Translator2TH._block1(self, stmts, scope, ind, ctx)


def _functions():
    """[(name, lean signature, thunk -> body text, stub body)] — the stub is what an untranslatable function becomes;
    it is chosen so that the equality obligation cannot be proved"""
    from menpo.transform.base import Transform
    from menpo.transform.base.composable import TransformChain
    from menpo.transform.piecewiseaffine import base as pw
    from menpo.transform import WithDims
    from menpo.image import boolean as mb
    T = _T

    def R(**kw):
        return P.Rules2T(fn_style=True, **kw)
    items = []

    def add(name, sig, fn, args, rules, stub, **kw):
        items.append((name, "def %s %s :=" % (name, sig), (lambda: T(rules).function(fn, args, **kw)), stub))

    add("applyBatchedT", "{α β ε : Type} (ap : List α → Except ε (List β)) (bs : Option Nat) (x : List α) : Except ε (List β)",
        Transform._apply_batched, BATCH_ARGS, R(expr=BATCH, stmt=APPEND), "Except.ok []")
    add("pwaApplyBatchedT", "{α β : Type} (ap : List α → Except (List Bool) (List β)) (bs : Option Nat) (x : List α) : "
        "Except (List Bool) (List β)", pw.AbstractPWA._apply_batched, BATCH_ARGS,
        R(expr=BATCH, stmt=APPEND, catch=TCE, exc=TCE_VALUE), "Except.ok []")
    add("applyT", "{α ε : Type} (ab : Option Nat → List α → Except ε (List α)) (bs : Option Nat) (x : PyVal α) : "
        "Except (Exc ε) (PyVal α)", Transform.apply, {"self": "ab", "x": "x", "batch_size": "bs", "kwargs": "()"},
        R(expr=[("self._apply_batched($x, batch_size, **kwargs)", "(liftAb ab bs {x})", "bind"),
                ("$x._transform($f)", "(PyVal.transform {x} {f})", "bind")],
          catch={"AttributeError": "(Exc.isAttr {e})"}), "Except.error Exc.attr")
    add("pwaApplyT", "(iab : List Pt → Except (List Bool) (List Nat × Vec × Vec)) (ti tij tik : List Pt) (x : List Pt) : "
        "Except (List Bool) (List Pt)", pw.AbstractPWA._apply, {"self": "()", "x": "x", "kwargs": "()"},
        R(expr=[("self.index_alpha_beta($x)", "(iab {x})", "bind"),
                ("self.ti", "ti"), ("self.tij", "tij"), ("self.tik", "tik"),
                ("$a[:, None]", "(Col.mk {a})"), ("$a[$i]", "(gatherPts {a} {i})")],
          binop={ast.Add: "(ptsAdd {a} {b})", ast.Mult: "(colMul {a} {b})"}), "Except.ok []")
    add("pythonIabT", "(src : List Tri) (points : List Pt) : Except (List Bool) (List Nat × Vec × Vec)",
        pw.PythonPWA.index_alpha_beta, {"self": "src", "points": "points"},
        R(expr=[("index_alpha_beta($i, $ij, $ik, $p)", "(indexAlphaBetaSrc {i} {ij} {ik} {p})", "bind"),
                ("self.s", "(src.map Tri.i)"), ("self.sij", "(src.map Tri.ij)"), ("self.sik", "(src.map Tri.ik)")]),
        "Except.ok ([], [], [])")
    add("cachedIabT", "{Val Res Err : Type} [DecidableEq Val] (shape : Val → Nat) (compute : Val → Except Err Res) "
        "(s : MemoSt Val Res) (points : Val) : MemoSt Val Res × Except Err (Option Res)",
        pw.CachedPWA.index_alpha_beta, {"self": "s", "points": "points"},
        R(expr=[("PythonPWA.index_alpha_beta(self, $p)", "(compute {p})", "bind"),
                # the two comparisons of the hit test are symmetric: either operand order (audit F7)
                ("$p.shape == $s._applied_points.shape", "(shapeEqO shape {p} ({s}).key)"),
                ("$s._applied_points.shape == $p.shape", "(shapeEqO shape {p} ({s}).key)"),
                ("np.array_equal($p, $s._applied_points)", "(arrEqO {p} ({s}).key)"),
                ("np.array_equal($s._applied_points, $p)", "(arrEqO {p} ({s}).key)"),
                ("$p.shape == $q.shape", "(shapeEqO shape {p} {q})"),
                ("np.array_equal($a, $b)", "(arrEqO {a} {b})"),
                ("np.array($p, copy=True)", "(Owned.copy {p})"),
                ("$s._applied_points", "({s}).key"), ("$s._iab", "({s}).iab")],
          stmt=[("$s._iab = $v", "s", "{{ {s} with iab := some {v} }}"),
                ("$s._applied_points = $v", "s", "{{ {s} with key := some {v} }}")],
          ret="({v_self}, Except.ok ({e}))", reraise="({v_self}, Except.error {e})"), "(s, Except.ok none)")
    add("indexAlphaBetaT", "(i ij ik points : List Pt) : Except (List Bool) (List Nat × Vec × Vec)",
        pw.index_alpha_beta, {"i": "i", "ij": "ij", "ik": "ik", "points": "points"},
        R(expr=[("alpha_beta($i, $ij, $ik, $p)", "(alphaBetaSrc {i} {ij} {ik} {p})"),
                ("containment_from_alpha_beta($a, $b)", "(containmentSrc {a} {b})", "bind"),
                ("np.arange($n)", "(List.range {n})"), ("$x.shape[0]", "(List.length {x})"),
                ("$a[$r, $c]", "(gather2 {a} {r} {c})")]), "Except.ok ([], [], [])")
    add("containmentT", "(alpha beta : Arr2) : Except (List Bool) (List Nat)",
        pw.containment_from_alpha_beta, {"alpha": "alpha", "beta": "beta"},
        R(expr=[("$a + $b <= 1", "(arrSumLe1 {a} {b})"), ("$a >= 0", "(arrGe0 {a})"),
                ("np.logical_and($a, $b)", "(arrAnd {a} {b})"), ("np.any($a, axis=1)", "(anyAxis1 {a})"),
                ("np.any($a)", "(List.any {a} id)"), ("~$a", "(vecNot {a})"), ("np.nonzero($a)", "(nonzero2 {a})"),
                ("np.zeros($n)", "(List.replicate {n} (0 : Nat))"), ("$x.shape[0]", "(List.length {x})"),
                ("$x.astype(np.uint32)", "{x}")],
          stmt=[("$x[$i] = $v", "x", "(scatter {x} {i} {v})")], exc=TCE_VALUE), "Except.ok []")
    add("alphaBetaT", "(i ij ik points : List Pt) : Arr2 × Arr2",
        pw.alpha_beta, {"i": "i", "ij": "ij", "ik": "ik", "points": "points"},
        R(expr=[("$p[..., None] - $i", "(ipArr {p} {i})"),
                ('np.einsum("dt, dt -> t", $a, $b)', "(dotT {a} {b})"),
                ('np.einsum("vdt, dt -> vt", $a, $b)', "(dotVT {a} {b})"),
                ("1.0 / $x", "(recipT {x})")],
          binop={ast.Mult: "(bmul {a} {b})", ast.Sub: "(bsub {a} {b})"}, ret="{e}"), "([], [])")
    add("chainApplyT", "{ε α : Type} (fs : List (List α → Except ε (List α))) (x : List α) : Except ε (List α)",
        TransformChain._apply, {"self": "fs", "x": "x"},
        R(expr=[("reduce($f, $l, $x)", "(List.foldlM {f} {x} {l})", "bind"), ("$t._apply($x)", "({t} {x})", "bind"),
                ("self.transforms", "fs")]), "Except.ok []", allow_unused=("kwargs",))
    add("chainApplyBatchedT", "{α : Type} (ap : List α → Except (List Bool) (List α)) (bs : Option Nat) (x : List α) : "
        "Except (List Bool) (List α)", TransformChain._apply_batched,
        {"self": "ap", "x": "x", "batch_size": "bs", "kwargs": "()"},
        R(expr=[("AbstractPWA._apply_batched(self, $x, batch_size, **kwargs)", "(pwaApplyBatchedSrc ap bs {x})", "bind")]),
        "Except.ok []")
    add("withDimsT", "(dims : Dims) (x : List PtN) : ArrND", WithDims._apply, {"self": "dims", "x": "x"},
        R(expr=[("$y[:, None]", "(ArrND.addAxis {y})"), ("$x[:, $d]", "(selectCols {x} {d})"), ("self.dims", "dims"),
                ("$y.ndim", "(ArrND.ndim {y})"), ("$y.copy()", "{y}")], ret="{e}"), "ArrND.d1 []",
        allow_unused=("kwargs",))
    add("pointInPointcloudT", "{PC T : Type} (mk : PC → PC → T) (app : T → Option Nat → List Pt → Except (List Bool) (List Pt)) "
        "(pcloud : PC) (indices : List Pt) (bs : Option Nat) : List Bool", mb.pwa_point_in_pointcloud,
        {"pcloud": "pcloud", "indices": "indices", "batch_size": "bs"},
        R(expr=[("PiecewiseAffine($a, $b)", "(mk {a} {b})"),
                ("$t.apply($x, batch_size=$k)", "(app {t} {k} {x})", "bind"),
                ("np.ones($n, dtype=bool)", "(List.replicate {n} true)"), ("$x.shape[0]", "(List.length {x})"),
                ("~$a", "(vecNot {a})"), ("$e.points_outside_source_domain", "{e}")],
          catch=TCE, ret="{e}"), "[]")
    return items


HEADER = """/- TRANSLATED by harness/trans_c09.py (harness/py2lean2.py, Translator2T) from the SOURCE TEXT of the current working
   tree on every run of `./check C09`; do not edit.  GenProps/C09Src.lean proves each definition equal to the
   definition of the same name (suffix `Src`) in Core/C09Src.lean. -/
import MenpoModel.Core.PyLoop
import MenpoModel.Core.C09Src
set_option linter.unusedVariables false

namespace MenpoModel.Generated.C09Src
open MenpoModel.C09
"""


def defaults_table():
    """the default of `batch_size` in the public entry points (source text), for the obligation that no batching is
    the default everywhere"""
    from menpo.transform.base import Transform
    from menpo.image import boolean as mb
    from menpo.image import BooleanImage
    tr = P.Translator2TH(P.Rules2T())
    rows = []
    for name, fn in (("Transform.apply", Transform.apply), ("pwa_point_in_pointcloud", mb.pwa_point_in_pointcloud),
                     ("BooleanImage.constrain_to_pointcloud", BooleanImage.constrain_to_pointcloud)):
        try:
            d = tr.defaults(fn).get("batch_size", "<no such parameter>")
        except P.Untranslatable as e:
            d = "<%s>" % e
        rows.append((name, d))
    return rows


def generated_files():
    """({relative path: text}, [reasons why a function could not be translated])"""
    items = _functions()
    text, reasons = P.translate_or_stub([(sig, thunk, stub) for _n, sig, thunk, stub in items], HEADER)
    rows = defaults_table()
    text += "\n/-- source text of the default of `batch_size` in the public entry points -/\n"
    text += "def batchSizeDefaults : List (String × String) :=\n  [%s]\n" % ", ".join('("%s", "%s")' % r for r in rows)
    text += "\nend MenpoModel.Generated.C09Src\n"
    return {GEN_REL: text}, reasons


if __name__ == "__main__":
    files, why = generated_files()
    print(files[GEN_REL])
    print("untranslatable:", why)
