"""py2lean2n — NORMALISING extensions of harness/py2lean2c.py (a sibling module; everything here is independent of any
property; first user: harness/trans_c01.py).  The aim: a behaviour-preserving refactoring of the Python should give the
same — or a trivially equivalent — Lean term, so that the equality obligations survive it.

`Translator2N(Rules2N(...))` is a `Translator2C` that additionally

  inlines helpers      a call `helper(a, b)` / `self._helper(a)` (statement, or `x = helper(...)`) for which the vocabulary
                       has NO rule, whose callee is a plain function of a module named in `inline_modules` (looked up
                       in the globals of the function being translated, or on its class), is replaced by the callee's
                       body: parameters renamed to the actual arguments (which must be variables or constants —
                       so that an in-place update of a parameter is an update of the caller's variable), the callee's
                       locals renamed apart, missing arguments taken from the callee's defaults.  Supported shapes:
                       a procedure without `return`, or a body whose only `return` is its last statement.  A helper
                       that a refactoring extracted is thus translated exactly like the code it was extracted from.
  defers temporaries   `t = E` whose USE has no translation while `t` is a variable (`E` is a fragment of a larger unit of
                       the vocabulary, e.g. the target shape of a `reshape`) is substituted into its uses instead —
                       when `E` is syntactically pure (names, attributes, constants, tuples / lists, arithmetic,
                       `tuple()` / `list()` / `len()`), `t` is not assigned again and no variable of `E` is assigned or
                       updated in place afterwards.
  canonical loops      `for t in IT: if C: raise E` (a guard loop) is translated as `if any(C for t in IT): raise E`.
  conditional returns  `return A if c else B`  ==  `if c: return A` / `else: return B`.
  functions as values  `(A if c else B)(args)` == `A(args) if c else B(args)`; `(lambda p: E)(a)` is beta-reduced (variable /
                       constant arguments); `<lambda> is None` is `False`; so a local that holds one of two functions, or a
                       callback parameter of an inlined helper, translates like the direct calls.
  keyword dictionaries `opts = dict(k=v, …)` / `{"k": v, …}` whose only uses are `**opts` in calls is expanded into the
                       keywords at those calls (pure values, not reassigned in between).
  generator delegation `yield from helper(…)` with an inlinable generator helper: the helper's body, its yields being the
                       caller's.
  tracks aliases       `x = y[0]`, `x = y`, `x = a if c else b` declared as ALIAS rules (pattern, container, getter, setter):
                       `x` is a view into the container variable; an in-place statement on `x` (a stmt rule with
                       receiver `x`) also rebinds the container through the setter.  The conditional-expression form and
                       the if/else form of the same aliasing give the same term.
"""
import ast
import copy as _copy

from .py2lean2c import Rules2C, Translator2C, Callee, CallRule  # noqa: F401
from .py2lean2 import Untranslatable, source_ast, match, _pat

_PURE_CALLS = {"tuple", "list", "len", "int", "float", "bool"}


class Rules2N(Rules2C):
    """alias : [(python pattern of the right-hand side, container ("r" = the metavariable $r, "=name" = that python
              variable), getter template, setter template)] — templates read {y} (container) and, the setter, {v}
    inline_modules : prefixes of `__module__` of the functions that may be inlined (() = no inlining)"""

    def __init__(self, alias=(), inline_modules=(), defer_temps=True, **kw):
        Rules2C.__init__(self, **kw)
        self.alias = [(_pat(p, "expr"), c, g, s) for p, c, g, s in alias]
        self.inline_modules = tuple(inline_modules)
        self.defer_temps = defer_temps


class _Rename(ast.NodeTransformer):
    def __init__(self, table):
        self.table = table

    def visit_Name(self, node):
        if node.id in self.table:
            new = self.table[node.id]
            if isinstance(new, ast.AST):
                if not isinstance(node.ctx, ast.Load):
                    raise Untranslatable("inlined helper assigns to its parameter %r" % node.id)
                return ast.copy_location(_copy.deepcopy(new), node)
            return ast.copy_location(ast.Name(id=new, ctx=node.ctx), node)
        return node

    def visit_FunctionDef(self, node):
        return node

    def visit_Lambda(self, node):
        return node


class _Subst(ast.NodeTransformer):
    """replace the Load occurrences of one variable by an expression"""

    def __init__(self, name, value):
        self.name, self.value, self.count = name, value, 0

    def visit_Name(self, node):
        if node.id == self.name and isinstance(node.ctx, ast.Load):
            self.count += 1
            return ast.copy_location(_copy.deepcopy(self.value), node)
        return node


def _is_pure(node):
    for n in ast.walk(node):
        if isinstance(n, ast.Call):
            if not (isinstance(n.func, ast.Name) and n.func.id in _PURE_CALLS and not n.keywords):
                return False
        elif isinstance(n, (ast.Lambda, ast.ListComp, ast.GeneratorExp, ast.SetComp, ast.DictComp, ast.Await, ast.Yield,
                            ast.YieldFrom, ast.NamedExpr, ast.Starred)):
            return False
    return True


class Translator2N(Translator2C):
    def __init__(self, rules):
        Translator2C.__init__(self, rules)
        self._cur_fn = None
        self._inl = 0

    # ------------------------------------------------------------------------------------------ expressions
    def expr(self, node, scope):
        if isinstance(node, ast.Call) and not any(match(pat, node, {}) for pat, _t, _f in self.r.expr):
            f = node.func
            # (A if c else B)(args)  ==  A(args) if c else B(args)
            if isinstance(f, ast.IfExp):
                a = ast.Call(func=f.body, args=node.args, keywords=node.keywords)
                b = ast.Call(func=f.orelse, args=node.args, keywords=node.keywords)
                new = ast.IfExp(test=f.test, body=a, orelse=b)
                ast.copy_location(new, node)
                ast.fix_missing_locations(new)
                return self.expr(new, scope)
            # (lambda p, q: E)(a, b)  ==  E[p := a, q := b]   for variable / constant arguments
            if isinstance(f, ast.Lambda) and not node.keywords and not (
                    f.args.vararg or f.args.kwarg or f.args.kwonlyargs or f.args.defaults or f.args.posonlyargs) \
                    and len(f.args.args) == len(node.args) and all(isinstance(x, (ast.Name, ast.Constant)) for x in node.args):
                table = {p.arg: (x.id if isinstance(x, ast.Name) else x) for p, x in zip(f.args.args, node.args)}
                inner = {n.id for n in ast.walk(f.body) if isinstance(n, ast.Name)}
                if not any(isinstance(x, ast.Name) and x.id in inner and x.id not in table for x in node.args):
                    body = _Rename(table).visit(_copy.deepcopy(f.body))
                    ast.fix_missing_locations(body)
                    return self.expr(body, scope)
        if (isinstance(node, ast.Compare) and len(node.ops) == 1 and isinstance(node.ops[0], (ast.Is, ast.IsNot))
                and isinstance(node.left, ast.Lambda) and isinstance(node.comparators[0], ast.Constant)
                and node.comparators[0].value is None):
            return ("true" if isinstance(node.ops[0], ast.IsNot) else "false"), ""
        return Translator2C.expr(self, node, scope)

    # ------------------------------------------------------------------------------------------ helpers to inline
    def _resolve(self, func):
        """the live python function a called expression denotes, if it may be inlined"""
        fn = self._cur_fn
        if fn is None or not self.r.inline_modules:
            return None, False
        target, method = None, False
        g = getattr(fn, "__globals__", {})
        if isinstance(func, ast.Name):
            target = g.get(func.id)
        elif isinstance(func, ast.Attribute) and isinstance(func.value, ast.Name) and func.value.id in ("self", "cls"):
            qn = getattr(fn, "__qualname__", "").split(".")
            if len(qn) >= 2:
                cls = g.get(qn[-2])
                raw = getattr(cls, "__dict__", {}).get(func.attr) if cls is not None else None
                if isinstance(raw, staticmethod):
                    target = raw.__func__
                elif raw is not None and not isinstance(raw, (classmethod, property)):
                    target, method = raw, True
        import types
        if not isinstance(target, types.FunctionType):
            return None, False
        if not any((target.__module__ or "").startswith(m) for m in self.r.inline_modules):
            return None, False
        return target, method

    def _has_rule(self, call):
        if any(match(pat, call, {}) for pat, _t, _f in self.r.expr):
            return True
        return any(match(cr.func, call.func, {}) for cr in self.r.calls)

    def _inline(self, call, target, method, result_var, scope, generator=False):
        """statements equivalent to `result_var = target(...)` (result_var None: a call statement)"""
        node, _src = source_ast(target)
        a = node.args
        if a.vararg or a.kwarg or a.kwonlyargs or a.posonlyargs:
            raise Untranslatable("helper %s has a signature that is not inlined" % node.name)
        params = [x.arg for x in a.args]
        dflt = dict(zip(params[len(params) - len(a.defaults):], a.defaults))
        actual = list(call.args)
        if any(isinstance(x, ast.Starred) for x in actual) or any(k.arg is None for k in call.keywords):
            raise Untranslatable("call of the helper %s with * / **" % node.name)
        bound = {}
        if method:
            bound[params[0]] = call.func.value
            rest_params = params[1:]
        else:
            rest_params = params
        if len(actual) > len(rest_params):
            raise Untranslatable("too many arguments for the helper %s" % node.name)
        for p, x in zip(rest_params, actual):
            bound[p] = x
        for k in call.keywords:
            if k.arg not in params or k.arg in bound:
                raise Untranslatable("bad keyword %r for the helper %s" % (k.arg, node.name))
            bound[k.arg] = k.value
        for p in params:
            if p not in bound:
                if p not in dflt:
                    raise Untranslatable("helper %s called without %r" % (node.name, p))
                bound[p] = dflt[p]
        for p, x in bound.items():
            if not isinstance(x, (ast.Name, ast.Constant, ast.Lambda)):
                raise Untranslatable("helper %s: the argument for %r is not a variable or a constant: `%s`" % (
                    node.name, p, ast.unparse(x)))
        body = [s for s in node.body
                if not (isinstance(s, ast.Expr) and isinstance(s.value, ast.Constant) and isinstance(s.value.value, str))]
        rets = [n for s in body for n in ast.walk(s) if isinstance(n, ast.Return)]
        tail = None
        if rets:
            if len(rets) != 1 or body[-1] is not rets[0] or rets[0].value is None:
                raise Untranslatable("helper %s returns from the middle of its body" % node.name)
            tail = body[-1].value
            body = body[:-1]
        elif result_var is not None:
            raise Untranslatable("the value of the procedure %s is used" % node.name)
        is_gen = any(isinstance(n, (ast.Yield, ast.YieldFrom)) for s in body for n in ast.walk(s))
        if is_gen != generator:
            raise Untranslatable("helper %s is %sa generator" % (node.name, "" if is_gen else "not "))
        self._inl += 1
        table = {}
        for p, x in bound.items():
            if isinstance(x, ast.Lambda) and any(isinstance(n, ast.Name) and n.id == p and not isinstance(n.ctx, ast.Load)
                                                 for s2 in body for n in ast.walk(s2)):
                raise Untranslatable("helper %s assigns to its callback parameter %r" % (node.name, p))
            table[p] = x.id if isinstance(x, ast.Name) else x
        for s in body:
            for n in ast.walk(s):
                if isinstance(n, ast.Name) and isinstance(n.ctx, ast.Store) and n.id not in table:
                    table[n.id] = "%s_i%d" % (n.id, self._inl)
        # a global of the helper must not be captured by a variable of the caller
        free = {n.id for s in body + ([ast.Expr(value=tail)] if tail is not None else []) for n in ast.walk(s)
                if isinstance(n, ast.Name) and n.id not in table}
        clash = sorted(n for n in free if n in scope)
        if clash:
            raise Untranslatable("helper %s: its global(s) %s are variables of the caller" % (node.name, ", ".join(clash)))
        out = [_Rename(table).visit(_copy.deepcopy(s)) for s in body]
        if result_var is not None:
            val = _Rename(table).visit(_copy.deepcopy(ast.Expr(value=tail))).value
            out.append(ast.Assign(targets=[ast.Name(id=result_var, ctx=ast.Store())], value=val))
        for s in out:
            ast.fix_missing_locations(s)
        return out

    # ------------------------------------------------------------------------------------------ aliases
    def _alias_of(self, value, scope):
        """(getter text, container python name, setter template) when `value` matches an alias rule"""
        for pat, cont, get, set_ in self.r.alias:
            env = {}
            if match(pat, value, env):
                if cont.startswith("="):
                    y = cont[1:]
                else:
                    if not isinstance(env.get(cont), ast.Name):
                        continue
                    y = env[cont].id
                if y not in scope:
                    continue
                return get.format(y=scope[y]), y, set_
        return None

    def _stmt_receiver(self, st):
        for pat, recv, _t in self.r.stmt:
            env = {}
            if match(pat, st, env):
                recvs = recv if isinstance(recv, (tuple, list)) else (recv,)
                out = []
                for r in recvs:
                    if r.startswith("="):
                        out.append(r[1:])
                    elif isinstance(env.get(r), ast.Name):
                        out.append(env[r].id)
                return out
        return None

    # ------------------------------------------------------------------------------------------ statements
    def _block1(self, stmts, scope, ind, ctx):
        if not stmts:
            return Translator2C._block1(self, stmts, scope, ind, ctx)
        st, rest = stmts[0], list(stmts[1:])
        pad = "  " * ind
        # synthetic: write an alias back into its container
        if isinstance(st, ast.Expr) and isinstance(st.value, ast.Call) and isinstance(st.value.func, ast.Name) \
                and st.value.func.id == "__writeback__":
            x = st.value.args[0].id
            y, set_ = scope["\0alias:" + x]
            new = self.fresh(y, scope)
            sc = dict(scope)
            sc[y] = new
            line = "%slet %s := %s\n" % (pad, new, set_.format(y=scope[y], v=scope[x]))
            return line + self.block(rest, sc, ind, ctx)
        has_rule = (any(match(pat, st, {}) for pat, _r, _t in self.r.stmt) or any(match(pat, st, {}) for pat in self.r.skip)
                    or any(match(pat, st, {}) for pat, _t in self.r.guard))
        # return A if c else B  ==  if c: return A  else: return B
        if isinstance(st, ast.Return) and isinstance(st.value, ast.IfExp) and not has_rule \
                and not any(match(pat, st.value, {}) for pat, _t, _f in self.r.expr):
            new_if = ast.If(test=st.value.test, body=[ast.Return(value=st.value.body)], orelse=[ast.Return(value=st.value.orelse)])
            ast.copy_location(new_if, st)
            ast.fix_missing_locations(new_if)
            return self.block([new_if] + rest, scope, ind, ctx)
        # yield from helper(...)  ==  the helper's body (a generator without a rule), its yields being ours
        if isinstance(st, ast.Expr) and isinstance(st.value, ast.YieldFrom) and isinstance(st.value.value, ast.Call) \
                and not has_rule and not self._has_rule(st.value.value):
            target, method = self._resolve(st.value.value.func)
            if target is not None:
                from .py2lean2c import _Yield
                body = self._inline(st.value.value, target, method, None, scope, generator=True)
                body = [_Yield().visit(b) for b in body]
                for b in body:
                    ast.fix_missing_locations(b)
                return self.block(body + rest, scope, ind, ctx)
        # opts = dict(k=v, ...)  used only as  **opts : expanded into the keywords at the calls
        if isinstance(st, ast.Assign) and len(st.targets) == 1 and isinstance(st.targets[0], ast.Name) and not has_rule:
            kws = None
            v = st.value
            if isinstance(v, ast.Call) and isinstance(v.func, ast.Name) and v.func.id == "dict" and not v.args \
                    and all(k.arg is not None for k in v.keywords):
                kws = [(k.arg, k.value) for k in v.keywords]
            elif isinstance(v, ast.Dict) and v.keys and all(isinstance(k, ast.Constant) and isinstance(k.value, str) for k in v.keys):
                kws = [(k.value, val) for k, val in zip(v.keys, v.values)]
            if kws is not None and all(_is_pure(val) for _k, val in kws):
                x = st.targets[0].id
                loads = [n for s2 in rest for n in ast.walk(s2) if isinstance(n, ast.Name) and n.id == x]
                splats = [k for s2 in rest for n in ast.walk(s2) if isinstance(n, ast.Call) for k in n.keywords
                          if k.arg is None and isinstance(k.value, ast.Name) and k.value.id == x]
                free = {n.id for _k, val in kws for n in ast.walk(val) if isinstance(n, ast.Name)}
                uses = [i for i, s2 in enumerate(rest) if any(isinstance(n, ast.Name) and n.id == x for n in ast.walk(s2))]
                span = rest[:uses[-1]] if uses else []
                if uses and not isinstance(rest[uses[-1]], (ast.Assign, ast.AugAssign, ast.Expr, ast.Return, ast.Raise)):
                    span = rest[:uses[-1] + 1]
                if splats and len(loads) == len(splats) and x not in self.assigned_names(rest) \
                        and not (free & set(self.assigned_names(span))):
                    new_rest = _copy.deepcopy(rest)
                    for s2 in new_rest:
                        for n in ast.walk(s2):
                            if isinstance(n, ast.Call):
                                out = []
                                for k in n.keywords:
                                    if k.arg is None and isinstance(k.value, ast.Name) and k.value.id == x:
                                        out += [ast.keyword(arg=a, value=_copy.deepcopy(val)) for a, val in kws]
                                    else:
                                        out.append(k)
                                n.keywords = out
                        ast.fix_missing_locations(s2)
                    return self.block(new_rest, scope, ind, ctx)
        # an in-place statement on an alias also updates the container
        if has_rule and not getattr(st, "_alias_done", False):
            recvs = self._stmt_receiver(st) or []
            backs = [x for x in recvs if ("\0alias:" + x) in scope]
            viewed = {v[0] for k, v in scope.items() if k.startswith("\0alias:")}
            if any(x in viewed for x in recvs):
                raise Untranslatable("a variable is updated in place while a view of it is live: `%s`" % ast.unparse(st).splitlines()[0])
            if backs:
                st2 = _copy.copy(st)
                st2._alias_done = True
                wb = [ast.Expr(value=ast.Call(func=ast.Name(id="__writeback__", ctx=ast.Load()),
                                              args=[ast.Name(id=x, ctx=ast.Load())], keywords=[])) for x in backs]
                return Translator2C._block1(self, [st2] + wb + rest, scope, ind, ctx)
        if not has_rule and isinstance(st, ast.For) and not st.orelse and len(st.body) == 1 \
                and isinstance(st.body[0], ast.If) and not st.body[0].orelse and len(st.body[0].body) == 1 \
                and isinstance(st.body[0].body[0], ast.Raise) and not getattr(st, "_canon", False):
            # canonical form of a guard loop:  for t in IT: if C: raise E   ==   if any(C for t in IT): raise E
            gen = ast.GeneratorExp(elt=st.body[0].test,
                                   generators=[ast.comprehension(target=st.target, iter=st.iter, ifs=[], is_async=0)])
            new_if = ast.If(test=ast.Call(func=ast.Name(id="any", ctx=ast.Load()), args=[gen], keywords=[]),
                            body=[st.body[0].body[0]], orelse=[])
            ast.copy_location(new_if, st)
            ast.fix_missing_locations(new_if)
            return self.block([new_if] + rest, scope, ind, ctx)
        if not has_rule:
            # a helper without a rule: its body, at the call site
            call, result_var = None, None
            if isinstance(st, ast.Expr) and isinstance(st.value, ast.Call):
                call = st.value
            elif isinstance(st, ast.Assign) and len(st.targets) == 1 and isinstance(st.targets[0], ast.Name) \
                    and isinstance(st.value, ast.Call):
                call, result_var = st.value, st.targets[0].id
            if call is not None and not self._has_rule(call):
                target, method = self._resolve(call.func)
                if target is not None:
                    return self.block(self._inline(call, target, method, result_var, scope) + rest, scope, ind, ctx)
            if isinstance(st, ast.Assign) and len(st.targets) == 1 and isinstance(st.targets[0], ast.Name):
                x = st.targets[0].id
                # alias introduction (also  x = a if c else b  with both arms aliases of one container)
                al = self._alias_of(st.value, scope)
                if al is None and isinstance(st.value, ast.IfExp):
                    a1, a2 = self._alias_of(st.value.body, scope), self._alias_of(st.value.orelse, scope)
                    if a1 is not None and a2 is not None and a1[1] == a2[1]:
                        c = self.pure(st.value.test, scope)
                        al = (a1[0] if a1[0] == a2[0] else "(if %s then %s else %s)" % (c, a1[0], a2[0]), a1[1],
                              a1[2] if a1[2] == a2[2] else "(if %s then %s else %s)" % (c, a1[2], a2[2]))
                if al is not None:
                    get, y, set_ = al
                    new = self.fresh(x, scope)
                    sc = dict(scope)
                    sc[x] = new
                    sc["\0alias:" + x] = (y, set_)
                    return "%slet %s := %s\n%s" % (pad, new, get, self.block(rest, sc, ind, ctx))
                # a temporary that is only a fragment of a larger unit of the vocabulary: when the ordinary translation
                # (a `let`) leaves a use without a rule, the temporary is substituted into its uses instead
                if self.r.defer_temps and _is_pure(st.value):
                    # statements up to the last use of the temporary: its variables must keep their values until then
                    # (the targets of the simple statement that holds the last use are written after it is read)
                    uses = [i for i, s2 in enumerate(rest)
                            if any(isinstance(n, ast.Name) and n.id == x and isinstance(n.ctx, ast.Load) for n in ast.walk(s2))]
                    last = uses[-1] if uses else -1
                    span = rest[:last]
                    if last >= 0 and not isinstance(rest[last], (ast.Assign, ast.AugAssign, ast.Expr, ast.Return, ast.Raise)):
                        span = rest[:last + 1]
                    later = self.assigned_names(span)
                    free = {n.id for n in ast.walk(st.value) if isinstance(n, ast.Name)}
                    if last >= 0 and x not in self.assigned_names(rest) and not (free & set(later)) and x not in free:
                        mark = [len(p) for p in self._pending]
                        tmp0 = self._tmp
                        try:
                            return Translator2C._block1(self, [st] + rest, scope, ind, ctx)
                        except Untranslatable as why:
                            for p, m in zip(self._pending, mark):
                                del p[m:]
                            self._tmp = tmp0
                            if "no rule for" not in str(why) and "unknown name" not in str(why):
                                raise
                            sub = _Subst(x, st.value)
                            new_rest = [sub.visit(_copy.deepcopy(s)) for s in rest]
                            for s2 in new_rest:
                                ast.fix_missing_locations(s2)
                            if not sub.count:
                                raise
                            try:
                                return self.block(new_rest, scope, ind, ctx)
                            except Untranslatable:
                                raise why
        if isinstance(st, (ast.Assign, ast.AugAssign)):
            tg = st.targets if isinstance(st, ast.Assign) else [st.target]
            bound = {n.id for t in tg for n in ast.walk(t) if isinstance(n, ast.Name) and isinstance(n.ctx, ast.Store)}
            dead = [k for k, v in scope.items() if k.startswith("\0alias:") and (k[len("\0alias:"):] in bound or v[0] in bound)]
            if dead:
                scope = dict(scope)
                for k in dead:
                    del scope[k]
        return Translator2C._block1(self, [st] + rest, scope, ind, ctx)

    # ------------------------------------------------------------------------------------------ functions
    def function(self, fn, arg_names, ind=2, allow_unused=()):
        self._cur_fn = fn
        try:
            return Translator2C.function(self, fn, arg_names, ind, allow_unused)
        finally:
            self._cur_fn = None
