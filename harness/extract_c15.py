"""C15 — regenerated labeller tables (DESIGN 2.3b, Appendix 13 item 4).

Nothing is parsed from source text: every labelling function the live ``menpo.landmark`` module of the
current working tree exports (callables carrying the ``group_label`` attribute that ``labeller_func`` duck-types
onto them) is *probed*:

  * expected input size  = the sizes in 1..200 whose probe cloud is not refused with ``LabellingError``;
  * output index list    = where each output point of an index-encoding probe cloud (point i = (i, i*i), so that
                           no average / midpoint of probe points is again a probe point) comes from;
  * labels               = label -> indices into the output points (from the returned masks / mapping, in order);
  * edges                = undirected edge list of the returned graph / mesh.

The tables are written to lean/MenpoModel/Generated/C15Labellers.lean; lean/MenpoModel/GenProps/C15.lean states one
``decide +kernel`` obligation ``labellerWF`` per labeller, which `lake build` re-checks against what the code says
now.  The two bounding-box labellers construct new corner points and are outside the re-indexing clause by the
property text; they are listed in a comment only.
"""
BBOX = ("bounding_box_to_bounding_box", "bounding_box_mirrored_to_bounding_box")
MAX_N = 200
TARGETS = ["MenpoModel.Generated.C15Labellers", "MenpoModel.GenProps.C15"]
GRAPH_KIND = "LabelledPointUndirectedGraph"


def live_labellers():
    """name -> function, every labeller exported by menpo.landmark"""
    import menpo.landmark as ml
    out = {}
    for n in sorted(dir(ml)):
        f = getattr(ml, n)
        if callable(f) and hasattr(f, "group_label") and not isinstance(f, type):
            out[n] = f
    return out


def probe_cloud(n):
    import numpy as np
    i = np.arange(n, dtype=float)
    return np.stack([i, i * i], axis=1)


def undirected_edges(obj):
    """sorted list of (u, v), u <= v, of whatever connectivity the returned object carries"""
    es = set()
    if hasattr(obj, "adjacency_matrix"):
        r, c = obj.adjacency_matrix.nonzero()
        for a, b in zip(r.tolist(), c.tolist()):
            es.add((min(a, b), max(a, b)))
    elif hasattr(obj, "trilist"):
        for t in obj.trilist.tolist():
            for a, b in ((t[0], t[1]), (t[1], t[2]), (t[2], t[0])):
                es.add((min(a, b), max(a, b)))
    return sorted(es)


def labels_of(obj, mapping):
    """[(label, [indices into the output points])] in order"""
    import numpy as np
    if hasattr(obj, "_labels_to_masks"):
        return [(str(l), np.nonzero(np.asarray(m))[0].tolist()) for l, m in obj._labels_to_masks.items()]
    return [(str(l), sorted(set(int(i) for i in np.asarray(ix).ravel().tolist()))) for l, ix in mapping.items()]


def probe(f):
    """table of one labeller: dict(n, accepts, other_errors, ind, labels, edges, kind)"""
    import numpy as np
    from menpo.landmark import LabellingError
    accepts, other = [], []
    for k in range(1, MAX_N + 1):
        try:
            f(probe_cloud(k))
            accepts.append(k)
        except LabellingError:
            pass
        except Exception as e:  # noqa: an unexpected exception type at a wrong size is recorded, not swallowed
            other.append((k, type(e).__name__))
    if not accepts:
        return dict(n=0, accepts=[], other_errors=other, ind=[], labels=[], edges=[], kind="none")
    n = accepts[0]
    out, mapping = f(probe_cloud(n), return_mapping=True)
    pts = np.asarray(out.points)
    ind = []
    for p in pts:
        i = p[0]
        if float(i).is_integer() and 0 <= i < n and p[1] == i * i:
            ind.append(int(i))
        else:
            ind.append(n)   # not an input point: out of range on purpose, the obligation fails
    return dict(n=n, accepts=accepts, other_errors=other, ind=ind, labels=labels_of(out, mapping),
                edges=undirected_edges(out), kind=type(out).__name__)


def tables():
    """[(name, group_label, table)] for the index-based labellers, [(name, group_label)] for the bounding-box ones"""
    fs = live_labellers()
    idx, bbox = [], []
    for n, f in fs.items():
        if n in BBOX:
            bbox.append((n, f.group_label))
        else:
            idx.append((n, f.group_label, probe(f)))
    return idx, bbox


def _lean_str(s):
    return '"' + s.replace("\\", "\\\\").replace('"', '\\"') + '"'


def _ident(n):
    return n if n.isidentifier() else "«" + n + "»"


def lean_files(idx=None, bbox=None):
    if idx is None:
        idx, bbox = tables()
    defs, alls, obls, comments = [], [], [], []
    for n, gl, t in idx:
        labels = ", ".join("(%s, [%s])" % (_lean_str(l), ", ".join(map(str, ix))) for l, ix in t["labels"])
        edges = ", ".join("(%d, %d)" % e for e in t["edges"])
        defs.append("/-- `%s` -> group %s, returns %s; accepted sizes %s -/\n"
                    "def %s : Labeller :=\n  { nExpected := %d,\n    ind := [%s],\n    labels := [%s],\n    edges := [%s] }\n"
                    % (n, _lean_str(gl), t["kind"], t["accepts"], _ident(n), t["n"], ", ".join(map(str, t["ind"])),
                       labels, edges))
        alls.append("(%s, %s)" % (_lean_str(n), _ident(n)))
        obls.append("theorem %s : labellerWF Generated.%s = true := by decide +kernel\n" % (_ident("wf_" + n), _ident(n)))
        if t["kind"] == GRAPH_KIND:
            obls.append("theorem %s : labellerEdgesWF Generated.%s = true := by decide +kernel\n"
                        % (_ident("edges_" + n), _ident(n)))
    for n, gl in bbox or []:
        comments.append("--   %s -> group %s (constructs new corner points; outside the re-indexing clause)" % (n, gl))
    gen = ("/- REGENERATED by harness/extract_c15.py by probing every labeller of the live menpo.landmark module on\n"
           "   every run of `./check C15`; do not edit. -/\n"
           "import MenpoModel.Core.C15\n\n"
           "namespace MenpoModel.C15.Generated\nopen MenpoModel.C15\n\n"
           + "\n".join(defs) + "\n"
           "/-- every index-based labeller menpo.landmark exports, by function name -/\n"
           "def all : List (String × Labeller) :=\n  [" + ",\n   ".join(alls) + "]\n\n"
           "-- not tabulated:\n" + "\n".join(comments) + "\n\n"
           "end MenpoModel.C15.Generated\n")
    props = ("/- Obligations over the regenerated labeller tables (written by harness/extract_c15.py: one per labeller the\n"
             "   live module exports).  With `labeller_reindexes`, `labeller_all_labelled`, `labeller_commutes`,\n"
             "   `labeller_size` of Props/C15.lean each `wf_` obligation makes those theorems statements about that\n"
             "   labeller as it is coded now; the `edges_` obligations (labellers returning a labelled graph) feed\n"
             "   `labeller_output_wf`. -/\n"
             "import MenpoModel.Generated.C15Labellers\nimport MenpoModel.Props.C15\n\n"
             "namespace MenpoModel.C15.GenProps\nopen MenpoModel.C15\n\n"
             + "".join(obls) + "\n"
             "/-- all of them at once, in the form the property theorems consume -/\n"
             "theorem all_wf : ∀ p ∈ Generated.all, labellerWF p.2 = true := by decide +kernel\n\n"
             "/-- the labeller clause of the property for every index-based labeller the live module exports: wrong sizes\n"
             "are rejected, the labeller commutes with every map of the points, output point `j` is input point `ind[j]`\n"
             "(all distinct), every output point is labelled -/\n"
             "theorem live_labellers {α β : Type} : ∀ p ∈ Generated.all, ∀ (xs : List α),\n"
             "    (xs.length ≠ p.2.nExpected → p.2.apply xs = .error .labelling) ∧\n"
             "    (∀ f : α → β, p.2.apply (xs.map f) = (p.2.apply xs).map (mapPts f)) ∧\n"
             "    (∀ g, p.2.apply xs = .ok g → g.pts.length = p.2.ind.length ∧\n"
             "      (∀ j, j < p.2.ind.length → p.2.ind[j]! < xs.length ∧ g.pts[j]? = xs[p.2.ind[j]!]?) ∧\n"
             "      p.2.ind.Nodup ∧ Covered g) :=\n"
             "  fun p hp xs => ⟨(labeller_size p.2 xs).1, fun f => labeller_commutes p.2 f xs, fun g h =>\n"
             "    have r := labeller_reindexes p.2 (all_wf p hp) xs g h\n"
             "    ⟨r.1, r.2.1, r.2.2, (labeller_all_labelled p.2 (all_wf p hp) xs g h).1⟩⟩\n\n"
             "end MenpoModel.C15.GenProps\n")
    return {"MenpoModel/Generated/C15Labellers.lean": gen, "MenpoModel/GenProps/C15.lean": props}


def obligation_names(idx):
    """one `labellerWF` obligation per labeller (the property's clauses), one `labellerEdgesWF` obligation per
    labeller that returns a labelled graph (so that the selection theorems apply to its output), and `all_wf`"""
    out = []
    for n, _, t in idx:
        out.append("MenpoModel.C15.GenProps.wf_" + n)
        if t["kind"] == GRAPH_KIND:
            out.append("MenpoModel.C15.GenProps.edges_" + n)
    return out + ["MenpoModel.C15.GenProps.all_wf", "MenpoModel.C15.GenProps.live_labellers"]


def edges_out_of_range(idx):
    """labellers whose returned connectivity refers to points the output does not have (any return type)"""
    bad = []
    for n, _, t in idx:
        k = len(t["ind"])
        off = [e for e in t["edges"] if e[0] >= k or e[1] >= k]
        if off:
            bad.append((n, t["kind"], k, off[:4], len(off)))
    return bad
