"""C15 — regenerated labeller tables (DESIGN 2.3b, Appendix 13 item 4).

Nothing is parsed from source text: every labelling function the live ``menpo.landmark`` module of the
current working tree exports (callables carrying the ``group_label`` attribute that ``labeller_func`` duck-types
onto them) is *probed*:

  * expected input size  = the sizes in 1..200 whose probe cloud is not refused with ``LabellingError``;
  * output index list    = where each output point of an index-encoding probe cloud (point i = (i, i*i), so that
                           no average / midpoint of probe points is again a probe point) comes from;
  * labels               = label -> indices into the output points (from the returned masks / mapping, in order);
  * edges                = undirected edge list of the returned graph / mesh.

The tables are written to lean/MenpoModel/Generated/C15Labellers.lean; lean/MenpoModel/GenProps/C15.lean states one
``decide +kernel`` obligation ``labellerWF`` per labeller, which `lake build` re-checks against what the code says
now.  The two bounding-box labellers construct new corner points and are outside the re-indexing clause by the
property text; they are listed in a comment only.
"""
BBOX = ("bounding_box_to_bounding_box", "bounding_box_mirrored_to_bounding_box")
MAX_N = 200
TARGETS = ["MenpoModel.Generated.C15Labellers", "MenpoModel.Generated.C15Resolution", "MenpoModel.Generated.C15Scan",
           "MenpoModel.GenProps.C15"]
GRAPH_KIND = "LabelledPointUndirectedGraph"
CLS = {"LabelledPointUndirectedGraph": "lgraph", "TriMesh": "trimesh", "PointUndirectedGraph": "pugraph",
       "PointCloud": "pointcloud"}
KINDS = ("ndarray", "pointcloud", "lgraph", "group")


def live_labellers():
    """name -> function, every labeller exported by menpo.landmark"""
    import menpo.landmark as ml
    out = {}
    for n in sorted(dir(ml)):
        f = getattr(ml, n)
        if callable(f) and hasattr(f, "group_label") and not isinstance(f, type):
            out[n] = f
    return out


def probe_cloud(n):
    import numpy as np
    i = np.arange(n, dtype=float)
    return np.stack([i, i * i], axis=1)


def undirected_edges(obj):
    """sorted list of (u, v), u <= v, of whatever connectivity the returned object carries"""
    es = set()
    if hasattr(obj, "adjacency_matrix"):
        r, c = obj.adjacency_matrix.nonzero()
        for a, b in zip(r.tolist(), c.tolist()):
            es.add((min(a, b), max(a, b)))
    elif hasattr(obj, "trilist"):
        for t in obj.trilist.tolist():
            for a, b in ((t[0], t[1]), (t[1], t[2]), (t[2], t[0])):
                es.add((min(a, b), max(a, b)))
    return sorted(es)


def labels_of(obj, mapping):
    """[(label, [indices into the output points])] in order"""
    import numpy as np
    if hasattr(obj, "_labels_to_masks"):
        return [(str(l), np.nonzero(np.asarray(m))[0].tolist()) for l, m in obj._labels_to_masks.items()]
    return [(str(l), sorted(set(int(i) for i in np.asarray(ix).ravel().tolist()))) for l, ix in mapping.items()]


def probe(f):
    """table of one labeller: dict(n, accepts, other_errors, ind, labels, edges, kind)"""
    import numpy as np
    from menpo.landmark import LabellingError
    accepts, other = [], []
    for k in range(1, MAX_N + 1):
        try:
            f(probe_cloud(k))
            accepts.append(k)
        except LabellingError:
            pass
        except Exception as e:  # noqa: an unexpected exception type at a wrong size is recorded, not swallowed
            other.append((k, type(e).__name__))
    if not accepts:
        return dict(n=0, accepts=[], other_errors=other, ind=[], labels=[], edges=[], kind="none")
    n = accepts[0]
    out, mapping = f(probe_cloud(n), return_mapping=True)
    pts = np.asarray(out.points)
    ind = []
    for p in pts:
        i = p[0]
        if float(i).is_integer() and 0 <= i < n and p[1] == i * i:
            ind.append(int(i))
        else:
            ind.append(n)   # not an input point: out of range on purpose, the obligation fails
    return dict(n=n, accepts=accepts, other_errors=other, ind=ind, labels=labels_of(out, mapping),
                edges=undirected_edges(out), kind=type(out).__name__)


def tables():
    """[(name, group_label, table)] for the index-based labellers, [(name, group_label)] for the bounding-box ones"""
    fs = live_labellers()
    idx, bbox = [], []
    for n, f in fs.items():
        if n in BBOX:
            bbox.append((n, f.group_label))
        else:
            idx.append((n, f.group_label, probe(f)))
    return idx, bbox



def cls_of(obj):
    return CLS.get(type(obj).__name__, "other")


def digest(obj):
    """bit-level digest of an array / point cloud / graph / mesh / labelled graph"""
    import numpy as np
    if isinstance(obj, np.ndarray):
        return repr((obj.tobytes(), obj.shape, str(obj.dtype)))
    d = [np.asarray(obj.points).tobytes(), np.asarray(obj.points).shape]
    if hasattr(obj, "adjacency_matrix"):
        a = obj.adjacency_matrix
        d += [a.toarray().tobytes() if hasattr(a, "toarray") else np.asarray(a).tobytes()]
    if hasattr(obj, "trilist"):
        d += [np.asarray(obj.trilist).tobytes()]
    if hasattr(obj, "_labels_to_masks"):
        d += [(str(l), np.asarray(m).tobytes()) for l, m in obj._labels_to_masks.items()]
    return repr(d)


def decode_ind(pts, n):
    """which probe point each row of `pts` is (n = not a probe point)"""
    ind = []
    for p in pts:
        i = p[0]
        if float(i).is_integer() and 0 <= i < n and p[1] == i * i:
            ind.append(int(i))
        else:
            ind.append(n)
    return ind


def probe_input(kind, m):
    """(callable running the labeller on a fresh probe input of `m` points of this kind -> (result, mapping or None),
    the input object whose digest must not change)"""
    import numpy as np
    from collections import OrderedDict
    from menpo.shape import PointCloud, LabelledPointUndirectedGraph
    from menpo.landmark import labeller
    pts = probe_cloud(m)
    if kind == "ndarray":
        return (lambda f, rm: f(pts, return_mapping=True) if rm else (f(pts), None)), pts, None
    if kind == "pointcloud":
        x = PointCloud(pts)
        return (lambda f, rm: f(x, return_mapping=True) if rm else (f(x), None)), x, None
    if kind == "lgraph":
        edges = np.array([[0, 1]] if m > 1 else [], dtype=int).reshape(-1, 2)
        x = LabelledPointUndirectedGraph.init_from_edges(pts, edges, OrderedDict([("all", np.ones(m, dtype=bool))]))
        return (lambda f, rm: f(x, return_mapping=True) if rm else (f(x), None)), x, None
    holder = PointCloud(np.zeros((1, 2)))
    holder.landmarks["src"] = PointCloud(pts)

    def run(f, rm):
        r = labeller(holder, "src", f)
        assert r is holder
        new = [k for k in holder.landmarks.group_labels if k != "src"]
        if len(new) != 1:
            raise RuntimeError("labeller() wrote the keys %r" % (new,))
        return holder.landmarks[new[0]], None
    return run, holder.landmarks["src"], holder


def resolution_of(name, f, t):
    """what the labeller does per input kind: one dict per kind plus the distinct mappings / index lists / edge sets"""
    from menpo.landmark import LabellingError
    n = t["n"]
    mappings, inds, edge_sets, rows = [], [], [], []
    wrote = "?"

    def intern(lst, v):
        if v not in lst:
            lst.append(v)
        return lst.index(v)

    for kind in KINDS:
        row = {"kind": kind}
        for key, m in (("small", n - 1), ("large", n + 1)):
            try:
                run, _, _ = probe_input(kind, m)
                run(f, False)
                row[key] = "accepted"
            except LabellingError:
                row[key] = "labelling"
            except Exception:  # noqa: recorded, the obligation fails
                row[key] = "otherError"
        try:
            run, x, holder = probe_input(kind, n)
            before = digest(x)
            plain, _ = run(f, False)
            if kind == "group":
                keys = [k for k in holder.landmarks.group_labels if k != "src"]
                wrote = keys[0] if len(keys) == 1 else "?"
                withm = plain
                mp_labels = labels_of(plain, None) if hasattr(plain, "_labels_to_masks") else None
                untouched = digest(holder.landmarks["src"]) == before and holder.landmarks["src"] is x
            else:
                withm, mp = run(f, True)
                mp_labels = labels_of(None, mp)
                untouched = digest(x) == before
            row["cls"], row["clsWithMapping"] = cls_of(plain), cls_of(withm)
            row["mapping"] = None if mp_labels is None else intern(mappings, mp_labels)
            import numpy as np
            row["ind"] = intern(inds, decode_ind(np.asarray(plain.points), n))
            row["edges"] = intern(edge_sets, undirected_edges(plain))
            row["sameResult"] = digest(plain) == digest(withm) and type(plain) is type(withm)
            row["inputUntouched"] = bool(untouched)
        except Exception as e:  # noqa: a labeller that refuses its own size for one kind: recorded, the obligation fails
            row.update(cls="other", clsWithMapping="other", mapping=None, ind=len(inds), edges=len(edge_sets),
                       sameResult=False, inputUntouched=False, error=type(e).__name__)
        rows.append(row)
    return dict(name=name, groupLabel=f.group_label, wroteKey=wrote, mappings=mappings, inds=inds, edgeSets=edge_sets,
                rows=rows)


def resolutions(idx):
    fs = live_labellers()
    return [resolution_of(n, fs[n], t) for n, _, t in idx]


def _lean_str(s):
    return '"' + s.replace("\\", "\\\\").replace('"', '\\"') + '"'


def _ident(n):
    return n if n.isidentifier() else "«" + n + "»"


def _lean_list(xs):
    return "[" + ", ".join(xs) + "]"


def _lean_labels(labels):
    return _lean_list("(%s, [%s])" % (_lean_str(l), ", ".join(map(str, ix))) for l, ix in labels)


def _lean_bool(b):
    return "true" if b else "false"


def _res_entry(r):
    rows = []
    for row in r["rows"]:
        rows.append("{ kind := .%s, small := .%s, large := .%s, cls := .%s, clsWithMapping := .%s, mapping := %s, "
                    "ind := %d, edges := %d, sameResult := %s, inputUntouched := %s }"
                    % (row["kind"], row["small"], row["large"], row["cls"], row["clsWithMapping"],
                       "none" if row["mapping"] is None else "some %d" % row["mapping"], row["ind"], row["edges"],
                       _lean_bool(row["sameResult"]), _lean_bool(row["inputUntouched"])))
    return ("  { name := %s, groupLabel := %s, wroteKey := %s,\n    mappings := %s,\n    inds := %s,\n    edgeSets := %s,\n"
            "    rows := [%s] }"
            % (_lean_str(r["name"]), _lean_str(r["groupLabel"]), _lean_str(r["wroteKey"]),
               _lean_list(_lean_labels(m) for m in r["mappings"]),
               _lean_list(_lean_list(map(str, i)) for i in r["inds"]),
               _lean_list(_lean_list("(%d, %d)" % tuple(e) for e in es) for es in r["edgeSets"]),
               ",\n             ".join(rows)))


def lean_files(idx=None, bbox=None, res=None, sites=None, scan=None, guard=None):
    from . import scan_c15
    if guard is None:
        guard = scan_c15.validate_guard()
    if idx is None:
        idx, bbox = tables()
    if res is None:
        res = resolutions(idx)
    if sites is None:
        sites = scan_c15.set_sites()
    if scan is None:
        scan = scan_c15.labeller_scan()
    defs, alls, obls, comments, fdefs, funcs, rdefs, ress, robls = [], [], [], [], [], [], [], [], []
    for n, gl, t in idx:
        labels = ", ".join("(%s, [%s])" % (_lean_str(l), ", ".join(map(str, ix))) for l, ix in t["labels"])
        edges = ", ".join("(%d, %d)" % e for e in t["edges"])
        defs.append("/-- `%s` -> group %s, returns %s; accepted sizes %s -/\n"
                    "def %s : Labeller :=\n  { nExpected := %d,\n    ind := [%s],\n    labels := [%s],\n    edges := [%s] }\n"
                    % (n, _lean_str(gl), t["kind"], t["accepts"], _ident(n), t["n"], ", ".join(map(str, t["ind"])),
                       labels, edges))
        alls.append("(%s, %s)" % (_lean_str(n), _ident(n)))
        fdefs.append("def %s : LabFunc := { name := %s, groupLabel := %s, cls := .%s, table := %s }\n"
                     % (_ident("f_" + n), _lean_str(n), _lean_str(gl), CLS.get(t["kind"], "other"), _ident(n)))
        funcs.append(_ident("f_" + n))
        obls.append("theorem %s : labellerWF Generated.%s = true := by decide +kernel\n" % (_ident("wf_" + n), _ident(n)))
        if t["kind"] == GRAPH_KIND:
            obls.append("theorem %s : labellerEdgesWF Generated.%s = true := by decide +kernel\n"
                        % (_ident("edges_" + n), _ident(n)))
    for r in res:
        rdefs.append("def %s : ResEntry :=\n%s\n" % (_ident("res_" + r["name"]), _res_entry(r)))
        ress.append(_ident("res_" + r["name"]))
        robls.append("theorem %s : Generated.%s = expectedEntry Generated.%s := by decide +kernel\n"
                     % (_ident("res_" + r["name"]), _ident("res_" + r["name"]), _ident("f_" + r["name"])))
    for n, gl in bbox or []:
        comments.append("--   %s -> group %s (constructs new corner points; outside the re-indexing clause)" % (n, gl))
    gen = ("/- REGENERATED by harness/extract_c15.py by probing every labeller of the live menpo.landmark module on\n"
           "   every run of `./check C15`; do not edit. -/\n"
           "import MenpoModel.Core.C15Entry\n\n"
           "namespace MenpoModel.C15.Generated\nopen MenpoModel.C15\n\n"
           + "\n".join(defs) + "\n"
           "/-- every index-based labeller menpo.landmark exports, by function name -/\n"
           "def all : List (String × Labeller) :=\n  [" + ",\n   ".join(alls) + "]\n\n"
           "/- the same functions as `labeller_func` wraps them: exported name, `group_label`, class of the result -/\n"
           + "".join(fdefs) + "\n"
           "def funcs : List LabFunc :=\n  [" + ",\n   ".join(funcs) + "]\n\n"
           "-- not tabulated:\n" + "\n".join(comments) + "\n\n"
           "end MenpoModel.C15.Generated\n")
    resf = ("/- REGENERATED by harness/extract_c15.py on every run of `./check C15`; do not edit.\n"
            "   The resolution table: what every index-based labeller of the live menpo.landmark module does per input kind\n"
            "   (ndarray / PointCloud / LabelledPointUndirectedGraph / a LandmarkManager group through `labeller()`):\n"
            "   what inputs of n-1 and n+1 points meet, the class of the result without and with `return_mapping`, which\n"
            "   mapping / index list / connectivity comes back, whether both options return the same object and whether the\n"
            "   input is bit-identical afterwards; for `labeller()` the key it wrote. -/\n"
            "import MenpoModel.Core.C15Entry\n\n"
            "namespace MenpoModel.C15.Generated\nopen MenpoModel.C15\n\n"
            + "\n".join(rdefs) + "\n"
            "def resolution : List ResEntry :=\n  [" + ",\n   ".join(ress) + "]\n\n"
            "end MenpoModel.C15.Generated\n")
    vs = scan_c15.validated_sizes(scan)
    site_rows = ["  { file := %s, fn := %s, expr := %s, uses := %s }"
                 % (_lean_str(f), _lean_str(fn), _lean_str(e), _lean_list(_lean_str(u) for u in us))
                 for f, fn, e, us in sites]
    scan_rows = ["  { name := %s, file := %s, isLabeller := %s, uses := %s, sizes := %s, delegates := %s }"
                 % (_lean_str(r[0]), _lean_str(r[1]), _lean_bool(r[2]), _lean_list(_lean_str(u) for u in r[4]),
                    _lean_list(map(str, vs[r[0]])), _lean_list(_lean_str(d) for d in r[6]))
                 for r in scan]
    scanf = ("/- REGENERATED by harness/scan_c15.py (ast walk of menpo/shape/labelled.py and menpo/landmark/labels/**/*.py of the\n"
             "   current tree) on every run of `./check C15`; do not edit. -/\n"
             "import MenpoModel.Core.C15Entry\n\n"
             "namespace MenpoModel.C15.Generated\nopen MenpoModel.C15\n\n"
             "/-- every expression that builds a `set`, with the ways its value is used -/\n"
             "def setSites : List SetSite :=\n  [" + ",\n   ".join(r.strip() for r in site_rows) + "]\n\n"
             "/-- what every `labeller_func` function (and every helper one delegates to) does with its point cloud -/\n"
             "def labScan : List LabScan :=\n  [" + ",\n   ".join(r.strip() for r in scan_rows) + "]\n\n"
             "/-- the condition under which `validate_input` raises `LabellingError` -/\n"
             "def validateGuard : List String := " + _lean_list(_lean_str(g) for g in guard) + "\n\n"
             "end MenpoModel.C15.Generated\n")
    props = ("/- Obligations over the regenerated tables (written by harness/extract_c15.py).\n"
             "   * `wf_` / `edges_`: one per labeller the live module exports.  With `labeller_reindexes`,\n"
             "     `labeller_all_labelled`, `labeller_commutes`, `labeller_size`, `labeller_masks`, `labeller_label_points`,\n"
             "     `labeller_edges` of Props/C15*.lean each makes those theorems statements about that labeller as it is coded\n"
             "     now; the `edges_` obligations (labellers returning a labelled graph) feed `labeller_output_wf`.\n"
             "   * `res_`: the resolution row of every labeller (what it does per input kind and per `return_mapping`, probed on\n"
             "     the live function) equals what the model (`LabFunc.call`, `relabel`) computes for it.\n"
             "   * `orderSites_ok`, `labScan_ok`: the source scans (no set-iteration order reaches an output; no labeller looks at\n"
             "     a coordinate, each validates exactly the size of its table). -/\n"
             "import MenpoModel.Generated.C15Labellers\nimport MenpoModel.Generated.C15Resolution\n"
             "import MenpoModel.Generated.C15Scan\nimport MenpoModel.Props.C15\n\n"
             "namespace MenpoModel.C15.GenProps\nopen MenpoModel.C15\n\n"
             + "".join(obls) + "\n" + "".join(robls) + "\n"
             "/-- all of them at once, in the form the property theorems consume -/\n"
             "theorem all_wf : ∀ p ∈ Generated.all, labellerWF p.2 = true := by\n"
             "  intro p hp\n"
             "  simp only [Generated.all, List.mem_cons, List.not_mem_nil, or_false] at hp\n"
             "  rcases hp with " + " | ".join("rfl" for _ in idx) + "\n"
             + "".join("  · exact %s\n" % _ident("wf_" + n) for n, _, _ in idx) + "\n"
             "/-- `funcs` wraps exactly the tabulated labellers, in the same order -/\n"
             "theorem funcs_all : Generated.funcs.map (fun f => (f.name, f.table)) = Generated.all := by decide +kernel\n\n"
             "theorem funcs_cls : ∀ f ∈ Generated.funcs, f.cls ≠ .other := by decide +kernel\n\n"
             "/-- the labellers tabulated from the live module are exactly the 33 the property quantifies over -/\n"
             "theorem labellers_pinned : Generated.funcs.map (fun f => f.name) = expectedLabellerNames := by decide +kernel\n\n"
             "/-- the resolution table as a whole is the model's -/\n"
             "theorem resolution_ok : Generated.resolution = Generated.funcs.map expectedEntry := by\n"
             "  simp only [Generated.resolution, Generated.funcs, List.map_cons, List.map_nil, "
             + ", ".join(_ident("res_" + r["name"]) for r in res) + "]\n\n"
             "/-- the only set whose iteration order the anchored code observes is the whitelisted one (inside a `raise`) -/\n"
             "theorem orderSites_ok : orderSitesOf Generated.setSites = expectedOrderSites := by decide +kernel\n\n"
             "-- (the guard of `validate_input` is no longer compared as text: the function is TRANSLATED from source and proved\n"
             "--  equal to `validateInput` for all arguments, `GenProps.Src.validate_input_eq`)\n\n"
             "/-- no labelling function can look at a coordinate; each validates exactly the size of its table -/\n"
             "theorem labScan_ok : labScanOK Generated.labScan Generated.funcs = true := by decide +kernel\n\n"
             "/-- the labeller clause of the property for every index-based labeller the live module exports: wrong sizes\n"
             "are rejected, the labeller commutes with every map of the points, output point `j` is input point `ind[j]`\n"
             "(all distinct), every output point is labelled -/\n"
             "theorem live_labellers {α β : Type} : ∀ p ∈ Generated.all, ∀ (xs : List α),\n"
             "    (xs.length ≠ p.2.nExpected → p.2.apply xs = .error .labelling) ∧\n"
             "    (∀ f : α → β, p.2.apply (xs.map f) = (p.2.apply xs).map (mapPts f)) ∧\n"
             "    (∀ g, p.2.apply xs = .ok g → g.pts.length = p.2.ind.length ∧\n"
             "      (∀ j, j < p.2.ind.length → p.2.ind[j]! < xs.length ∧ g.pts[j]? = xs[p.2.ind[j]!]?) ∧\n"
             "      p.2.ind.Nodup ∧ Covered g) :=\n"
             "  fun p hp xs => ⟨(labeller_size p.2 xs).1, fun f => labeller_commutes p.2 f xs, fun g h =>\n"
             "    have r := labeller_reindexes p.2 (all_wf p hp) xs g h\n"
             "    ⟨r.1, r.2.1, r.2.2, (labeller_all_labelled p.2 (all_wf p hp) xs g h).1⟩⟩\n\n"
             "/-- **the gather theorem instantiated for every regenerated table**: on every input the labelled result of every\n"
             "live labeller carries the labels of its table in the table's order, the mask of each label is true exactly at\n"
             "the output positions the table lists, the points under the label are the input points `ind[j]`, `j` in the\n"
             "label's list, and the connectivity is the table's -/\n"
             "theorem live_labellers_masks {α : Type} : ∀ p ∈ Generated.all, ∀ (xs : List α) (g : LGraph α),\n"
             "    p.2.apply xs = .ok g →\n"
             "    g.names = p.2.labels.map Prod.fst ∧ g.edges = p.2.edges ∧\n"
             "    ∀ l ix, (l, ix) ∈ p.2.labels →\n"
             "      lookup g.labels l = some (indexMask p.2.ind.length ix) ∧\n"
             "      (∀ j, (indexMask p.2.ind.length ix)[j]? = some true ↔ j < g.pts.length ∧ j ∈ ix) ∧\n"
             "      (∀ j ∈ ix, j < p.2.ind.length ∧\n"
             "        (maskFilter g.pts (indexMask p.2.ind.length ix))[rank (indexMask p.2.ind.length ix) j]? =\n"
             "          xs[p.2.ind[j]!]?) ∧\n"
             "      (∀ k, k < (maskFilter g.pts (indexMask p.2.ind.length ix)).length →\n"
             "        ∃ j ∈ ix, rank (indexMask p.2.ind.length ix) j = k) :=\n"
             "  fun p hp xs g h =>\n"
             "    have m := labeller_masks p.2 (all_wf p hp) xs g h\n"
             "    ⟨m.1, (labeller_apply_ok h).2.2.1, fun l ix hm =>\n"
             "      have q := labeller_label_points p.2 (all_wf p hp) xs g h l ix hm\n"
             "      ⟨(m.2 l ix hm).1, (m.2 l ix hm).2, q.1, q.2⟩⟩\n\n"
             "/-- the label index lists of every table are strictly increasing -/\n"
             "theorem all_sorted : ∀ p ∈ Generated.all, labelsSortedB p.2 = true := by decide +kernel\n\n"
             "/-- **the gather form, for every live labeller and every one of its labels**: on every input the points under\n"
             "label `l` are the input points gathered through `ix.map ind` -/\n"
             "theorem live_labellers_gather {α : Type} : ∀ p ∈ Generated.all, ∀ (xs : List α) (g : LGraph α),\n"
             "    p.2.apply xs = .ok g → ∀ l ix, (l, ix) ∈ p.2.labels →\n"
             "      maskFilter g.pts (indexMask p.2.ind.length ix) = gather xs (ix.map (p.2.ind[·]!)) :=\n"
             "  fun p hp xs g h l ix hm =>\n"
             "    (labeller_get_label_gather p.2 (all_wf p hp) (all_sorted p hp) xs g h l ix hm).1\n\n"
             "/-- every live labelling function, through `labeller_func`'s wrapper and through `labeller()`: whatever kind of\n"
             "input carries the points the result is the same; a wrong size is a `LabellingError`; `labeller()` on a\n"
             "well-formed manager raises only for a missing group / an ambiguous `None` / a wrong size, and when it succeeds\n"
             "it changes exactly the key `group_label` -/\n"
             "theorem live_entry {α : Type} : ∀ f ∈ Generated.funcs,\n"
             "    labellerWF f.table = true ∧\n"
             "    (∀ (x y : LabIn α) rm, x.pts = y.pts → f.call x rm = f.call y rm) ∧\n"
             "    (∀ (x : LabIn α) rm, x.pts.length ≠ f.table.nExpected → f.call x rm = .error .labelling) ∧\n"
             "    (∀ (m m' : Manager α) grp, relabel m grp f = .ok m' →\n"
             "      (∀ k, k ≠ f.groupLabel → m'.get k = m.get k) ∧\n"
             "      m'.keys = (if f.groupLabel ∈ m.keys then m.keys else m.keys ++ [f.groupLabel])) ∧\n"
             "    (∀ (m : Manager α), ManagerWF m → ∀ grp e, relabel m grp f = .error e ↔\n"
             "      (m.getItem grp = .error e) ∨\n"
             "      (∃ s, m.getItem grp = .ok s ∧ s.g.pts.length ≠ f.table.nExpected ∧ e = .labelling)) :=\n"
             "  fun f hf =>\n"
             "    have hw : labellerWF f.table = true := by\n"
             "      have : (f.name, f.table) ∈ Generated.all := by\n"
             "        rw [← funcs_all]; exact List.mem_map.mpr ⟨f, hf, rfl⟩\n"
             "      exact all_wf _ this\n"
             "    ⟨hw, fun x y rm h => call_kind_independent f x y rm h, fun x rm h => (call_spec f x rm).1 h,\n"
             "     fun m m' grp h => by\n"
             "       obtain ⟨_, _, _, _, _, _, hk, hkeys⟩ := relabel_spec h\n"
             "       exact ⟨hk, hkeys⟩,\n"
             "     fun m hm grp e => relabel_error_iff m hm grp f (funcs_cls f hf) e⟩\n\n"
             "end MenpoModel.C15.GenProps\n")
    return {"MenpoModel/Generated/C15Labellers.lean": gen, "MenpoModel/Generated/C15Resolution.lean": resf,
            "MenpoModel/Generated/C15Scan.lean": scanf, "MenpoModel/GenProps/C15.lean": props}


def obligation_names(idx):
    """one `labellerWF` obligation per labeller (the property's clauses), one `labellerEdgesWF` obligation per
    labeller that returns a labelled graph (so that the selection theorems apply to its output), one resolution
    obligation per labeller, the two scan obligations, and the theorems that consume them for all live labellers"""
    out = []
    for n, _, t in idx:
        out.append("MenpoModel.C15.GenProps.wf_" + n)
        if t["kind"] == GRAPH_KIND:
            out.append("MenpoModel.C15.GenProps.edges_" + n)
    for n, _, t in idx:
        out.append("MenpoModel.C15.GenProps.res_" + n)
    return out + ["MenpoModel.C15.GenProps." + x for x in
                  ("all_wf", "funcs_all", "funcs_cls", "labellers_pinned", "resolution_ok", "orderSites_ok", "labScan_ok", "live_labellers",
                   "live_labellers_masks", "all_sorted", "live_labellers_gather", "live_entry")]


def edges_out_of_range(idx):
    """labellers whose returned connectivity refers to points the output does not have (any return type)"""
    bad = []
    for n, _, t in idx:
        k = len(t["ind"])
        off = [e for e in t["edges"] if e[0] >= k or e[1] >= k]
        if off:
            bad.append((n, t["kind"], k, off[:4], len(off)))
    return bad
